"""F29: one packet makes a public view raise. _MessageDB._msg_value_msg() asserted that the latest stored message of a code is
for the domain/zone being asked about; System.heat_demand asks for 3150|FC, so after the controller sends a 3150 for a *zone*
(` I --- 01:145038 --:------ 01:145038 3150 002 0164`) `tcs.heat_demand` and `tcs.status` raise AssertionError until a newer
3150|FC arrives. C13: 'After any sequence of received packets, every public view ... of each device, system and zone -- schema,
params, status ... -- returns a value without raising'.
Run from /repo: timeout 60 /venv/bin/python /verif/repro/f29_view_assert.py     (exit 1 = the defect is present)
"""
import asyncio
import logging
import sys
from datetime import datetime as dt, timedelta as td

logging.disable(logging.CRITICAL)
from ramses_rf import Gateway  # noqa: E402
from ramses_tx.message import Message  # noqa: E402
from ramses_tx.packet import Packet  # noqa: E402

CTL = "01:145038"


async def main() -> int:
    clock = [dt(2024, 1, 15, 12, 0, 0)]
    gwy = Gateway("/dev/null", config={"disable_discovery": True})
    gwy._disable_sending = True
    gwy._dt_now = lambda: clock[0]
    bad = 0
    try:
        for frame in (f" I --- {CTL} --:------ {CTL} 3150 002 FC64", f" I --- {CTL} --:------ {CTL} 3150 002 0164"):
            gwy._msg_handler(Message(Packet(clock[0], "045 " + frame)))
            for _ in range(10):
                await asyncio.sleep(0)
            clock[0] += td(seconds=5)
            for view in ("heat_demand", "status", "params", "schema"):
                try:
                    getattr(gwy.tcs, view)
                except Exception as err:  # noqa: BLE001
                    print(f"after `{frame.strip()}`: tcs.{view} raises {type(err).__name__}: {str(err)[:90]}")
                    bad += 1
    finally:
        await gwy.stop()
    print("views raised" if bad else "all views returned a value")
    return 1 if bad else 0


sys.exit(asyncio.run(main()))
