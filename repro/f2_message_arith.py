"""F2: arithmetic errors (OverflowError) escaped Message(pkt): MessageBase._validate mapped Assertion/Attribute/Lookup/
Type/Value/NotImplemented errors to PacketInvalid, but no ArithmeticError (C01)."""
import sys
from datetime import datetime as dt
from ramses_tx import exceptions as exc
from ramses_tx.message import Message
from ramses_tx.packet import Packet

CASES = [
    ("2024-01-01T00:00:00.000000", "045 RP --- 01:000001 18:000002 --:------ 313E 011 00FFFFFFFF00003C800000"),  # dtm - 4e9 minutes
    ("9999-12-31T23:59:59.000000", "045  I --- 01:000001 --:------ 01:000001 1F09 003 FF0532"),  # dtm + 133 s
    ("2024-01-01T00:00:00.000000", "045  I --- 18:000001 63:262142 --:------ 7FFF 012 0010FFFFFFFFFFFF00000000"),  # fromtimestamp
]
bad = 0
for dtm, line in CASES:
    pkt = Packet.from_file(dtm, line)
    try:
        Message(pkt)
        print("decoded", line)
    except exc.PacketInvalid as err:
        print("OK rejected cleanly: PacketInvalid")
    except Exception as err:  # noqa: BLE001
        print("DEFECT:", type(err).__name__, err)
        bad += 1
sys.exit(1 if bad else 0)
