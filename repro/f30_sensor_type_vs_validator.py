"""F30: the topology code accepts a device of *any* type as a heating zone's sensor (Parent._add_child has no type test in the
zone-sensor branch), but the schema validator only admits DEVICE_ID_REGEX.SEN = ^(01|03|04|12|22|34):... for the `sensor` key.
When a controller reports an HR80 radiator valve (00:) as the sensor of a zone (RP|000C|0104), `gwy.schema` contains it and the
library's own SCH_GLOBAL_SCHEMAS refuses that schema. C15: 'the schema the gateway reports is accepted by the library's own
schema validator, so it can be saved and fed back'. Control: the same with a 04: valve is accepted.
Run from /repo: timeout 60 /venv/bin/python /verif/repro/f30_sensor_type_vs_validator.py     (exit 1 = the defect is present)
"""
import asyncio
import logging
import sys
from datetime import datetime as dt, timedelta as td

logging.disable(logging.CRITICAL)
from ramses_rf import Gateway  # noqa: E402
from ramses_rf.helpers import shrink  # noqa: E402
from ramses_rf.schemas import SCH_GLOBAL_SCHEMAS  # noqa: E402
from ramses_tx.address import dev_id_to_hex_id  # noqa: E402
from ramses_tx.message import Message  # noqa: E402
from ramses_tx.packet import Packet  # noqa: E402

CTL = "01:145038"


async def run(sensor: str) -> str | None:
    clock = [dt(2024, 1, 15, 12, 0, 0)]
    gwy = Gateway("/dev/null", config={"disable_discovery": True})
    gwy._disable_sending = True
    gwy._dt_now = lambda: clock[0]
    try:
        for frame in (f"RP --- {CTL} 18:000730 --:------ 0005 004 00080300", f"RP --- {CTL} 18:000730 --:------ 000C 006 010400{dev_id_to_hex_id(sensor)}"):
            gwy._msg_handler(Message(Packet(clock[0], "045 " + frame)))
            for _ in range(10):
                await asyncio.sleep(0)
            clock[0] += td(seconds=5)
        schema = gwy.schema
        assert schema[CTL]["zones"]["01"]["sensor"] == sensor, schema
        try:
            SCH_GLOBAL_SCHEMAS(shrink(schema))
        except Exception as err:  # noqa: BLE001
            return str(err)
        return None
    finally:
        await gwy.stop()


bad = 0
for dev in ("04:123456", "00:123456"):
    why = asyncio.run(run(dev))
    print(f"zone 01 sensor {dev}: reported schema is {'REFUSED by the validator: ' + why[:110] if why else 'accepted by the validator'}")
    bad += bool(why)
sys.exit(1 if bad else 0)
