"""F9: _MessageDB._msg_value_msg() schedules the deletion of an expired message but still returns its (stale) value: the first
read after expiry reports the old value, only the second read gives None. C14: 'once expired its value stops being reported'."""
import sys
from datetime import datetime as dt, timedelta as td
from types import SimpleNamespace
from ramses_rf.entity_base import _MessageDB
from ramses_tx.message import Message
from ramses_tx.packet import Packet

now = dt(2024, 1, 3, 12, 0, 0)
deleted = []
gwy = SimpleNamespace(_dt_now=lambda: now, _loop=SimpleNamespace(call_soon=lambda fn, *a: deleted.append(a)), _zzz=None)
pkt = Packet.from_file("2024-01-01T00:00:00.000000", "045  I --- 04:111111 --:------ 04:111111 30C9 003 0007D0")  # 20.00C, 36 h old
msg = Message(pkt)
msg._gwy = gwy
print("expired:", msg._expired, "(lifespan", pkt._lifespan, ")")
db = SimpleNamespace(_gwy=gwy, _delete_msg=lambda m: None)
val = _MessageDB._msg_value_msg(db, msg, key="temperature")
print("value reported for the expired message:", val, "| deletion scheduled:", bool(deleted))
sys.exit(1 if (msg._expired and val is not None) else 0)
