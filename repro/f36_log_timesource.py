"""F36 (C01): a valid frame with an ISO-valid but extreme timestamp poisons the log-record time source; the next *rejected* line
then raises ValueError out of _frame_read's own except handler (its _LOGGER.warning) and the replay ends.
Run from /repo:  timeout 60 /venv/bin/python /verif/repro/f36_log_timesource.py   (exit 0 = reproduced on a tree without the fix)"""
import asyncio
import logging
import sys

from ramses_tx import Message
from ramses_tx.protocol import create_stack

logging.disable(logging.NOTSET)

LINES = {
    "2024-01-01T12:00:00.000000": "045  I --- 01:145038 --:------ 01:145038 1F09 003 FF073F",
    "0001-01-01T00:00:00.000000": "045  I --- 13:042805 --:------ 13:042805 3EF0 003 00C8FF",  # valid frame, extreme date
    "2024-01-01T12:00:02.000000": "045  I --- 13:042805 --:------ 13:042805 3EF0 003 00C8F",  # bad frame: is rejected (and logged)
    "2024-01-01T12:00:03.000000": "045  I --- 01:145038 --:------ 01:145038 1F09 003 FF073F",
    "2024-01-01T12:00:04.000000": "045  I --- 13:042805 --:------ 13:042805 3EF0 003 00C8FF",
}


async def main() -> int:
    got: list[Message] = []
    protocol, transport = await create_stack(got.append, packet_dict=dict(LINES))
    err = None
    try:
        await protocol.wait_for_connection_made()
        await asyncio.sleep(0.3)
        await protocol.wait_for_connection_lost(timeout=2)
    except Exception as e:  # noqa: BLE001
        err = e
    print(f"delivered {len(got)} of 4 valid lines; reader ended with: {err!r}")
    return 0 if len(got) < 4 else 1  # 0 = the defect is present


sys.exit(asyncio.run(main()))
