"""F7/F8: a 1F09 sync packet with a zero countdown made Message._expired divide by a zero timedelta (F8); get_state()
then raised between _pause() and _resume() leaving the engine paused for ever: every later get_state() failed with
'already paused' and the gateway stayed read-only/deaf (F7). C13."""
import asyncio, io, sys, tempfile
from ramses_rf import Gateway

PKTS = {
    "2024-01-01T00:00:00.000000": "045  I --- 01:145038 --:------ 01:145038 1F09 003 FF0000",
    "2024-01-01T00:00:01.000000": "045  I --- 01:145038 --:------ 01:145038 30C9 003 0007D0",
}


async def main() -> int:
    with tempfile.NamedTemporaryFile("w+", suffix=".log") as fh:
        fh.write("".join(f"{k} {v}\n" for k, v in PKTS.items()))
        fh.flush()
        fh.seek(0)
        gwy = Gateway(None, input_file=open(fh.name), config={"disable_discovery": True})
        await gwy.start()
        await gwy._protocol._wait_connection_lost
    bad = 0
    for attempt in (1, 2):
        try:
            schema, pkts = gwy.get_state()
            print(f"attempt {attempt}: OK get_state returned {len(pkts)} packets")
        except Exception as err:  # noqa: BLE001
            print(f"attempt {attempt}: DEFECT {type(err).__name__}: {err}")
            bad += 1
    print("engine paused afterwards:", gwy._engine_state is not None)
    bad += gwy._engine_state is not None
    try:
        _ = [d.traits for d in gwy.devices], [d.status for d in gwy.devices], gwy.schema, gwy.params, gwy.status
        print("OK views answered")
    except Exception as err:  # noqa: BLE001
        print("DEFECT view raised", type(err).__name__, err)
        bad += 1
    await gwy.stop()
    return bad


sys.exit(1 if asyncio.run(main()) else 0)
