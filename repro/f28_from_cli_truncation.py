"""F28: Command.from_cli() cuts the payload with [:48] - 48 *characters*, i.e. 24 bytes - although a frame may carry up to 48
bytes (96 hex characters, COMMAND_REGEX): a longer, perfectly legal payload is silently shortened and a different (still valid)
frame is built. C02: 'parsing it (... from the CLI short form) and printing it again yields exactly the same frame text ... for
all payloads of 1-48 bytes'.
Run from /repo: timeout 30 /venv/bin/python /verif/repro/f28_from_cli_truncation.py     (exit 1 = the defect is present)
"""
import sys
from ramses_tx.command import Command

bad = 0
for n_bytes in (1, 24, 25, 30, 48):
    payload = "".join(f"{i:02X}" for i in range(n_bytes))
    cmd = Command.from_cli(f"RQ 01:123456 0404 {payload}")
    ok = cmd.payload == payload and int(cmd.len_) == n_bytes
    print(f"{n_bytes:2d}-byte payload -> frame carries {len(cmd.payload) // 2:2d} bytes, len field {cmd.len_}: {'ok' if ok else 'TRUNCATED'}")
    bad += not ok
sys.exit(1 if bad else 0)
