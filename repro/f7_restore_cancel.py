"""F7: Gateway._restore_cached_packets()/get_state() call _pause() ... _resume() without try/finally: when the operation is
cancelled (or raises) in between, the engine stays paused for ever - no further packets are handled, get_state() fails with
'already paused'. C13: 'taking a snapshot or restoring one leaves the gateway running exactly as before, whether or not the
operation itself succeeded'."""
import asyncio, sys, tempfile
from ramses_rf import Gateway

LINE = "045  I --- 01:145038 --:------ 01:145038 30C9 003 0007D0"


async def main() -> int:
    with tempfile.NamedTemporaryFile("w+", suffix=".log") as fh:
        fh.write(f"2024-01-01T00:00:00.000000 {LINE}\n")
        fh.flush()
        gwy = Gateway(None, input_file=open(fh.name), config={"disable_discovery": True})
        await gwy.start()
        await gwy._protocol._wait_connection_lost
    pkts = {f"2024-01-01T00:{m:02d}:{s:02d}.000000": LINE for m in range(10) for s in range(60)}
    task = asyncio.create_task(gwy._restore_cached_packets(pkts))
    await asyncio.sleep(0.01)  # restore is under way
    task.cancel()
    try:
        await task
    except asyncio.CancelledError:
        print("restore was cancelled part-way")
    paused = gwy._engine_state is not None
    print("engine paused afterwards:", paused)
    bad = int(paused)
    try:
        gwy.get_state()
        print("OK get_state works after the abandoned restore")
    except Exception as err:  # noqa: BLE001
        print("DEFECT get_state:", type(err).__name__, err)
        bad += 1
    await gwy.stop()
    return bad


sys.exit(1 if asyncio.run(main()) else 0)
