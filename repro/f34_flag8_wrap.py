"""F34: hex_from_flag8 pinned the list length but not the elements: a 'flag' outside {0, 1} spills into the neighbouring bit (or past
the octet), i.e. an unrepresentable value is silently wrapped into a different valid flag byte. C04 (no silent wrap)."""
import sys
from ramses_tx.helpers import hex_from_flag8, hex_to_flag8

wraps = []
for flags in ([0, 0, 0, 0, 0, 0, 0, 2], [255] * 8, [0, 0, 0, 0, 0, 0, 3, 0]):
    try:
        h = hex_from_flag8(flags)
        wraps.append(f"hex_from_flag8({flags}) -> {h!r}" + (f" -> {hex_to_flag8(h)}" if len(h) == 2 else " (not an octet)"))
    except ValueError:
        pass
print("F34 silent wraps:", wraps or "none")
sys.exit(1 if wraps else 0)
