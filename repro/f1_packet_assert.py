"""F1: a frame whose array length is not a multiple of the element length made Packet.from_file raise AssertionError
(C01: only PacketInvalid/ValueError may leave the receive path; one such line ended a whole log replay)."""
import asyncio, sys
from ramses_tx import exceptions as exc
from ramses_tx.packet import Packet

LINE = "045  I --- 01:000001 --:------ 01:000001 000A 013 00100100000000001001000000"  # 13 bytes: not a multiple of 6
LINE2 = "045  I --- 04:000001 01:000002 --:------ 000A 012 001001F40DAC011001F40DAC"  # array from a non-controller
bad = 0
for line in (LINE, LINE2):
    try:
        Packet.from_file("2024-01-01T00:00:00.000000", line)
        print("accepted", line)
    except (exc.PacketInvalid, ValueError) as err:
        print("OK rejected cleanly:", type(err).__name__)
    except Exception as err:  # noqa: BLE001
        print("DEFECT:", type(err).__name__, err)
        bad += 1


async def replay() -> int:
    """one bad line must not stop the lines after it"""
    from ramses_tx.protocol import ReadProtocol
    from ramses_tx.transport import FileTransport

    got = []
    proto = ReadProtocol(lambda msg: got.append(msg))
    good = "045  I --- 01:000001 --:------ 01:000001 1F09 003 FF0532"
    src = {
        "2024-01-01T00:00:00.000000": good,
        "2024-01-01T00:00:01.000000": LINE2,
        "2024-01-01T00:00:02.000000": good,
    }
    FileTransport(src, proto)
    await asyncio.sleep(0.2)
    return len(got)


n = asyncio.run(replay())
print("messages delivered from a 3-line replay with one bad line in the middle:", n)
sys.exit(1 if bad or n != 2 else 0)
