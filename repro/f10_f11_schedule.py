"""F10: Schedule._get_schedule() takes the system-wide transfer lock and releases it only on the success path: a failed
fragment request (ProtocolSendFailed) - or the caller's timeout cancelling it - leaves tcs.zone_lock_idx set, so every other
zone's transfer spins for the 3-minute lock timeout.
F11: Schedule._payload_set is initialised to the module-level list EMPTY_PAYLOAD_SET, which is then mutated in place
(payload_set[n-1] = payload / self._payload_set[0] = None): all zones share one list. C18."""
import asyncio, sys
from threading import Lock
from types import SimpleNamespace
from ramses_rf.system import schedule as sched_mod
from ramses_rf.system.heat import ScheduleSync
from ramses_rf.system.schedule import Schedule
from ramses_tx import exceptions as exc
from ramses_tx.const import SZ_FRAG_NUMBER, SZ_FRAGMENT, SZ_TOTAL_FRAGS


def make_zone(idx: str, tcs, gwy):
    return SimpleNamespace(id=f"01:145038_{idx}", idx=idx, ctl=SimpleNamespace(id="01:145038"), tcs=tcs, _gwy=gwy)


async def f10() -> int:
    async def failing_send(cmd, **kwargs):
        raise exc.ProtocolSendFailed("no reply")

    async def version(force_io=False):
        return 5, True

    tcs = SimpleNamespace(zone_lock=Lock(), zone_lock_idx=None, _schedule_version=version)
    tcs._obtain_lock = lambda idx: ScheduleSync._obtain_lock(tcs, idx)
    tcs._release_lock = lambda: ScheduleSync._release_lock(tcs)
    gwy = SimpleNamespace(async_send_cmd=failing_send)
    sch = Schedule(make_zone("01", tcs, gwy))
    try:
        await sch.get_schedule(force_io=True, timeout=2)
    except exc.ProtocolSendFailed:
        print("get_schedule failed with ProtocolSendFailed (as it should)")
    print("lock owner afterwards:", tcs.zone_lock_idx)
    return int(tcs.zone_lock_idx is not None)


def f11() -> int:
    tcs = SimpleNamespace(zone_lock_idx=None)
    z1, z2 = Schedule(make_zone("01", tcs, None)), Schedule(make_zone("02", tcs, None))
    shared = z1._payload_set is z2._payload_set
    frag = {SZ_TOTAL_FRAGS: 1, SZ_FRAG_NUMBER: 1, SZ_FRAGMENT: "00"}
    try:
        z1._payload_set = z1._update_payload_set(z1._payload_set, dict(frag))
    except Exception:  # the fragment content is irrelevant here  # noqa: BLE001
        pass
    print("zones share one payload list:", shared, "| zone 02 now holds:", z2._payload_set, "| sentinel:", sched_mod.EMPTY_PAYLOAD_SET)
    return int(shared or sched_mod.EMPTY_PAYLOAD_SET != [None] or z2._payload_set != [None])


bad = asyncio.run(f10()) + f11()
print("DEFECT" if bad else "OK")
sys.exit(1 if bad else 0)
