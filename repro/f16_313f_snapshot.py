"""F16: Gateway.get_state(include_expired=False) keeps an expired 313F (system datetime) packet: wanted_msg() returns for 313F
before it tests msg._expired (the source comment says: 'usu. expired, useful 4 back-back restarts'). C16: 'A snapshot never
contains ... (unless asked for) expired packets'."""
import asyncio, sys, tempfile
from ramses_rf import Gateway

LOG = (
    "2024-01-01T00:00:00.000000 045 RP --- 01:145038 18:000730 --:------ 313F 009 00FC0029D6050B07E7\n"
    "2024-01-01T03:00:00.000000 045  I --- 01:145038 --:------ 01:145038 1F09 003 FF0532\n"
)


async def main() -> int:
    with tempfile.NamedTemporaryFile("w+", suffix=".log") as fh:
        fh.write(LOG)
        fh.flush()
        gwy = Gateway(None, input_file=open(fh.name), config={"disable_discovery": True})
        await gwy.start()
        await gwy._protocol._wait_connection_lost
        await asyncio.sleep(0.05)
    msgs = [m for d in gwy.devices for m in d._msg_db if m.code == "313F"]
    _, pkts = gwy.get_state(include_expired=False)
    kept = [v for v in pkts.values() if " 313F " in v]
    print("313F expired:", [m._expired for m in msgs], "| kept in the snapshot (include_expired=False):", len(kept))
    await gwy.stop()
    return int(bool(kept) and all(m._expired for m in msgs))


sys.exit(asyncio.run(main()))
