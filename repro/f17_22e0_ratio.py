"""F17: parser_22e0 deliberately accepts 0xE6 for its middle byte and returns it as a ratio: 230/200 = 1.15 (> 1.0). C05."""
import sys
from ramses_tx.message import Message
from ramses_tx.packet import Packet

pkt = Packet.from_file("2024-01-01T00:00:00.000000", "045 RP --- 32:155617 18:005904 --:------ 22E0 004 0034E61E")
msg = Message(pkt)
print(msg.payload)
bad = [k for k, v in msg.payload.items() if isinstance(v, float) and not 0 <= v <= 1]
print("ratios outside 0..1:", bad)
sys.exit(1 if bad else 0)
