"""F20: MqttTransport._on_message let UnicodeDecodeError / ValueError / OverflowError out into the paho callback thread for an
undecodable MQTT payload or a malformed 'ts' (C01: undecodable bytes never prevent the messages that follow)."""
import sys
from types import SimpleNamespace
from ramses_tx.transport import MqttTransport

got = []
stub = SimpleNamespace(_topic_sub="RAMSES/GATEWAY/18:000001/rx", _protocol=None, _frame_read=lambda dtm, frame: got.append((dtm, frame)))
CASES = [
    b"\x80\x81 not utf-8",
    b'{"msg": "045  I --- 01:000001 --:------ 01:000001 1F09 003 FF0532", "ts": "yesterday"}',
    b'{"msg": "045  I --- 01:000001 --:------ 01:000001 1F09 003 FF0532", "ts": "9999-12-31T23:59:59-12:00"}',
    b'{"msg": "045  I --- 01:000001 --:------ 01:000001 1F09 003 FF0532"}',
    b'{"msg": "045  I --- 01:000001 --:------ 01:000001 1F09 003 FF0532", "ts": "2024-01-01T00:00:00+00:00"}',
]
bad = 0
for payload in CASES:
    msg = SimpleNamespace(topic="RAMSES/GATEWAY/18:000001/rx", payload=payload)
    try:
        MqttTransport._on_message(stub, None, None, msg)
        print("OK handled", payload[:40])
    except Exception as err:  # noqa: BLE001
        print("DEFECT:", type(err).__name__, err)
        bad += 1
print("frames passed on:", len(got))
sys.exit(1 if bad or len(got) != 1 else 0)
