"""F35: WantRply.pkt_rcvd accepts any packet whose header equals the command's reply header - it does not look at the addressee
(WantEcho's early-reply branch does). A reply the controller sends to *another* requester (a second gateway, the RFG100...) for
the same code/zone, arriving while ours is outstanding, is returned to our caller as the reply to our command. C06/C07
(near-miss packet differing in exactly `dst`)."""
import asyncio, sys

import faulthandler
faulthandler.dump_traceback_later(10, exit=True)
from datetime import datetime as dt
from types import SimpleNamespace
from ramses_tx.command import Command
from ramses_tx.const import SZ_ACTIVE_HGI, SZ_IS_EVOFW3
from ramses_tx.packet import Packet
from ramses_tx.protocol import PortProtocol
from ramses_tx.typing import QosParams

MINE = "18:123456"


async def main() -> int:
    proto = PortProtocol(lambda msg: None, disable_qos=False)
    loop = asyncio.get_running_loop()

    async def write_frame(frame, disable_tx_limits=False):
        # the echo (with the gateway's real id), then - before the real reply - the controller's answer to somebody else
        loop.call_soon(proto.pkt_received, Packet.from_port(dt.now(), "000 " + frame.replace("18:000730", MINE)))
        loop.call_later(0.01, proto.pkt_received, Packet.from_port(dt.now(), "045 RP --- 01:145038 30:111111 --:------ 30C9 003 0107D0"))
        loop.call_later(0.05, proto.pkt_received, Packet.from_port(dt.now(), f"045 RP --- 01:145038 {MINE} --:------ 30C9 003 010834"))

    transport = SimpleNamespace(write_frame=write_frame, get_extra_info=lambda k, d=None: {SZ_ACTIVE_HGI: MINE, SZ_IS_EVOFW3: True}.get(k, d), is_closing=lambda: False)
    proto.connection_made(transport, ramses=True)
    await asyncio.sleep(0)
    cmd = Command.from_attrs("RQ", "01:145038", "30C9", "01")
    pkt = await asyncio.wait_for(proto.send_cmd(cmd, qos=QosParams(timeout=1.0, wait_for_reply=True)), 6)
    print("reply returned to the caller:", pkt)
    if pkt.dst.id != MINE:
        print(f"DEFECT: the packet is addressed to {pkt.dst.id}, not to this gateway ({MINE}): it is the reply to another requester's command")
        return 1
    print("OK: the reply addressed to this gateway was returned")
    return 0


sys.exit(asyncio.run(main()))
