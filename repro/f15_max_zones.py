"""F15: the configuration validator accepts max_zones up to 16, but the schema validator only accepts zone ids 00-0B
(SCH_ZON_IDX = ^0[0-9AB]$) and at most 12 zones: with max_zones=16 a controller reporting zone 0C yields a gwy.schema that the
library's own SCH_GLOBAL_SCHEMAS rejects (so it cannot be fed back as configuration). C15."""
import asyncio, sys, tempfile
import voluptuous as vol
from ramses_rf import Gateway
from ramses_rf.schemas import SCH_GLOBAL_SCHEMAS
from ramses_rf.helpers import shrink

def log(mask_hi: str) -> str:
    return f"2024-01-01T00:00:00.000000 045 RP --- 01:145038 18:000730 --:------ 0005 004 000800{mask_hi}\n"


async def run(mask_hi: str) -> str:
    with tempfile.NamedTemporaryFile("w+", suffix=".log") as fh:
        fh.write(log(mask_hi))
        fh.flush()
        gwy = Gateway(None, input_file=open(fh.name), config={"disable_discovery": True, "max_zones": 16})
        await gwy.start()
        await gwy._protocol._wait_connection_lost
        await asyncio.sleep(0.05)
    schema = gwy.schema
    zones = sorted(schema.get("01:145038", {}).get("zones", {}))
    try:
        SCH_GLOBAL_SCHEMAS(shrink(schema))
        res = "accepted by SCH_GLOBAL_SCHEMAS"
    except vol.Invalid as err:
        res = f"REJECTED by SCH_GLOBAL_SCHEMAS: {str(err)[:90]}"
    await gwy.stop()
    return f"zones={zones}: {res}"


a = asyncio.run(run("08"))  # zone 0B (bit 11) - control
b = asyncio.run(run("10"))  # zone 0C (bit 12)
print("control  ", a)
print("max_zones", b)
sys.exit(1 if "REJECTED" in b and "accepted" in a else 0)
