"""F5: encoders scale with int(x * k), which truncates: values on the wire grid whose binary product falls just below an integer
lose one LSB (hex_to_temp(hex_from_temp(0.29)) == 0.28). F6: no range guard, so an out-of-range value wraps into a different
valid wire value (hex_from_temp(400) -> '9C40' -> -255.36; a device number >= 2^18 spills into the type bits). C04."""
import sys
from ramses_tx.address import dev_id_to_hex_id, hex_id_to_dev_id
from ramses_tx.helpers import hex_from_double, hex_from_percent, hex_from_temp, hex_to_double, hex_to_percent, hex_to_temp

bad_grid = [k for k in range(-5000, 10001) if hex_to_temp(hex_from_temp(k / 100)) != k / 100]
print(f"F5 temps on the 0.01 grid (-50..100) that do not round-trip: {len(bad_grid)} e.g. {[k / 100 for k in bad_grid[:4]]}")
bad_pct = [k for k in range(0, 201) if hex_to_percent(hex_from_percent(k / 200)) != k / 200]
print(f"F5 percentages on the 0.5% grid that do not round-trip: {len(bad_pct)} e.g. {[k / 200 for k in bad_pct[:4]]}")
bad_dbl = [k for k in range(0, 1000) if hex_to_double(hex_from_double(k / 100, factor=100), factor=100) != k / 100]
print(f"F5 doubles (factor 100) that do not round-trip: {len(bad_dbl)}")
wraps = []
try:
    w = hex_from_temp(400)
    wraps.append(f"hex_from_temp(400) -> {w} -> {hex_to_temp(w)}")
except ValueError:
    pass
try:
    h = dev_id_to_hex_id("01:300000")
    wraps.append(f"dev_id_to_hex_id('01:300000') -> {h} -> {hex_id_to_dev_id(h)}")
except ValueError:
    pass
print("F6 silent wraps:", wraps or "none")
sys.exit(1 if (bad_grid or bad_pct or bad_dbl or wraps) else 0)
