"""F27: the packet log does not carry the packet's own timestamp. _Logger.makeRecord() (logger.py) stamps the log record with
the packet's datetime only `if hasattr(rv, "dtm")`, but Packet._validate() passes `extra=self.__dict__`, whose key is `_dtm`
(there is no instance attribute `dtm`, only a property): the branch is dead and every line is stamped with the wall clock at
the moment of logging. C02: 'A packet written to the packet log and read back by the log replayer yields an equal packet with
the same timestamp, so a recorded session replays as the same message sequence'.

Writes three packets (dated 2021) to a packet log, reads the log back with the library's own replayer and compares timestamps.
Run from /repo: timeout 60 /venv/bin/python /verif/repro/f27_pkt_log_timestamp.py     (exit 1 = the defect is present)
"""

import asyncio
import logging
import os
import sys
import tempfile
from datetime import datetime as dt, timedelta as td

from ramses_tx import logger as tx_logger, packet as tx_packet
from ramses_tx.packet import Packet

LINES = (
    "045  I --- 01:145038 --:------ 01:145038 1F09 003 FF073F",
    "045  I --- 04:108173 --:------ 01:155341 30C9 003 0007D0",
    "045 RQ --- 18:000730 01:145038 --:------ 000A 002 0800",
)


def main() -> int:
    tmp = tempfile.mkdtemp()
    log = os.path.join(tmp, "packet.log")
    tx_logger.set_pkt_logging(tx_packet.PKT_LOGGER, file_name=log)
    t0 = dt(2021, 3, 4, 5, 6, 7, 123456)
    written = []
    for i, line in enumerate(LINES):
        pkt = Packet(t0 + td(seconds=i), line)  # logs itself
        written.append(pkt)
    for h in list(tx_packet.PKT_LOGGER.handlers):
        h.flush()
        h.close()
        tx_packet.PKT_LOGGER.removeHandler(h)
    logging.disable(logging.CRITICAL)

    read_back = []
    with open(log) as fh:
        for raw in fh:
            raw = raw.rstrip("\n")
            if raw.strip():
                try:
                    read_back.append(Packet.from_file(raw[:26], raw[27:]))  # what FileTransport._reader does
                except ValueError:  # the '# ramses_tx <version>' header line (a null frame): _frame_read() skips it too
                    continue

    bad = 0
    for w, r in zip(written, read_back):
        same = w.dtm == r.dtm
        print(f"written dtm={w.dtm.isoformat()}  log/replayed dtm={r.dtm.isoformat()}  frame equal={str(w) == str(r)}  timestamp equal={same}")
        bad += not same
    if len(read_back) != len(written):
        print(f"{len(written)} packets written, {len(read_back)} read back")
        bad += 1
    return 1 if bad else 0


if __name__ == "__main__":
    sys.exit(main())
