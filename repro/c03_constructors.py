"""C03: constructors that accept an argument and return a frame the library's own decoder rejects (instead of refusing the
argument with CommandInvalid), or that emit a verb other than the one they are registered under.
Each case: build the command via the public constructor, then decode it with Message._from_cmd()."""
import sys
from ramses_tx import exceptions as exc
from ramses_tx.command import CODE_API_MAP, Command
from ramses_tx.message import Message

CTL, OTB, BDR = "01:145038", "10:048122", "13:049798"
CASES = [
    ("F3  RQ|2309 get_zone_setpoint", lambda: CODE_API_MAP["RQ|2309"](CTL, "01")),
    ("F4  get_zone_temp idx=0x20", lambda: Command.get_zone_temp(CTL, 0x20)),
    ("F4  get_dhw_mode dhw_idx=2", lambda: Command.get_dhw_mode(CTL, dhw_idx=2)),
    ("F4  get_relay_demand idx=1", lambda: Command.get_relay_demand(BDR, 1)),
    ("F4  get_tpi_params domain=01", lambda: Command.get_tpi_params(BDR, domain_id="01")),
    ("F22 get_mix_valve_params (no RQ regex)", lambda: Command.get_mix_valve_params(CTL, "01")),
    ("F23 get_system_log_entry idx=0x40", lambda: Command.get_system_log_entry(CTL, 0x40)),
    ("F24 put_actuator_state 50%", lambda: Command.put_actuator_state(BDR, 0.5)),
    ("F33 put_presence_detected True", lambda: Command.put_presence_detected("37:123456", True)),
    ("F33 put_presence_detected False", lambda: Command.put_presence_detected("37:123456", False)),
    ("F33 put_presence_detected None", lambda: Command.put_presence_detected("37:123456", None)),
]
bad = 0
for name, build in CASES:
    try:
        cmd = build()
    except exc.CommandInvalid as err:
        print(f"{name}: OK refused by the constructor")
        continue
    key = f"{cmd.verb}|{cmd.code}"
    try:
        msg = Message._from_cmd(cmd)
        want = name.split()[1] if "|" in name.split()[1] else None
        if want and key != want:
            print(f"{name}: DEFECT emitted {key!r} ({cmd})")
            bad += 1
        else:
            print(f"{name}: OK decodes: {msg.payload}")
    except exc.PacketInvalid as err:
        print(f"{name}: DEFECT frame `{cmd}` is rejected by the library's decoder: {type(err).__name__}")
        bad += 1
sys.exit(1 if bad else 0)
