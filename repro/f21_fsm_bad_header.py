"""F21: a Command whose QoS header cannot be determined (Frame._hdr raises PacketPayloadInvalid on first access) was queued by
ProtocolContext.send_cmd(); the header is first read in IsInIdle.cmd_sent(), i.e. inside the _check_buffer_for_cmd() loop callback:
the exception went to the event loop, the caller got an AssertionError ('Coding error') instead of a ProtocolError when its
timeout expired, and the FSM was left inconsistent (cmd set whilst IsInIdle) so that later sends trip the same assertion. C09/C07."""
import asyncio, signal, sys

import faulthandler
faulthandler.dump_traceback_later(8, exit=True)
from types import SimpleNamespace
from ramses_tx import exceptions as exc
from ramses_tx.command import Command
from ramses_tx.const import SZ_ACTIVE_HGI, SZ_IS_EVOFW3
from ramses_tx.protocol import PortProtocol
from ramses_tx.typing import QosParams

loop_errors = []


async def main() -> int:
    asyncio.get_running_loop().set_exception_handler(lambda loop, ctx: loop_errors.append(ctx.get("exception")))
    proto = PortProtocol(lambda msg: None)
    written = []

    async def write_frame(frame, disable_tx_limits=False):
        written.append(frame)
        # echo it straight back
        from datetime import datetime as dt
        from ramses_tx.packet import Packet
        asyncio.get_running_loop().call_soon(proto.pkt_received, Packet.from_port(dt.now(), "000 " + frame.replace("18:000730", "18:123456")))

    transport = SimpleNamespace(write_frame=write_frame, get_extra_info=lambda k, d=None: {SZ_ACTIVE_HGI: "18:123456", SZ_IS_EVOFW3: True}.get(k, d), is_closing=lambda: False)
    proto.connection_made(transport, ramses=True)
    await asyncio.sleep(0)
    bad = 0
    weird = Command.from_attrs("RQ", "04:000001", "30C9", "01")  # a TRV has no zone idx: _hdr raises (0xAB)
    good = Command.from_attrs("RQ", "01:145038", "30C9", "01")
    for name, cmd in (("weird", weird), ("good", good)):
        try:
            pkt = await asyncio.wait_for(proto.send_cmd(cmd, qos=QosParams(timeout=1.0, wait_for_reply=False)), 6)
            print(f"{name}: OK sent, echo {pkt}")
        except exc.ProtocolError as err:
            print(f"{name}: OK refused with {type(err).__name__}")
        except TimeoutError:
            print(f"{name}: DEFECT send_cmd did not finish within 6 s (qos.timeout was 1 s)")
            bad += 1
        except Exception as err:  # noqa: BLE001
            print(f"{name}: DEFECT {type(err).__name__}: {str(err)[:80]}")
            bad += 1
    print("unhandled exceptions in the loop:", [type(e).__name__ for e in loop_errors])
    return bad + len(loop_errors)


sys.exit(1 if asyncio.run(main()) else 0)
