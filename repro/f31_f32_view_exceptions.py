"""F31/F32: two more packets after which a public view raises (C13: 'every public view ... returns a value without raising').
F31  ` I --- 01:145038 --:------ 01:145038 3150 002 FCF1` (a heat-demand *fault* value): parse_valve_demand() returns
     {'heat_demand_fault': ...} without the key 'heat_demand'; System.heat_demands did v.payload["heat_demand"] -> KeyError,
     which also takes down System.status.
F32  ` I --- 02:250708 21:064743 --:------ 22C9 008 0307D07FFF020203` (a single, non-array 22C9 from a UFC - a form documented
     in the parser's comments): UfhController stored it as its setpoints and the `setpoints`/`params` views iterate the payload as a
     list of dicts -> TypeError ("string indices must be integers"), which also takes down Gateway.params.
Run from /repo: timeout 60 /venv/bin/python /verif/repro/f31_f32_view_exceptions.py     (exit 1 = a defect is present)
"""
import asyncio
import logging
import sys
from datetime import datetime as dt, timedelta as td

logging.disable(logging.CRITICAL)
from ramses_rf import Gateway  # noqa: E402
from ramses_tx.message import Message  # noqa: E402
from ramses_tx.packet import Packet  # noqa: E402

CTL, UFC = "01:145038", "02:250708"
FRAMES = (f" I --- {CTL} --:------ {CTL} 3150 002 FCF1", f" I --- {UFC} 21:064743 --:------ 22C9 008 0307D07FFF020203")


async def main() -> int:
    clock = [dt(2024, 1, 15, 12, 0, 0)]
    gwy = Gateway("/dev/null", config={"disable_discovery": True})
    gwy._disable_sending = True
    gwy._dt_now = lambda: clock[0]
    bad = 0
    try:
        for frame in FRAMES:
            gwy._msg_handler(Message(Packet(clock[0], "045 " + frame)))
            for _ in range(10):
                await asyncio.sleep(0)
            clock[0] += td(seconds=5)
            objs = [("gwy", gwy)] + ([("tcs", gwy.tcs)] if gwy.tcs else []) + [(d.id, d) for d in gwy.devices]
            for name, obj in objs:
                for view in ("schema", "params", "status"):
                    try:
                        getattr(obj, view)
                    except Exception as err:  # noqa: BLE001
                        print(f"after `{frame.strip()}`: {name}.{view} raises {type(err).__name__}: {str(err)[:70]}")
                        bad += 1
    finally:
        await gwy.stop()
    print("views raised" if bad else "all views returned a value")
    return 1 if bad else 0


sys.exit(asyncio.run(main()))
