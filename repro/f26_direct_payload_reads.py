"""F26: entity properties that report payload data straight from a stored Message, without consulting msg._expired
(i.e. not through _MessageDB._msg_value*), so the value never ages out. C14: 'once expired its value stops being reported
(the attribute reads as unknown) instead of lingering'.

For each property: inject a message, advance the library's clock far beyond 2x the message's lifetime (+ grace), read the
property twice (the first read of an expired message via _msg_value* still returns it - that is F9), and report what is seen.
Control: a property that does go through the accessor (Zone.temperature / System.heat_demand) reads None by then.

Run from /repo: timeout 60 /venv/bin/python /verif/repro/f26_direct_payload_reads.py   (exit 1 = the defect is present)
"""

import asyncio
import logging
import sys
from datetime import datetime as dt, timedelta as td

logging.disable(logging.CRITICAL)

from ramses_rf import Gateway  # noqa: E402
from ramses_tx.message import Message  # noqa: E402
from ramses_tx.packet import Packet  # noqa: E402

CTL = "01:145038"
UFC = "02:044446"
FAN = "32:155617"
T0 = dt(2024, 1, 15, 12, 0, 0)


async def main() -> int:
    clock = [T0]
    gwy = Gateway("/dev/null", config={"disable_discovery": True}, known_list={FAN: {"class": "FAN"}})
    gwy._disable_sending = True
    gwy._dt_now = lambda: clock[0]

    async def spin() -> None:
        for _ in range(10):
            await asyncio.sleep(0)

    async def inject(secs: float, frame: str) -> Message:
        clock[0] = T0 + td(seconds=secs)
        msg = Message(Packet(clock[0], "045 " + frame))
        gwy._msg_handler(msg)
        await spin()
        return msg

    lingering = []
    try:
        # --- System.heat_demands / relay_demands (3150 / 0008 per domain), control: System.heat_demand
        m1 = await inject(0, f" I --- {CTL} --:------ {CTL} 3150 002 FC64")
        m2 = await inject(1, f" I --- {CTL} --:------ {CTL} 0008 002 FC64")
        tcs = gwy.tcs
        before = (tcs.heat_demand, tcs.heat_demands, tcs.relay_demands)
        clock[0] = T0 + td(days=10)
        _ = tcs.heat_demand
        await spin()
        after = (tcs.heat_demand, tcs.heat_demands, tcs.relay_demands)
        print(f"fresh : heat_demand={before[0]} heat_demands={before[1]} relay_demands={before[2]}")
        print(f"+10 d : heat_demand={after[0]} heat_demands={after[1]} relay_demands={after[2]}   (3150 expired: {m1._expired}, 0008 expired: {m2._expired})")
        if m1._expired and after[1]:
            lingering.append("System.heat_demands")
        if m2._expired and after[2]:
            lingering.append("System.relay_demands")
        if after[0] is not None:
            print("  (control failed: heat_demand should read None)")

        # --- UfhController.setpoints (22C9 array)
        clock[0] = T0
        m3 = await inject(2, f" I --- {UFC} --:------ {UFC} 22C9 024 0008340A2801010834096A0102083409C40103083409C401")
        ufc = gwy.device_by_id[UFC]
        b = ufc.setpoints
        clock[0] = T0 + td(days=10)
        a = ufc.setpoints
        print(f"UfhController.setpoints fresh={bool(b)} +10d={bool(a)} (22C9 expired: {m3._expired})")
        if m3._expired and a:
            lingering.append("UfhController.setpoints")

        # --- HvacVentilator.status (31D9/31DA payload merged into status)
        clock[0] = T0
        m4 = await inject(3, f" I --- {FAN} --:------ {FAN} 31D9 017 000A000020202020202020202020202008")
        fan = gwy.device_by_id[FAN]
        b = {k: v for k, v in fan.status.items() if k in ("fan_mode", "passive")}
        clock[0] = T0 + td(days=10)
        a = {k: v for k, v in fan.status.items() if k in ("fan_mode", "passive")}
        print(f"HvacVentilator.status fresh={b} +10d={a} (31D9 expired: {m4._expired})")
        if m4._expired and a:
            lingering.append("HvacVentilator.status")
    finally:
        await gwy.stop()

    if lingering:
        print("LINGERING after expiry:", ", ".join(lingering))
        return 1
    print("all values aged out")
    return 0


if __name__ == "__main__":
    sys.exit(asyncio.run(main()))
