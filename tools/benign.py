#!/venv/bin/python
"""Behaviour-preserving refactorings written by sub-agents (kept under /verif/benign/<id>/patch.diff + meta.json): every check
must stay silent on them (exit 0); a VIOLATION is a false alarm of the checker; exit 2 (anchor rewritten) is recorded as such.

  tools/benign.py import <src_dir> <prefix> <id>     copy patch_<prefix>.diff / meta_<prefix>.json from an agent's out dir
  tools/benign.py run <id> [...] | --all              apply to a scratch copy of /repo/src and run every registered check
  tools/benign.py suite <id>                          run the test suite with the patch in a scratch worktree (confirmation)
  tools/benign.py table                               markdown table
"""
import json
import os
import shutil
import subprocess
import sys
import tempfile
from concurrent.futures import ThreadPoolExecutor

VERIF = "/verif"
BASE = os.path.join(VERIF, "benign")
PY = "/venv/bin/python"


def sh(cmd, cwd=None, timeout=1500):
    p = subprocess.run(cmd, shell=True, cwd=cwd, capture_output=True, text=True, timeout=timeout)
    return p.returncode, p.stdout + p.stderr


def do_import(src, prefix, bid):
    d = os.path.join(BASE, bid)
    os.makedirs(d, exist_ok=True)
    shutil.copy(os.path.join(src, f"patch_{prefix}.diff"), os.path.join(d, "patch.diff"))
    meta = json.load(open(os.path.join(src, f"meta_{prefix}.json")))
    meta["origin"] = "behaviour-preserving refactoring written by a sub-agent that saw only the property text and a scratch worktree"
    json.dump(meta, open(os.path.join(d, "meta.json"), "w"), indent=1)
    print("imported", bid)


def run(bid):
    d = os.path.join(BASE, bid)
    meta = json.load(open(os.path.join(d, "meta.json")))
    root = tempfile.mkdtemp(prefix=f"benign-{bid}-", dir="/tmp")
    try:
        shutil.copytree("/repo/src", os.path.join(root, "src"), ignore=shutil.ignore_patterns("__pycache__", "*.egg-info"))
        rc, out = sh(f"patch -p1 -s -d {root} < {os.path.join(d, 'patch.diff')}")
        if rc:
            meta["result"] = {"error": "patch does not apply: " + out[-200:]}
            json.dump(meta, open(os.path.join(d, "meta.json"), "w"), indent=1)
            return meta["result"]
        props = [c["property_id"] for c in json.load(open(os.path.join(VERIF, "MANIFEST.json")))["checks"]]
        sh(f"{PY} -m ramlint check C02 --root {root}", cwd=VERIF)

        def one(p):
            rc, out = sh(f"{PY} -m ramlint check {p} --root {root}", cwd=VERIF, timeout=900)
            lines = [ln.strip() for ln in out.splitlines() if ln.startswith(f"  {p}.R") or ln.startswith("ANALYSIS-ERROR")]
            return p, rc, lines[:3]

        res = {}
        with ThreadPoolExecutor(max_workers=8) as ex:
            for p, rc, lines in ex.map(one, props):
                if rc != 0:
                    res[p] = {"rc": rc, "reports": lines}
        meta["result"] = {"false_alarms": {p: r for p, r in res.items() if r["rc"] == 1}, "analysis_errors": {p: r for p, r in res.items() if r["rc"] == 2}}
        # what the checks said the first time they saw this refactoring (before any of them was corrected) is kept
        meta.setdefault("first_run", {"false_alarms": sorted(meta["result"]["false_alarms"]), "analysis_errors": sorted(meta["result"]["analysis_errors"])})
        json.dump(meta, open(os.path.join(d, "meta.json"), "w"), indent=1)
        return meta["result"]
    finally:
        shutil.rmtree(root, ignore_errors=True)


def suite(bid):
    d = os.path.join(BASE, bid)
    wt = tempfile.mkdtemp(prefix=f"benignwt-{bid}-", dir="/tmp")
    os.rmdir(wt)
    try:
        sh(f"git -C /repo worktree add -q --detach {wt} HEAD")
        rc, out = sh(f"git -C {wt} apply --whitespace=nowarn {os.path.join(d, 'patch.diff')}")
        if rc:
            return "patch does not apply"
        rc, out = sh(f"PYTHONPATH={wt}/src {PY} -m pytest -q -p no:cacheprovider --timeout=900 2>&1 | tail -1", cwd=wt)
        return out.strip()
    finally:
        sh(f"git -C /repo worktree remove --force {wt}")
        shutil.rmtree(wt, ignore_errors=True)


def table():
    print("| id | property | refactoring | first run: false alarm / exit 2 | now: false alarm / exit 2 |\n|----|----------|-------------|---------------------------------|---------------------------|")
    for bid in sorted(os.listdir(BASE)):
        mp = os.path.join(BASE, bid, "meta.json")
        if not os.path.exists(mp):
            continue
        m = json.load(open(mp))
        r = m.get("result", {})
        f0 = m.get("first_run", {})
        print(f"| {bid} | {m.get('property')} | {m.get('title', '')[:90]} | {', '.join(f0.get('false_alarms', [])) or '-'} / {', '.join(f0.get('analysis_errors', [])) or '-'} | {', '.join(r.get('false_alarms', {})) or '-'} / {', '.join(r.get('analysis_errors', {})) or '-'} |")


if __name__ == "__main__":
    cmd = sys.argv[1]
    if cmd == "import":
        do_import(sys.argv[2], sys.argv[3], sys.argv[4])
    elif cmd == "run":
        ids = sorted(os.listdir(BASE)) if "--all" in sys.argv else sys.argv[2:]
        for bid in ids:
            r = run(bid)
            print(bid, "false_alarms:", list(r.get("false_alarms", {})), "analysis_errors:", list(r.get("analysis_errors", {})), r.get("error", ""))
    elif cmd == "mark-open":
        # record, per refactoring, the checks it still trips (VIOLATION or exit 2) as open brittleness; cleared when a re-run is silent
        for bid in sorted(os.listdir(BASE)):
            mp = os.path.join(BASE, bid, "meta.json")
            if not os.path.exists(mp):
                continue
            m = json.load(open(mp))
            r = m.get("result", {})
            still = sorted(set(r.get("false_alarms", {})) | set(r.get("analysis_errors", {})))
            if still:
                m["open"] = still
            else:
                m.pop("open", None)
            json.dump(m, open(mp, "w"), indent=1)
            if still:
                print(bid, "open:", still)
    elif cmd == "suite":
        for bid in sys.argv[2:]:
            print(bid, suite(bid))
    elif cmd == "table":
        table()
