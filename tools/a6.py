#!/usr/bin/env python3
"""Regenerate DESIGN.md §A.6 (table of sub-agents' changes and which checks report them) from /verif/seeded/*/meta.json."""
import json, os, subprocess
p = '/verif/DESIGN.md'
s = open(p).read()
a = s.index("### A.6 Sub-agents' changes: which checks catch which")
t0 = s.index('| id | property | change |', a)
t1 = s.index('\nNot caught', t0)
tab = subprocess.run(['/venv/bin/python', '/verif/tools/seeded.py', 'table'], capture_output=True, text=True).stdout.rstrip('\n')
tot = caught = 0
miss = []
for sid in sorted(os.listdir('/verif/seeded')):
    mp = f'/verif/seeded/{sid}/meta.json'
    if not os.path.exists(mp):
        continue
    m = json.load(open(mp)); tot += 1
    if m.get('verification', {}).get('caught_by'):
        caught += 1
    else:
        miss.append((sid, m.get('not_caught_reason', '')))
n0 = s.index('\nNot caught', t0)
n1 = s.index('\n\nObservations by the sub-agents', n0)
new_miss = f"\nNot caught ({len(miss)}), with the reason recorded in each `meta.json`:\n\n" + '\n'.join(f'* **{sid}** - {r}' for sid, r in miss)
s = s[:t0] + tab + '\n' + new_miss + s[n1:]
import re
s = re.sub(r'\*\*\d+ of \d+ are\nreported now\*\*', f'**{caught} of {tot} are\nreported now**', s)
s = re.sub(r'which checks catch which \(\d+ confirmed changes', f'which checks catch which ({tot} confirmed changes', s)
open(p, 'w').write(s)
print(tot, caught, len(miss))
