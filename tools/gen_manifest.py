#!/usr/bin/env python3
"""Regenerate /verif/MANIFEST.json from ramlint/manifest_data.py."""
import json, sys
sys.path.insert(0, "/verif")
from ramlint.manifest_data import CHECKS, NOT_APPLICABLE

PY = "/venv/bin/python -m ramlint"
man = {
    "version": 1,
    "setup_cmd": f"{PY} setup",
    "hooks": {
        "guard": "RAMSES_RF_VERIF",
        "enable": "none needed: static analysis reads /repo/src as text; no source hooks exist",
        "baseline_off_cmd": "cd /repo && /venv/bin/python -m pytest -ra -q -p no:cacheprovider --timeout=900 --continue-on-collection-errors",
        "source_commits": [],
        "add_only": True,
    },
    "engines": [
        {
            "name": "ramlint",
            "path": "ramlint/",
            "serves_properties": [c["id"] for c in CHECKS],
            "kind_free_text": "repository-specific static analysis: ast + mypy type facts + constant folding of the repo's tables + call graph + "
            "per-function CFG + exception-effect closure + typestate/pairing + regex automata; never imports or runs the repository",
        }
    ],
    "checks": [
        {
            "property_id": c["id"],
            "quick_cmd": f"{PY} check {c['id']} --tier quick",
            "thorough_cmd": f"{PY} check {c['id']} --tier thorough",
            "evidence_file": f"evidence/{c['id']}.json",
            "replay_cmd_template": f"{PY} replay {{path}}",
            "engine": "ramlint",
            "technique": c["technique"],
            "level_claimed": {"category": "other", "text": c["text"], "design_ref": f"DESIGN.md §4 {c['id']}"},
            "level_note": c["note"],
        }
        for c in CHECKS
    ],
    "not_applicable": NOT_APPLICABLE
    + [
        {"property_id": f"C{i:02d}", "reason": "check under construction in this round (see DESIGN.md §4 for the planned rules); not claimed yet"}
        for i in range(1, 21)
        if f"C{i:02d}" not in {c["id"] for c in CHECKS} | {n["property_id"] for n in NOT_APPLICABLE}
    ],
    "notes": "All checks are static (source-only). Exit 0 = every rule instance discharged (KNOWN-FINDING lines allowed); exit 1 = VIOLATION; "
    "exit 2 = ANALYSIS-ERROR (an anchor vanished / a table no longer folds): never a silent pass. See DESIGN.md.",
}
json.dump(man, open("/verif/MANIFEST.json", "w"), indent=1)
print("wrote MANIFEST.json:", len(man["checks"]), "checks")
