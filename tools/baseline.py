#!/venv/bin/python
"""Run the repository's pinned suite and compare with /root/.vp/BASELINE.json's stable_pass set."""
import json, subprocess, sys, tempfile, os, xml.etree.ElementTree as ET
base = json.load(open("/root/.vp/BASELINE.json"))
stable = set(base["stable_pass"])
with tempfile.TemporaryDirectory() as d:
    x = os.path.join(d, "j.xml")
    subprocess.run(f"cd /repo && /venv/bin/python -m pytest -ra -q -p no:cacheprovider --timeout=900 --continue-on-collection-errors --junitxml={x}", shell=True, capture_output=True)
    passed = set()
    for tc in ET.parse(x).getroot().iter("testcase"):
        if not any(c.tag in ("failure", "error", "skipped") for c in tc):
            passed.add(f"{tc.get('classname')}::{tc.get('name')}")
missing = sorted(stable - passed)
print(f"stable={len(stable)} passed={len(passed)} stable_not_passed={len(missing)}")
for m in missing[:20]:
    print("  MISSING", m)
sys.exit(1 if missing else 0)
