#!/usr/bin/env python3
"""Validate MANIFEST.json and every evidence file against the schemas (run with python3-vt, which has jsonschema)."""
import json, sys, glob, jsonschema
man = json.load(open("/verif/MANIFEST.json"))
jsonschema.validate(man, json.load(open("/root/.vp/MANIFEST.schema.json")))
print("MANIFEST ok:", len(man["checks"]), "checks,", len(man.get("not_applicable", [])), "n/a")
sch = json.load(open("/root/.vp/EVIDENCE.schema.json"))
bad = 0
for c in man["checks"]:
    try:
        ev = json.load(open("/verif/" + c["evidence_file"]))
        jsonschema.validate(ev, sch)
        cov = ev["coverage"]
        print(f"  {c['property_id']}: ok evaluations={cov.get('evaluations')} nontrivial={cov.get('distinct_nontrivial')} violations={ev.get('violations')} wall={ev['wall_s']}")
    except Exception as e:
        bad += 1
        print(f"  {c['property_id']}: INVALID {str(e)[:200]}")
sys.exit(1 if bad else 0)
