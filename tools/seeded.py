#!/venv/bin/python
"""Confirm and evaluate seeded changes kept under /verif/seeded/<id>/ (patch.diff, demo.py, meta.json).

  tools/seeded.py import <src_dir> <prefix> <id>   copy patch_<prefix>.diff / demo_<prefix>.py / meta_<prefix>.json from an agent's out dir
  tools/seeded.py verify <id> [...]                 in a scratch worktree: demo fails with the change, passes without, suite still green;
                                                    then run the property's check (and all checks with --all) against the changed tree
  tools/seeded.py table                             print the markdown table for DESIGN.md

Scratch worktrees live under /tmp and are removed afterwards. /repo itself is never modified.
"""

import json
import os
import shutil
import subprocess
import sys
import tempfile
import xml.etree.ElementTree as ET

VERIF = "/verif"
SEEDED = os.path.join(VERIF, "seeded")
PY = "/venv/bin/python"
FLAKY = ("test_flow_qos", "test_fake_evofw3", "test_known_list_bad", "test_flow_", "test_virtual_rf")


def sh(cmd: str, cwd: str | None = None, timeout: int = 1200, env: dict | None = None) -> tuple[int, str]:
    e = dict(os.environ)
    e.update(env or {})
    try:
        p = subprocess.run(cmd, shell=True, cwd=cwd, capture_output=True, text=True, timeout=timeout, env=e)
        return p.returncode, (p.stdout + p.stderr)
    except subprocess.TimeoutExpired as err:
        return 124, f"TIMEOUT after {timeout}s: {(err.stdout or b'')[-500:]!r}"


def do_import(src: str, prefix: str, sid: str) -> None:
    d = os.path.join(SEEDED, sid)
    os.makedirs(d, exist_ok=True)
    shutil.copy(os.path.join(src, f"patch_{prefix}.diff"), os.path.join(d, "patch.diff"))
    shutil.copy(os.path.join(src, f"demo_{prefix}.py"), os.path.join(d, "demo.py"))
    meta = json.load(open(os.path.join(src, f"meta_{prefix}.json")))
    meta["origin"] = "written by a sub-agent that saw only the property text and a scratch worktree"
    json.dump(meta, open(os.path.join(d, "meta.json"), "w"), indent=1)
    print("imported", sid)


def suite(wt: str) -> tuple[bool, str]:
    base = json.load(open("/root/.vp/BASELINE.json"))
    stable = set(base["stable_pass"])
    with tempfile.TemporaryDirectory() as td:
        x = os.path.join(td, "j.xml")
        sh(f"{PY} -m pytest -q -p no:cacheprovider --timeout=900 --continue-on-collection-errors --junitxml={x}", cwd=wt, timeout=1500, env={"PYTHONPATH": f"{wt}/src"})
        passed = set()
        try:
            for tc in ET.parse(x).getroot().iter("testcase"):
                if not any(c.tag in ("failure", "error", "skipped") for c in tc):
                    passed.add(f"{tc.get('classname')}::{tc.get('name')}")
        except Exception as err:  # noqa: BLE001
            return False, f"no junit: {err}"
    missing = sorted(stable - passed)
    hard = [m for m in missing if not any(f in m for f in FLAKY)]
    return (not hard), f"stable={len(stable)} passed={len(passed)} missing={missing[:4]}"


def verify(sid: str, all_checks: bool = False) -> dict:
    d = os.path.join(SEEDED, sid)
    meta = json.load(open(os.path.join(d, "meta.json")))
    prop = meta["property"]
    wt = tempfile.mkdtemp(prefix=f"seedchk-{sid}-", dir="/tmp")
    os.rmdir(wt)
    res: dict = {}
    try:
        rc, out = sh(f"git -C /repo worktree add -q --detach {wt} HEAD")
        if rc:
            raise RuntimeError(out)
        shutil.copy(os.path.join(d, "demo.py"), os.path.join(wt, "_demo.py"))
        env = {"PYTHONPATH": f"{wt}/src"}
        rc0, out0 = sh(f"timeout 120 {PY} _demo.py", cwd=wt, env=env)
        res["demo_without_change"] = {"rc": rc0, "last": out0.strip().splitlines()[-1][:200] if out0.strip() else ""}
        rc, out = sh(f"git -C {wt} apply --whitespace=nowarn {os.path.join(d, 'patch.diff')}")
        if rc:
            res["error"] = f"patch does not apply: {out[-300:]}"
            return res
        rc1, out1 = sh(f"timeout 120 {PY} _demo.py", cwd=wt, env=env)
        res["demo_with_change"] = {"rc": rc1, "last": out1.strip().splitlines()[-1][:200] if out1.strip() else ""}
        ok, summ = suite(wt)
        if not ok:  # one retry: the pty-based tests are load-sensitive
            ok, summ = suite(wt)
        res["suite_with_change"] = {"ok": ok, "summary": summ}
        props = [prop] if not all_checks else [c["property_id"] for c in json.load(open(os.path.join(VERIF, "MANIFEST.json")))["checks"]]
        caught = {}
        for p in props:
            rc, out = sh(f"{PY} -m ramlint check {p} --root {wt}", cwd=VERIF, timeout=900)
            lines = [ln.strip() for ln in out.splitlines() if ln.startswith(f"  {p}.R")]
            caught[p] = {"rc": rc, "reports": lines[:6]}
        res["checks"] = caught
        res["confirmed"] = bool(rc0 == 0 and rc1 not in (0, 124) and ok)
        res["caught_by"] = sorted({ln.split(" at ")[0] for p in caught.values() if p["rc"] == 1 for ln in p["reports"]})
    finally:
        sh(f"git -C /repo worktree remove --force {wt}")
        shutil.rmtree(wt, ignore_errors=True)
    meta["verification"] = res
    json.dump(meta, open(os.path.join(d, "meta.json"), "w"), indent=1)
    return res


def checks_only(sid: str) -> dict:
    """Apply the patch to a scratch copy of src/ and run every registered check against it."""
    d = os.path.join(SEEDED, sid)
    meta = json.load(open(os.path.join(d, "meta.json")))
    root = tempfile.mkdtemp(prefix=f"seedsrc-{sid}-", dir="/tmp")
    try:
        shutil.copytree("/repo/src", os.path.join(root, "src"), ignore=shutil.ignore_patterns("__pycache__", "*.egg-info"))
        rc, out = sh(f"patch -p1 -s -d {root} < {os.path.join(d, 'patch.diff')}")
        if rc:
            return {"error": out[-300:]}
        props = [c["property_id"] for c in json.load(open(os.path.join(VERIF, "MANIFEST.json")))["checks"]]
        caught = {}

        def one(p: str):
            rc, out = sh(f"{PY} -m ramlint check {p} --root {root}", cwd=VERIF, timeout=900)
            return p, rc, [ln.strip() for ln in out.splitlines() if ln.startswith(f"  {p}.R")][:4], [ln for ln in out.splitlines() if ln.startswith("ANALYSIS-ERROR")][:2]

        from concurrent.futures import ThreadPoolExecutor

        # build the type facts once, then fan out
        sh(f"{PY} -m ramlint check C02 --root {root}", cwd=VERIF, timeout=900)
        with ThreadPoolExecutor(max_workers=8) as ex:
            for p, rc, lines, errs in ex.map(one, props):
                if rc != 0:
                    caught[p] = {"rc": rc, "reports": lines or errs}
        v = meta.setdefault("verification", {})
        v["all_checks"] = caught
        v["caught_by"] = sorted({ln.split(" at ")[0] for c in caught.values() if c["rc"] == 1 for ln in c["reports"]})
        v["analysis_errors"] = sorted(p for p, c in caught.items() if c["rc"] == 2)
        json.dump(meta, open(os.path.join(d, "meta.json"), "w"), indent=1)
        return v
    finally:
        shutil.rmtree(root, ignore_errors=True)


def table() -> None:
    rows = []
    for sid in sorted(os.listdir(SEEDED)):
        mp = os.path.join(SEEDED, sid, "meta.json")
        if not os.path.exists(mp):
            continue
        m = json.load(open(mp))
        v = m.get("verification", {})
        caught = ", ".join(v.get("caught_by", [])) or m.get("not_caught_reason", "—")
        rows.append(f"| {sid} | {m['property']} | {m.get('title', '')[:70]} | {m.get('needs_to_manifest', '')[:80]} | {'yes' if v.get('confirmed') else 'NO'} | {caught} |")
    print("| id | property | change | needs | confirmed | caught by |\n|----|----------|--------|-------|-----------|-----------|")
    print("\n".join(rows))


if __name__ == "__main__":
    cmd = sys.argv[1]
    if cmd == "import":
        do_import(sys.argv[2], sys.argv[3], sys.argv[4])
    elif cmd == "verify":
        allc = "--all" in sys.argv
        for sid in [a for a in sys.argv[2:] if not a.startswith("--")]:
            r = verify(sid, allc)
            print(sid, json.dumps({k: r.get(k) for k in ("confirmed", "caught_by", "demo_with_change", "demo_without_change", "suite_with_change", "error")}, indent=None)[:600])
    elif cmd == "checks":
        for sid in sys.argv[2:]:
            v = checks_only(sid)
            print(sid, "caught_by:", v.get("caught_by"), "analysis_errors:", v.get("analysis_errors"), v.get("error", ""))
    elif cmd == "table":
        table()
