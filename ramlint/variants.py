"""Seeded variants (self-test, thorough tier): one-instance edits of /repo/src on a scratch copy; each must still parse and be
reported by the named rule, while the clean tree stays silent. Scratch copies live under a mkdtemp outside /repo and /verif and
are removed on exit."""

from __future__ import annotations

import ast
import json
import os
import shutil
import subprocess
import sys
import tempfile
import time
from concurrent.futures import ThreadPoolExecutor
from dataclasses import dataclass

from . import REPO, VERIF


@dataclass
class Variant:
    vid: str
    prop: str
    rule: str  # e.g. "R1" - the rule expected to report it
    file: str  # relative to the repo root
    old: str
    new: str
    desc: str
    count: int = 1  # occurrences of `old` expected (all are replaced)
    patch: str = ""  # path of a unified diff to apply instead of the old/new replacement (sub-agents' changes, /verif/seeded)


V = Variant
VARIANTS: list[Variant] = [
    # ---- C01
    V("C01-a", "C01", "R1", "src/ramses_tx/packet.py", "        except AssertionError as err:  # e.g. an array that is not from a controller\n            raise exc.PacketInvalid(f\"Bad packet: {err}\") from err\n", "        except RecursionError as err:\n            raise exc.PacketInvalid(f\"Bad packet: {err}\") from err\n", "reversal of the F1 fix: the array self-checks' AssertionError leaves Packet()"),
    V("C01-b", "C01", "R1", "src/ramses_tx/message.py", "            ArithmeticError,  # e.g. OverflowError from dtm +/- td(payload-derived)\n", "", "reversal of the F2 fix: ArithmeticError not mapped to PacketInvalid"),
    V("C01-c", "C01", "R2", "src/ramses_tx/transport.py", "        except ValueError as err:  # VE from dt.fromisoformat() or falsey packet\n            _LOGGER.debug(\"%s < PacketInvalid(%s)\", frame, err)\n            return\n", "        except KeyError as err:\n            _LOGGER.debug(\"%s < PacketInvalid(%s)\", frame, err)\n            return\n", "_frame_read no longer fences ValueError (undatable/empty line)"),
    V("C01-d", "C01", "R4", "src/ramses_tx/transport.py", "                lines = self._recv_buffer.split(b\"\\r\\n\")\n                self._recv_buffer = lines[-1]\n", "                lines = self._recv_buffer.split(b\"\\r\\n\")\n                self._recv_buffer = b\"\"\n", "the unterminated tail of a serial read is dropped instead of carried"),
    V("C01-e", "C01", "R2", "src/ramses_tx/protocol.py", "        except exc.PacketInvalid:  # TODO: InvalidMessageError (packet is valid)\n            return\n", "        except exc.PacketPayloadInvalid:\n            return\n", "_pkt_received fences only the payload subclass of PacketInvalid"),
    V("C01-h", "C01", "R3", "src/ramses_tx/logger.py", "        try:\n            ct = dtm_now().timestamp()\n        except (OverflowError, ValueError, OSError):  # e.g. last pkt dated 0001-01-01\n            return record  # keep the wall-clock time: logging must not raise\n", "        ct = dtm_now().timestamp()\n", "reversal of the F36 fix: the log-record time source raises for a packet dated near datetime.min"),
    # ---- C02
    V("C02-a", "C02", "R1", "src/ramses_tx/frame.py", "if len(self._frame[46:].split(\" \")[0]) != int(self._frame[42:45]) * 2:", "if len(self._frame[47:].split(\" \")[0]) != int(self._frame[42:45]) * 2 - 1:", "payload column off by one in Frame._validate"),
    V("C02-b", "C02", "R2", "src/ramses_tx/transport.py", "self._frame_read(dtm_pkt_line[:26], dtm_pkt_line[27:])", "self._frame_read(dtm_pkt_line[:23], dtm_pkt_line[27:])", "log replayer reads a 23-char timestamp"),
    V("C02-c", "C02", "R3", "src/ramses_tx/command.py", "                f\"{int(len(payload) / 2):03d}\",\n", "                f\"{int(len(payload) / 2):02d}\",\n", "len field formatted with 2 digits"),
    # ---- C03
    V("C03-a", "C03", "R1", "src/ramses_tx/command.py", "        return cls.from_attrs(RQ, ctl_id, Code._2309, _check_idx(zone_idx))", "        return cls.from_attrs(W_, ctl_id, Code._2309, _check_idx(zone_idx))", "reversal of the F3 fix"),
    V("C03-b", "C03", "R3", "src/ramses_tx/command.py", "        return cls.from_attrs(RQ, ctl_id, Code._0006, \"00\")", "        return cls.from_attrs(RQ, ctl_id, Code._0006, \"0000\")", "get_schedule_version emits a 2-byte payload the decoder's RQ|0006 regex rejects"),
    V("C03-c", "C03", "R3", "src/ramses_tx/command.py", "        if not 0 <= log_idx <= 0x3F:  # the fault log has 64 entries\n            raise exc.CommandInvalid(f\"Invalid value for log_idx: {log_idx}\")\n", "", "reversal of the F23 fix"),
    V("C03-d", "C03", "R2", "src/ramses_tx/command.py", "        if frag_num == 0:\n            raise exc.CommandInvalid(f\"frag_num={frag_num}, but it is 1-indexed\")", "        if 0 > frag_num > 0:\n            raise exc.CommandInvalid(f\"frag_num={frag_num}, but it is 1-indexed\")", "an unsatisfiable guard in set_schedule_fragment"),
    # ---- C04
    V("C04-a", "C04", "R1", "src/ramses_tx/helpers.py", "    temp = round(value * 100)  # not int(): truncates, e.g. 0.29 * 100 -> 28", "    temp = int(value * 100)", "reversal of the F5 fix in hex_from_temp"),
    V("C04-b", "C04", "R5", "src/ramses_tx/helpers.py", "    if not -(2**15) <= temp < 2**15:  # would otherwise wrap into a different (valid) temp\n        raise ValueError(f\"Invalid temp: {value} is out of range\")\n", "", "reversal of the F6 fix in hex_from_temp"),
    V("C04-c", "C04", "R2", "src/ramses_tx/helpers.py", "    if value is False:\n        return \"7EFF\"", "    if value is False:\n        return \"7FFE\"", "hex_from_temp encodes False with a sentinel the decoder does not know"),
    V("C04-d", "C04", "R3", "src/ramses_tx/helpers.py", "            tm_hour << 19,", "            tm_hour << 18,", "hex_from_dts shifts the hour by 18, hex_to_dts reads it at 19"),
    # ---- C05
    V("C05-a", "C05", "R3", "src/ramses_tx/parsers.py", "        return [_parser(payload[i : i + 6]) for i in range(0, len(payload), 6)]", "        return [_parser(payload[i : i + 6]) for i in range(0, len(payload), 8)]", "parser_0009 array stride 8 instead of 6"),
    V("C05-b", "C05", "R4", "src/ramses_tx/helpers.py", "    assert bypass_pos <= 1.0, value\n", "", "bypass position ratio no longer bounded"),
    V("C05-c", "C05", "R2", "src/ramses_tx/parsers.py", "    seconds = int(payload[2:6], 16) / 10\n    next_sync = msg.dtm + td(seconds=seconds)", "    seconds = int(payload[2:6], 16) / 10\n    next_sync = dt.now() + td(seconds=seconds)", "parser_1f09 reads the wall clock"),
    # ---- C06
    V("C06-a", "C06", "R1", "src/ramses_tx/frame.py", "        header = \"|\".join((pkt.code, pkt.verb, pkt.dst.id))", "        header = \"|\".join((pkt.code, pkt.verb))", "tx header of RQ/W without the device id"),
    V("C06-b", "C06", "R3", "src/ramses_tx/protocol_fsm.py", "        if pkt__hdr != self._sent_cmd.tx_header:\n            return", "        if not self._sent_cmd.tx_header.startswith(pkt__hdr[:12]):\n            return", "echo matched on a header prefix"),
    # ---- C07
    V("C07-a", "C07", "R1", "src/ramses_tx/protocol_fsm.py", "        timeout = min(  # needs to be greater than worse-case via set_state engine\n            qos.timeout, self.SEND_TIMEOUT_LIMIT\n        )  # incl. time queued in buffer", "        timeout = qos.timeout  # incl. time queued in buffer", "caller's timeout no longer capped at 20 s"),
    V("C07-b", "C07", "R2", "src/ramses_tx/protocol_fsm.py", "            raise exc.ProtocolSendFailed(msg) from err  # make msg *before* state reset", "            raise TimeoutError(msg) from err  # make msg *before* state reset", "the global timeout leaves send_cmd as a bare TimeoutError"),
    V("C07-c", "C07", "R4", "src/ramses_tx/protocol_fsm.py", "                self._cmd = self._qos = self._fut = None\n                self._lock.release()\n                return", "                self._fut = None\n                self._lock.release()\n                return", "_fut reset without _cmd/_qos"),
    # ---- C08
    V("C08-a", "C08", "R1", "src/ramses_tx/protocol_fsm.py", "            if self._cmd_tx_count < self._cmd_tx_limit:", "            if self._cmd_tx_count <= self._cmd_tx_limit:", "one transmission more than the budget"),
    V("C08-b", "C08", "R5", "src/ramses_tx/protocol_fsm.py", "                (priority, dt.now(), next(self._que_seq), cmd, qos, fut)", "                (priority, dt.now(), cmd, qos, fut)", "reversal of the F18 fix (tie-break removed)"),
    V("C08-c", "C08", "R3", "src/ramses_tx/protocol_fsm.py", "            self._multiplier = min(3, old_val + 1)", "            self._multiplier = old_val + 1", "back-off exponent unbounded"),
    # ---- C09
    V("C09-a", "C09", "R3", "src/ramses_tx/protocol_fsm.py", "        try:  # the FSM needs these to match the echo/reply, so dont queue the cmd without\n            _ = cmd.tx_header, cmd.rx_header\n        except exc.PacketInvalid as err:  # e.g. an inconsistent payload idx\n            raise exc.ProtocolSendFailed(f\"{self}: Send failed: {err}\") from err\n\n", "", "reversal of the F21 fix: header first read inside the loop callback"),
    V("C09-b", "C09", "R3", "src/ramses_tx/protocol_fsm.py", "        try:\n            self._state.pkt_rcvd(pkt)\n        except exc.PacketInvalid as err:  # cannot be an expected echo/reply\n            _LOGGER.debug(\"%s < %s(%s)\", pkt, err.__class__.__name__, err)", "        self._state.pkt_rcvd(pkt)", "reversal of the F19 fix"),
    V("C09-c", "C09", "R4", "src/ramses_tx/protocol_fsm.py", "        if self._fut is not None and not self._fut.done():\n            self._lock.release()\n            return", "        if self._fut is not None and not self._fut.done():\n            return", "lock not released on the early return"),
    V("C09-d", "C09", "R1", "src/ramses_tx/protocol_fsm.py", "        elif self._fut.cancelled():  # by send_cmd(qos.timeout)", "        elif False:  # by send_cmd(qos.timeout)", "cancelled() no longer tested before set_exception/set_result"),
    # ---- C10
    V("C10-a", "C10", "R3", "src/ramses_tx/protocol.py", "            if dev_id in self._exclude:  # problems if incl. active gateway\n                return False\n\n            if dev_id == self._active_hgi:  # is active gwy\n                continue  # consider: return True (but what if corrupted dst.id?)\n", "            if dev_id == self._active_hgi:  # is active gwy\n                continue  # consider: return True (but what if corrupted dst.id?)\n\n            if dev_id in self._exclude:  # problems if incl. active gateway\n                return False\n", "gateway exemption tested before the block list"),
    V("C10-b", "C10", "R1", "src/ramses_tx/protocol.py", "        if not self._is_wanted_addrs(cmd.src.id, cmd.dst.id, sending=True):", "        if not self._is_wanted_addrs(cmd.src.id, cmd.src.id, sending=True):", "send gate examines the source twice (destination unchecked)"),
    V("C10-c", "C10", "R4", "src/ramses_tx/protocol.py", "            if sending and dev_id == HGI_DEV_ADDR.id:\n                continue", "            if dev_id == HGI_DEV_ADDR.id:\n                continue", "placeholder id exempt on receive too"),
    # ---- C11
    V("C11-a", "C11", "R3", "src/ramses_tx/transport.py", "            try:\n                await fnc(self, frame, *args, **kwargs)\n            finally:\n                bits_in_bucket -= rf_frame_size", "            await fnc(self, frame, *args, **kwargs)\n            bits_in_bucket -= rf_frame_size", "a failed write is not debited"),
    V("C11-b", "C11", "R1", "src/ramses_tx/transport.py", "    @limit_duty_cycle(MAX_DUTY_CYCLE_RATE)\n    @avoid_system_syncs\n    async def write_frame", "    @avoid_system_syncs\n    async def write_frame", "duty-cycle limiter removed from PortTransport.write_frame"),
    V("C11-c", "C11", "R2", "src/ramses_tx/const.py", "MAX_DUTY_CYCLE_RATE = 0.01  #    % bandwidth used per cycle", "MAX_DUTY_CYCLE_RATE = 1.01  #    % bandwidth used per cycle", "rate out of (0,1] selects the null wrapper"),
    # ---- C12
    V("C12-a", "C12", "R1", "src/ramses_rf/system/heat.py", "            f\"01{DEV_ROLE_MAP.HTG}\",  # heating_valve\n        ):\n            cmd = Command.from_attrs(RQ, self.ctl.id, Code._000C, payload)", "        ):\n            cmd = Command.from_attrs(RQ, self.ctl.id, Code._000C, payload)", "heating valve no longer probed by the system"),
    V("C12-b", "C12", "R3", "src/ramses_rf/entity_base.py", "                task[_SZ_FAILURES] += 1\n                task[_SZ_LAST_PKT] = None\n                task[_SZ_NEXT_DUE] = dt_now + backoff(hdr, task[_SZ_FAILURES])", "                task[_SZ_FAILURES] += 1\n                task[_SZ_LAST_PKT] = None", "next-due not re-armed after a failed send"),
    # ---- C13
    V("C13-a", "C13", "R2", "src/ramses_tx/message.py", "            if not lifespan:  # e.g. 1F09 with a countdown of zero (can't divide by it)\n                return self.HAS_EXPIRED if age >= lifespan else 0.0\n", "", "reversal of the F8 fix"),
    V("C13-b", "C13", "R1", "src/ramses_rf/gateway.py", "        finally:  # always resume, incl. if the above raises\n            self._resume()", "        except KeyError:\n            raise\n        else:\n            self._resume()", "reversal of the F7 fix in get_state (resume only on success)"),
    V("C13-c", "C13", "R4", "src/ramses_rf/dispatcher.py", "    except (AttributeError, LookupError, TypeError, ValueError) as err:\n        _LOGGER.exception(\"%s < %s(%s)\", msg._pkt, err.__class__.__name__, err)", "    except (AttributeError, TypeError, ValueError) as err:\n        _LOGGER.exception(\"%s < %s(%s)\", msg._pkt, err.__class__.__name__, err)", "process_msg no longer fences LookupError"),
    # ---- C14
    V("C14-a", "C14", "R2", "src/ramses_tx/message.py", "    HAS_EXPIRED = 2.0  # fraction_expired >= HAS_EXPIRED", "    HAS_EXPIRED = 0.9  # fraction_expired >= HAS_EXPIRED", "messages expire before their lifetime has passed"),
    V("C14-b", "C14", "R3", "src/ramses_tx/packet.py", "    if pkt.code == Code._0006:\n        return _TD_MINS_060", "    if pkt.code == Code._0006:\n        return None", "pkt_lifespan returns None for 0006"),
    # ---- C15
    V("C15-a", "C15", "R1", "src/ramses_rf/entity_base.py", "            if self.sensor and self.sensor is not child:\n                raise exc.SystemSchemaInconsistent(\n                    f\"{self} changed zone sensor (from {self.sensor} to {child})\"\n                )\n            self._sensor = child", "            self._sensor = child", "a zone's sensor can be silently replaced"),
    V("C15-b", "C15", "R2", "src/ramses_rf/system/zones.py", "            SZ_DHW_VALVE: self.hotwater_valve.id if self.hotwater_valve else None,", "            \"dhw_valve_id\": self.hotwater_valve.id if self.hotwater_valve else None,", "DhwZone.schema produces a key the validator rejects"),
    # ---- C16
    V("C16-a", "C16", "R1", "src/ramses_rf/gateway.py", "            if msg.verb in (W_, RQ):\n                return False", "            if msg.verb in (W_,):\n                return False", "requests admitted to the snapshot"),
    V("C16-b", "C16", "R3", "src/ramses_rf/gateway.py", "                exclude_list=self._exclude,\n                include_list=self._include,\n            )\n\n            tmp_transport", "                include_list=self._include,\n            )\n\n            tmp_transport", "restore ignores the block list"),
    # ---- C17
    V("C17-a", "C17", "R1", "src/ramses_rf/system/schedule.py", "    return struct.pack(\"<xxxxBxxxBxxxHxxHxx\", idx, dow, tod, val)", "    return struct.pack(\"<xxxxBxxxBxxHxxxHxx\", idx, dow, tod, val)", "time-of-day packed one byte early"),
    V("C17-b", "C17", "R3", "src/ramses_rf/system/schedule.py", "    return [blob[i : i + 82] for i in range(0, len(blob), 82)]", "    return [blob[i : i + 84] for i in range(0, len(blob), 84)]", "fragments longer than the decoder's bound"),
    # ---- C18
    V("C18-a", "C18", "R1", "src/ramses_rf/system/schedule.py", "        finally:  # incl. if a fragment RQ fails, or the caller's timeout cancels this\n            self.tcs._release_lock()", "        except KeyError:\n            raise\n        else:\n            self.tcs._release_lock()", "reversal of the F10 fix (release only on success)"),
    V("C18-b", "C18", "R2", "src/ramses_rf/system/schedule.py", "        self._payload_set: _PayloadSetT = list(EMPTY_PAYLOAD_SET)  # Rx'd, not shared", "        self._payload_set: _PayloadSetT = EMPTY_PAYLOAD_SET  # Rx'd", "reversal of the F11 fix"),
    V("C18-c", "C18", "R4", "src/ramses_rf/system/schedule.py", "        if msg.payload[SZ_TOTAL_FRAGS] != 0xFF and self.tcs.zone_lock_idx != self.idx:", "        if msg.payload[SZ_TOTAL_FRAGS] != 0xFF:", "overheard fragments merged regardless of the lock"),
    # ---- C19
    V("C19-a", "C19", "R1", "src/ramses_rf/system/faultlog.py", "        if dtm not in self._log:\n            self._log |= {dtm: entry}  # must add entry before _insert_into_map()\n        self._map = self._insert_into_map(idx, dtm)  # updates self._map\n", "        self._map = self._insert_into_map(idx, dtm)  # updates self._map\n        if dtm not in self._log:\n            self._log |= {dtm: entry}\n", "the entry is added to the log after the map is rebuilt and the log filtered... (install before add)"),
    V("C19-b", "C19", "R1", "src/ramses_rf/system/faultlog.py", "        if dtm is None:  # there are no subsequent log entries\n            return new_map\n\n        new_map |= {idx: dtm}\n", "        new_map |= {idx: dtm}\n\n        if dtm is None:  # there are no subsequent log entries\n            return new_map\n", "a null entry's None timestamp is placed in the map"),
    V("C19-c", "C19", "R1", "src/ramses_rf/system/faultlog.py", "        self._log = {k: v for k, v in self._log.items() if k in self._map.values()}\n\n        # if idx != 0:", "        self._log = {k: v for k, v in self._log.items() if k in self._map.values() and k <= dtm}\n\n        # if idx != 0:", "the log is pruned of entries newer than the one just seen, although the map keeps them"),
    V("C19-d", "C19", "R2", "src/ramses_rf/system/faultlog.py", "            self._log |= {dtm: entry}  # must add entry before _insert_into_map()", "            self._log |= {dtm: self._log.get(self._map.get(idx), entry)}  # keep what we had", "an entry is stored under another entry's timestamp"),
    V("C19-e", "C19", "R3", "src/ramses_rf/system/faultlog.py", "        if msg.verb == RP and msg.payload[SZ_LOG_ENTRY] is None:", "        if msg.verb == RP and msg.payload[SZ_LOG_ENTRY] is None and SZ_LOG_IDX not in msg.payload:", "an RP null entry carrying idx 00 is processed"),
    V("C19-f", "C19", "R3", "src/ramses_rf/system/faultlog.py", "        if self._map.get(idx) == dtm:\n            return  # i.e. No evidence anything has changed\n", "        if self._map.get(idx):\n            return  # i.e. we already have this position\n", "a position that is already known is never updated (a new entry at idx 0 is dropped)"),
    V("C19-g", "C19", "R4", "src/ramses_rf/system/faultlog.py", "            pkt = await self._gwy.async_send_cmd(cmd, wait_for_reply=True)", "            pkt = await self._gwy.async_send_cmd(cmd)", "fault-log requests no longer wait for the reply"),
    V("C19-h", "C19", "R4", "src/ramses_rf/system/faultlog.py", "                self._process_msg(msg)  # since pkt via dispatcher aint got idx\n                break\n", "                self._process_msg(msg)  # since pkt via dispatcher aint got idx\n", "the retrieval loop carries on after the null entry"),
    V("C19-i", "C19", "R6", "src/ramses_rf/system/faultlog.py", "        pkt._frame = pkt._frame[:50] + idx + pkt._frame[52:]", "        pkt._frame = pkt._frame[:48] + idx + pkt._frame[50:]", "the index is written two columns early in the frame"),
    V("C19-j", "C19", "R5", "src/ramses_rf/system/faultlog.py", "        if not faults:\n            return None\n\n        return self._log[max(faults)]", "        return self._log[max(faults)]", "latest_fault takes max() of a possibly empty list"),
    # ---- C20
    V("C20-a", "C20", "R1", "src/ramses_rf/binding_fsm.py", "            await asyncio.wait_for(asyncio.shield(self._fut), timeout)", "            await asyncio.wait_for(self._fut, timeout)", "reversal of the F12 fix (shield removed)"),
    V("C20-b", "C20", "R1", "src/ramses_rf/binding_fsm.py", "        if self._fut.done():  # e.g. a duplicate pkt (devices Tx each pkt x3)\n            return\n        if self.is_phase(msg._pkt, self._expected_pkt_phase):\n            self._fut.set_result(msg)\n\n\nclass _DevIsReadyToSendCmd", "        if self.is_phase(msg._pkt, self._expected_pkt_phase):\n            self._fut.set_result(msg)\n\n\nclass _DevIsReadyToSendCmd", "reversal of the F13 fix in _DevIsWaitingForMsg.rcvd_msg"),
    V("C20-c", "C20", "R2", "src/ramses_rf/binding_fsm.py", "    _next_ctx_state: type[BindStateBase] = SuppIsReadyToSendConfirm\n", "    _next_ctx_state: type[BindStateBase] = SuppSendOfferWaitForAccept\n", "supplicant success chain loops back into a binding state"),
    # ---- rules added in the third session (each is the reversal of a fix or a one-instance break of the new rule)
    V("C01-f", "C01", "R1", "src/ramses_tx/address.py", "            addrs[2] not in (NON_DEV_ADDR, ALL_DEV_ADDR)\n            and addrs[0] == NON_DEV_ADDR\n            and addrs[1] == NON_DEV_ADDR\n", "            addrs[0] == NON_DEV_ADDR\n            and addrs[1] == NON_DEV_ADDR\n", "an all-blank address set passes the strict check: device_addrs[0] raises IndexError"),
    V("C02-d", "C02", "R1", "src/ramses_tx/command.py", "        payload = parts.pop()[:96]  # 48 bytes, as hex", "        payload = parts.pop()[:48]", "reversal of the F28 fix"),
    V("C02-e", "C02", "R5", "src/ramses_tx/logger.py", "        if hasattr(rv, \"_dtm\"):  # extra is a Packet's __dict__: its timestamp is _dtm\n            try:\n                ct = rv._dtm.timestamp()", "        if hasattr(rv, \"dtm\"):\n            try:\n                ct = rv.dtm.timestamp()", "reversal of the F27 fix"),
    V("C02-f", "C02", "R5", "src/ramses_tx/logger.py", "        extra = dict(extra or {})  # work with a copy\n", "        extra = extra or {}\n", "makeRecord pops _frame from the packet's own __dict__"),
    V("C02-g", "C02", "R3", "src/ramses_tx/command.py", "        if seqn is None or seqn in (\"\", \"-\", \"--\", \"---\"):", "        if not seqn or seqn in (\"-\", \"--\", \"---\"):", "integer seqn 0 printed as ---"),
    V("C03-e", "C03", "R3", "src/ramses_tx/command.py", "{overrun:02X}", "{overrun:02d}", "a payload octet formatted in decimal"),
    V("C04-e", "C04", "R3", "src/ramses_tx/helpers.py", "    if is_dst:\n        dtm_str = f\"{int(dtm_str[:2], 16) | 0x80:02X}\" + dtm_str[2:]\n    return dtm_str if incl_seconds else dtm_str[2:]", "    if not incl_seconds:\n        dtm_str = dtm_str[2:]\n    if is_dst:\n        dtm_str = f\"{int(dtm_str[:2], 16) | 0x80:02X}\" + dtm_str[2:]\n    return dtm_str", "DST flag or-ed into the minutes octet when the seconds are dropped first"),
    V("C06-c", "C06", "R4", "src/ramses_tx/frame.py", "            self._ctx_ = self._idx + self.payload[10:12]", "            self._ctx_ = self.payload[:2] + self.payload[10:12]", "0404 context without the DHW/zone discriminator"),
    V("C08-d", "C08", "R3", "src/ramses_tx/protocol_fsm.py", "            self._multiplier = min(3, old_val + 1)", "            self._multiplier = min(3, self._multiplier + 1)", "the increment cancels the optimistic decrement: waits stop doubling"),
    V("C10-d", "C10", "R7", "src/ramses_rf/gateway.py", "        finally:  # always resume, incl. if the above raises/is cancelled\n", "        finally:  # always resume, incl. if the above raises/is cancelled\n            self._enforce_known_list = bool(self._enforce_known_list)\n", "the gateway's enforcement flag is written outside the constructor"),
    V("C11-d", "C11", "R6", "src/ramses_tx/transport.py", "        elapsed, self._timestamp = timestamp - self._timestamp, timestamp\n", "        elapsed = timestamp - self._timestamp\n", "the MQTT refill stamp is never advanced"),
    V("C12-d", "C12", "R5", "src/ramses_rf/system/zones.py", "            _LOGGER.debug(\"Promoted a Zone: %s (%s)\", self.id, self.__class__)\n\n            self._setup_discovery_cmds()\n", "            _LOGGER.debug(\"Promoted a Zone: %s (%s)\", self.id, self.__class__)\n", "zone promotion no longer rebuilds the probe table"),
    V("C13-d", "C13", "R2", "src/ramses_rf/entity_base.py", "        if (domain_id or zone_idx) and msg_dict.get(idx) != val:\n            return None  # the (latest) msg is for another domain/zone: value is unknown\n", "        assert (not domain_id and not zone_idx) or (\n            msg_dict.get(idx) == val\n        ), f\"{msg_dict} < Coding error: key={idx}, val={val}\"\n", "reversal of the F29 fix"),
    V("C13-f", "C13", "R5", "src/ramses_rf/device/heat.py", "            if isinstance(msg.payload, list):  # the circuit setpoints (not a single dict)\n                self._setpoints = msg\n", "            self._setpoints = msg\n", "reversal of the F32 fix"),
    V("C13-g", "C13", "R5", "src/ramses_rf/system/heat.py", "            k: v.payload.get(\"heat_demand\")  # may be a fault, i.e. heat_demand_fault\n", "            k: v.payload[\"heat_demand\"]\n", "reversal of the F31 fix"),
    V("C13-e", "C13", "R4", "src/ramses_rf/dispatcher.py", "        and this.src == prev.src\n", "        and this.src.type == prev.src.type\n", "array fragments merged across devices of the same type"),
    V("C14-c", "C14", "R7", "src/ramses_rf/system/heat.py", "            for k, v in self._heat_demands.items()\n            if not v._expired\n", "            for k, v in self._heat_demands.items()\n", "reversal of the F26 fix in System.heat_demands"),
    V("C14-d", "C14", "R5", "src/ramses_rf/entity_base.py", "            msg = max(msgs) if msgs else None", "            msg = msgs[0] if msgs else None", "first-found instead of newest among several codes"),
    V("C14-e", "C14", "R6", "src/ramses_tx/message.py", "        if self.code == Code._1F09 and self.verb != RQ:  # sync_cycle is a special case", "        if self.code == Code._1F09 and self.verb == I_:  # sync_cycle is a special case", "RP/W 1F09 fall through to 'cannot expire'"),
    V("C14-f", "C14", "R4", "src/ramses_rf/entity_base.py", "            self._msgz_[msg.code][msg.verb][msg._pkt._ctx] = msg", "            self._msgz_[msg.code][msg.verb][msg._pkt._idx] = msg", "per-context store keyed by the index only"),
    V("C15-c", "C15", "R1", "src/ramses_rf/entity_base.py", "        parent._add_child(self, child_id=child_id, is_sensor=is_sensor)\n        # parent.childs.append(self)\n        # parent.child_by_id[self.id] = self\n\n        self._child_id = child_id\n        self._parent = parent\n", "        self._child_id = child_id\n        self._parent = parent\n\n        parent._add_child(self, child_id=child_id, is_sensor=is_sensor)\n", "the child records the bond before the parent accepts it"),
    V("C17-c", "C17", "R5", "src/ramses_rf/system/schedule.py", "        payload_set[payload[SZ_FRAG_NUMBER] - 1] = payload\n        if None in payload_set or self._proc_payload_set(", "        if payload_set[payload[SZ_FRAG_NUMBER] - 1] is not None:\n            return payload_set\n        payload_set[payload[SZ_FRAG_NUMBER] - 1] = payload\n        if None in payload_set or self._proc_payload_set(", "a repeated fragment is discarded in favour of the old copy"),
    V("C18-d", "C18", "R3", "src/ramses_rf/system/schedule.py", "        if did_io or self._global_ver > self._sched_ver:", "        if did_io or self._global_ver >= self._sched_ver:", "force_io answered from the cached change counter"),
    V("C20-d", "C20", "R5", "src/ramses_rf/binding_fsm.py", "            return cmd.verb == W_ and cmd.dst is not cmd.src", "            return cmd.verb == I_ and cmd.dst is not cmd.src", "ACCEPT phase test overlaps TENDER/AFFIRM"),
]


def seeded_variants() -> list[Variant]:
    """The sub-agents' confirmed changes (/verif/seeded/<id>/patch.diff) as regression variants: one per (change, check that
    reports it), expecting the first rule of that check recorded in meta.json."""
    out: list[Variant] = []
    base = os.path.join(VERIF, "seeded")
    if not os.path.isdir(base):
        return out
    for sid in sorted(os.listdir(base)):
        mp = os.path.join(base, sid, "meta.json")
        pp = os.path.join(base, sid, "patch.diff")
        if not (os.path.exists(mp) and os.path.exists(pp)):
            continue
        try:
            with open(mp) as fh:
                meta = json.load(fh)
        except Exception:
            continue
        caught = [c for c in meta.get("verification", {}).get("caught_by", []) if "@" not in c]
        by_prop: dict[str, str] = {}
        for c in caught:
            prop, _, rule = c.partition(".")
            by_prop.setdefault(prop, rule)
        for prop, rule in sorted(by_prop.items()):
            out.append(Variant(f"{sid}>{prop}", prop, rule, "", "", "", (meta.get("title") or sid)[:90], patch=pp))
    return out


def benign_variants() -> list[Variant]:
    """Behaviour-preserving refactorings written by sub-agents (/verif/benign/<id>/patch.diff): *must-stay-silent* variants. One per
    (refactoring, check it once tripped or is aimed at); the expected 'rule' is the pseudo-rule "silent"."""
    out: list[Variant] = []
    base = os.path.join(VERIF, "benign")
    if not os.path.isdir(base):
        return out
    for bid in sorted(os.listdir(base)):
        mp = os.path.join(base, bid, "meta.json")
        pp = os.path.join(base, bid, "patch.diff")
        if not (os.path.exists(mp) and os.path.exists(pp)):
            continue
        try:
            with open(mp) as fh:
                meta = json.load(fh)
        except Exception:
            continue
        first = meta.get("first_run", {})
        props = {meta.get("property")} | set(first.get("false_alarms", [])) | set(first.get("analysis_errors", []))
        # a refactoring that still trips a check is recorded as *open* brittleness (DESIGN A.7) for exactly those checks: it is not a
        # must-stay-silent variant of them until the anchor concerned has been re-stated (the other checks stay armed on it)
        still_open = set(meta.get("open", []))
        for prop in sorted(p for p in props if p and p not in still_open):
            out.append(Variant(f"{bid}~{prop}", prop, "silent", "", "", "", (meta.get("title") or bid)[:90], patch=pp))
    return out


def _apply(root: str, v: Variant) -> str | None:
    if v.patch:
        proc = subprocess.run(f"patch -p1 -s -d {root} < {v.patch}", shell=True, capture_output=True, text=True)
        if proc.returncode:
            return f"stale patch (does not apply to the current tree): {(proc.stdout + proc.stderr)[-120:]}"
        return None
    p = os.path.join(root, v.file)
    with open(p, encoding="utf-8") as fh:
        s = fh.read()
    n = s.count(v.old)
    if n != v.count:
        return f"anchor text occurs {n}x (expected {v.count})"
    s2 = s.replace(v.old, v.new)
    try:
        ast.parse(s2)
    except SyntaxError as err:
        return f"variant does not parse: {err}"
    with open(p, "w", encoding="utf-8") as fh:
        fh.write(s2)
    return None


def _run_one(v: Variant, base: str) -> dict:
    root = os.path.join(base, v.vid.replace(">", "_"))
    os.makedirs(root)
    shutil.copytree(os.path.join(REPO, "src"), os.path.join(root, "src"), ignore=shutil.ignore_patterns("__pycache__", "*.egg-info"))
    t0 = time.time()
    err = _apply(root, v)
    if err:
        shutil.rmtree(root, ignore_errors=True)
        return {"variant": v.vid, "property": v.prop, "expect": f"{v.prop}.{v.rule}", "status": "stale-patch" if v.patch else "not-applicable", "detail": err, "desc": v.desc}
    proc = subprocess.run([sys.executable, "-m", "ramlint", "check", v.prop, "--root", root], cwd=VERIF, capture_output=True, text=True, timeout=900)
    out = proc.stdout
    hit_rules = sorted({ln.split(" at ")[0].strip().split(".")[-1] for ln in out.splitlines() if ln.startswith(f"  {v.prop}.R")})
    ok = proc.returncode == 1 and v.rule in hit_rules
    first = next((ln.strip() for ln in out.splitlines() if ln.startswith(f"  {v.prop}.{v.rule}")), "")
    shutil.rmtree(root, ignore_errors=True)
    if v.rule == "silent":  # a behaviour-preserving refactoring: any report is the checker's fault
        ok = proc.returncode == 0
        return {
            "variant": v.vid,
            "property": v.prop,
            "expect": f"{v.prop}: silent",
            "status": "silent" if ok else ("FALSE-ALARM" if proc.returncode == 1 else "analysis-error"),
            "rules_fired": hit_rules,
            "rc": proc.returncode,
            "report": next((ln.strip() for ln in out.splitlines() if ln.startswith(f"  {v.prop}.R") or ln.startswith("ANALYSIS-ERROR")), "")[:240],
            "desc": v.desc,
            "wall_s": round(time.time() - t0, 1),
            "tail": "" if ok else out[-600:],
        }
    return {
        "variant": v.vid,
        "property": v.prop,
        "expect": f"{v.prop}.{v.rule}",
        "status": "detected" if ok else ("other-rule" if proc.returncode == 1 else ("analysis-error" if proc.returncode == 2 else "MISSED")),
        "rules_fired": hit_rules,
        "rc": proc.returncode,
        "report": first[:240],
        "desc": v.desc,
        "wall_s": round(time.time() - t0, 1),
        "tail": "" if ok else out[-600:],
    }


def run(props: list[str], jobs: int = 16, attach_evidence: bool = False) -> int:
    sel = [v for v in VARIANTS + seeded_variants() + benign_variants() if not props or v.prop in props]
    if not sel:
        print("[ramlint] selftest: no variants selected")
        return 0
    base = tempfile.mkdtemp(prefix="ramlint-variants-")
    results = []
    try:
        with ThreadPoolExecutor(max_workers=max(1, min(jobs, len(sel)))) as ex:
            for r in ex.map(lambda v: _run_one(v, base), sel):
                results.append(r)
                print(f"[selftest] {r['variant']:10s} {r['status']:15s} expect {r['expect']:7s} fired {','.join(r.get('rules_fired', []))} :: {r['desc'][:70]}")
    finally:
        shutil.rmtree(base, ignore_errors=True)
        # drop the type-fact caches of the variants (keep the one for the real tree)
    bad = [r for r in results if r["status"] in ("MISSED", "analysis-error", "not-applicable", "FALSE-ALARM")]
    weak = [r for r in results if r["status"] == "other-rule"]
    n_ben = sum(r["expect"].endswith(": silent") for r in results)
    print(f"[selftest] {len(results) - n_ben} faulty variants: {sum(r['status'] == 'detected' for r in results)} detected by the named rule, {len(weak)} by another rule; {n_ben} behaviour-preserving variants: {sum(r['status'] == 'silent' for r in results)} silent; {len(bad)} missed/broken/false alarms")
    for r in bad:
        print(f"[selftest] PROBLEM {r['variant']}: {r['status']} {r.get('detail', '')} {r.get('tail', '')[-300:]}")
    if attach_evidence:
        for prop in sorted({r["property"] for r in results}):
            path = os.path.join(VERIF, "evidence", f"{prop}.json")
            if os.path.exists(path):
                with open(path) as fh:
                    ev = json.load(fh)
                mine = [{k: v for k, v in r.items() if k != "tail"} for r in results if r["property"] == prop]
                ev["tier"] = "thorough"
                ev["coverage"]["selftest_variants"] = mine
                ev["coverage"]["selftest_summary"] = {"faulty_variants": sum(not m["expect"].endswith(": silent") for m in mine), "detected": sum(m["status"] in ("detected", "other-rule") for m in mine), "behaviour_preserving_variants": sum(m["expect"].endswith(": silent") for m in mine), "silent": sum(m["status"] == "silent" for m in mine)}
                with open(path, "w") as fh:
                    json.dump(ev, fh, indent=1, default=str)
    # a missed variant means the rule is weaker than claimed: that is a failure of the self-test, not of the property
    return 2 if bad else 0
