"""E6 - exception-effect analysis: which exception classes can propagate out of a function.

Least fixed point over the call graph. Sources: explicit raise; assert (by policy);
calls (callee summaries, an external-raiser table); an implicit-raiser table (division,
datetime arithmetic, dict subscripts with a computed key, ...). Filters: try/except
(subclass-aware), contextlib.suppress, re-raise.

Not modelled (stated in every evidence file): TypeError/AttributeError from ill-typed
values, MemoryError, RecursionError, IndexError from str/bytes indexing (list/tuple indexing is
modelled under Policy.count_index, see seqlen.py), OSError,
KeyboardInterrupt/SystemExit, CancelledError (handled as cancellation edges by the CFG).
"""

from __future__ import annotations

import ast
import builtins
from dataclasses import dataclass
from typing import Any, Callable

from .callgraph import CallGraph, CallSite
from .loader import FuncInfo, Repo, own_nodes

TABLE_VERSION = "2026-09-30.1"

# ---- class hierarchy of non-repo exception classes (python's own, by introspection) ----

_STD: dict[str, type] = {}


def _std_class(name: str) -> type | None:
    if name in _STD:
        return _STD[name]
    cls: type | None = None
    mod, _, attr = name.rpartition(".")
    try:
        if mod in ("builtins", ""):
            cls = getattr(builtins, attr, None)
        elif mod in ("asyncio", "asyncio.exceptions", "queue", "struct", "zlib", "json", "json.decoder", "re", "concurrent.futures", "concurrent.futures._base"):
            import importlib

            cls = getattr(importlib.import_module(mod), attr, None)
    except Exception:
        cls = None
    if not (isinstance(cls, type) and issubclass(cls, BaseException)):
        cls = None
    _STD[name] = cls  # type: ignore[assignment]
    return cls


# third-party exception classes: declared parents (from their documentation)
THIRD_PARTY_PARENTS = {
    "serial.serialutil.SerialException": "builtins.OSError",
    "serial.SerialException": "builtins.OSError",
    "voluptuous.error.Invalid": "builtins.Exception",
    "voluptuous.error.MultipleInvalid": "voluptuous.error.Invalid",
    "voluptuous.Invalid": "builtins.Exception",
    "paho.mqtt.MQTTException": "builtins.Exception",
}

ALIASES = {
    "_queue.Empty": "queue.Empty",
    "_queue.Full": "queue.Full",
    "asyncio.TimeoutError": "builtins.TimeoutError",
    "asyncio.exceptions.TimeoutError": "builtins.TimeoutError",
    "asyncio.InvalidStateError": "asyncio.exceptions.InvalidStateError",
    "asyncio.CancelledError": "asyncio.exceptions.CancelledError",
    "json.JSONDecodeError": "json.decoder.JSONDecodeError",
    "serial.SerialException": "serial.serialutil.SerialException",
    "voluptuous.Invalid": "voluptuous.error.Invalid",
    "voluptuous.MultipleInvalid": "voluptuous.error.MultipleInvalid",
    "vol.Invalid": "voluptuous.error.Invalid",
    "re.error": "re.error",
    "EnvironmentError": "builtins.OSError",
    "IOError": "builtins.OSError",
}


class Hierarchy:
    def __init__(self, repo: Repo) -> None:
        self.repo = repo

    def norm(self, name: str) -> str:
        name = ALIASES.get(name, name)
        if "." not in name and hasattr(builtins, name):
            return "builtins." + name
        return self.repo.canonical(name)

    def parents(self, name: str) -> list[str]:
        name = self.norm(name)
        ci = self.repo.classes.get(name)
        if ci is not None:
            out = list(ci.bases)
            for e in ci.ext_bases:
                out.append(self.norm(e))
            return out
        if name in THIRD_PARTY_PARENTS:
            return [THIRD_PARTY_PARENTS[name]]
        c = _std_class(name)
        if c is not None:
            return [self.norm(f"{b.__module__}.{b.__qualname__}") for b in c.__bases__ if b is not object]
        if name == "builtins.BaseException":
            return []
        return ["builtins.Exception"]  # unknown class: assume an ordinary Exception

    def is_sub(self, a: str, b: str) -> bool:
        a, b = self.norm(a), self.norm(b)
        seen = set()
        todo = [a]
        while todo:
            x = todo.pop()
            if x == b:
                return True
            if x in seen:
                continue
            seen.add(x)
            todo.extend(self.parents(x))
        return False

    def short(self, name: str) -> str:
        return name.rsplit(".", 1)[-1]


# ---- external raiser table (trusted base; printed in evidence) ---------------------------

VE, OE, KE = "builtins.ValueError", "builtins.OverflowError", "builtins.KeyError"
EXT_RAISES: dict[str, tuple[str, ...]] = {
    "builtins.bytes.fromhex": (VE,),
    "builtins.bytearray.fromhex": (VE,),
    "builtins.bytes.decode": ("builtins.UnicodeDecodeError",),
    "builtins.bytearray.decode": ("builtins.UnicodeDecodeError",),
    "builtins.str.encode": ("builtins.UnicodeEncodeError",),
    "builtins.str.index": (VE,),
    "builtins.list.index": (VE,),
    "builtins.list.remove": (VE,),
    "builtins.list.pop": ("builtins.IndexError",),
    "collections.deque.popleft": ("builtins.IndexError",),
    "collections.deque.pop": ("builtins.IndexError",),
    "builtins.dict.popitem": (KE,),
    "builtins.set.remove": (KE,),
    "builtins.set.pop": (KE,),
    "datetime.datetime.fromisoformat": (VE,),
    "datetime.date.fromisoformat": (VE,),
    "datetime.datetime.strptime": (VE,),
    "datetime.datetime.replace": (VE,),
    "datetime.datetime": (VE,),
    "datetime.date": (VE,),
    "datetime.time": (VE,),
    "datetime.timedelta": (OE,),
    "datetime.datetime.astimezone": (OE,),
    "struct.unpack": ("struct.error",),
    "struct.unpack_from": ("struct.error",),
    "struct.pack": ("struct.error",),
    "zlib.decompress": ("zlib.error",),
    "zlib.compress": ("zlib.error",),

    "queue.Queue.put_nowait": ("queue.Full",),
    "queue.PriorityQueue.put_nowait": ("queue.Full",),
    "queue.Queue.get_nowait": ("queue.Empty",),
    "queue.PriorityQueue.get_nowait": ("queue.Empty",),
    "asyncio.queues.Queue.put_nowait": ("asyncio.queues.QueueFull",),
    "asyncio.queues.PriorityQueue.put_nowait": ("asyncio.queues.QueueFull",),
    "asyncio.queues.LifoQueue.put_nowait": ("asyncio.queues.QueueFull",),
    "asyncio.queues.Queue.get_nowait": ("asyncio.queues.QueueEmpty",),
    "asyncio.queues.PriorityQueue.get_nowait": ("asyncio.queues.QueueEmpty",),
    "asyncio.queues.LifoQueue.get_nowait": ("asyncio.queues.QueueEmpty",),
    "asyncio.tasks.wait_for": ("builtins.TimeoutError",),
    "asyncio.wait_for": ("builtins.TimeoutError",),
    "asyncio.timeouts.timeout": ("builtins.TimeoutError",),
    "asyncio.locks.BoundedSemaphore.release": (VE,),
    "serial.serialposix.Serial.read": ("serial.serialutil.SerialException",),
    "serial.serialposix.Serial.write": ("serial.serialutil.SerialException",),
    "re.compile": ("re.error",),
    "voluptuous.schema_builder.Schema.__call__": ("voluptuous.error.Invalid",),
    "operator.index": (),
}
# calls whose raising depends on the argument: handled in ExcAnalysis._external
ARG_DEPENDENT = {"json.loads", "datetime.datetime.fromtimestamp", "builtins.int", "builtins.float", "builtins.next", "builtins.max", "builtins.min", "builtins.dict.pop", "builtins.divmod", "re.sub", "re.match", "re.search"}

FUTURE_RESULT = {"asyncio.futures.Future.result", "asyncio.Future.result", "_asyncio.Future.result", "asyncio.futures.Future.exception"}
FUTURE_SET = {
    "asyncio.futures.Future.set_result",
    "asyncio.futures.Future.set_exception",
    "_asyncio.Future.set_result",
    "_asyncio.Future.set_exception",
}


@dataclass
class Origin:
    kind: str  # raise | assert | implicit | ext | call
    func: FuncInfo
    node: ast.AST
    detail: str = ""
    via: FuncInfo | None = None  # for kind == call
    via_esc: Any = None  # call-site specialised summary of `via` (constant-argument branch pruning)

    def where(self) -> str:
        return f"{self.func.module.rel}:{getattr(self.node, 'lineno', '?')}"


class Esc(dict):
    """class -> first Origin (dict view) plus every distinct origin per class (.lists)."""

    CAP = 64

    def __init__(self, src: "dict[str, Origin] | None" = None) -> None:
        super().__init__()
        self.lists: dict[str, list[Origin]] = {}
        if src:
            self.merge(src)

    def add(self, k: str, v: "Origin") -> None:
        if k not in self:
            dict.__setitem__(self, k, v)
        lst = self.lists.setdefault(k, [])
        if len(lst) < self.CAP and not any(o.kind == v.kind and o.node is v.node and o.via is v.via and o.func is v.func for o in lst):
            lst.append(v)

    def setdefault(self, k: str, v: "Origin") -> "Origin":  # type: ignore[override]
        self.add(k, v)
        return self[k]

    def __setitem__(self, k: str, v: "Origin") -> None:
        self.add(k, v)

    def __delitem__(self, k: str) -> None:
        dict.__delitem__(self, k)
        self.lists.pop(k, None)

    def all(self, k: str) -> "list[Origin]":
        return self.lists.get(k, [self[k]] if k in self else [])

    def xfer(self, k: str, src: "dict[str, Origin]", src_k: str | None = None) -> None:
        sk = src_k or k
        for o in src.all(sk) if isinstance(src, Esc) else [src[sk]]:
            self.add(k, o)

    def merge(self, src: "dict[str, Origin]") -> None:
        for k in src:
            self.xfer(k, src)

    def drop(self, k: str, pred: "Callable[[Origin], bool]") -> None:
        keep = [o for o in self.all(k) if not pred(o)]
        dict.__delitem__(self, k)
        self.lists.pop(k, None)
        for o in keep:
            self.add(k, o)


@dataclass
class Policy:
    """What counts as a raise source (per rule)."""

    count_assert: str = "input"  # none | input | all
    count_keyerror: bool = True
    count_index: bool = False  # list/tuple[<int>] -> IndexError unless a length bound is proven (seqlen.py)
    count_div: bool = True
    count_dt_overflow: bool = True
    count_invalid_state: bool = False  # Future.set_* -> InvalidStateError (typestate rule decides it)
    count_dt_edge: bool = True  # datetime +/- a small bounded interval (overflows only within that interval of datetime.min/max)
    implicit_only_tainted: bool = False  # implicit/arg-dependent raisers count only on operands derived from received text
    name: str = "default"
    # discharge(func, node, class) -> reason: a source proven infeasible by another rule (listed in evidence)
    discharge: "Callable[[FuncInfo, ast.AST, str, str], str | None] | None" = None
    # safe_site(func, site) -> reason: a call/property site proven non-raising by a flow fact (memo initialised earlier, under a fence)
    safe_site: "Callable[[FuncInfo, Any], str | None] | None" = None
    # nonzero(func, expr) -> True when a divisor is a table constant proven non-zero
    nonzero: "Callable[[FuncInfo, ast.expr], bool] | None" = None


INPUT_TYPES = {
    "ramses_tx.frame.Frame",
    "ramses_tx.packet.Packet",
    "ramses_tx.message.MessageBase",
    "ramses_tx.message.Message",
    "ramses_tx.address.Address",
}
INPUT_PARAM_NAMES = {"payload", "frame", "pkt_line", "raw_payload", "dtm_str", "raw_line", "dtm_pkt_line"}


RECEIVE_MODULES = ("ramses_tx.parsers", "ramses_tx.opentherm", "ramses_tx.message", "ramses_tx.packet", "ramses_tx.frame", "ramses_tx.address", "ramses_tx.helpers")


def _is_receive_scope(fn: FuncInfo) -> bool:
    """Where a parameter named payload/frame/pkt_line... is received text (not an outbound frame being written)."""
    if fn.module.name in RECEIVE_MODULES:
        return True
    top = fn
    while top.parent is not None:
        top = top.parent
    return any(k in top.name for k in ("read", "_on_message", "_normalise", "_str", "_partition"))


class ExcAnalysis:
    def __init__(self, repo: Repo, cg: CallGraph, policy: Policy | None = None, consts: "Any" = None) -> None:
        self.repo = repo
        self.cg = cg
        self.consts = consts
        self.h = Hierarchy(repo)
        self.policy = policy or Policy()
        self.summary: dict[FuncInfo, Esc] = {f: Esc() for f in repo.funcs.values()}
        self.raised_at: dict[int, dict[str, Origin]] = {}  # id(stmt) -> classes raised by that stmt (unfiltered)
        self.asserts_counted: list[tuple[FuncInfo, ast.Assert]] = []
        self.asserts_skipped: list[tuple[FuncInfo, ast.Assert]] = []
        self._future_exc_cache: dict[str, dict[str, Origin]] = {}
        self.discharged: dict[tuple[str, str, int], str] = {}
        owner = getattr(self.policy.discharge, "__self__", None)
        if owner is not None:
            owner.ea = self  # oracles may use the analysis' bound evaluators
        self._solve()

    # -- public -----------------------------------------------------------------------

    def may_raise(self, f: FuncInfo) -> dict[str, Origin]:
        return self.summary[f]

    def chain(self, f: FuncInfo, cls: str, limit: int = 12) -> list[str]:
        """A readable path from f to the raise site of cls."""
        out = []
        cur: FuncInfo | None = f
        seen = set()
        while cur is not None and len(out) < limit:
            o = self.summary[cur].get(cls)
            if o is None:
                # subclass match
                for k, v in self.summary[cur].items():
                    if self.h.is_sub(k, cls):
                        o = v
                        cls = k
                        break
            if o is None or (cur, cls) in seen:
                break
            seen.add((cur, cls))
            txt = " ".join(ast.unparse(o.node).split())[:100] if o.node is not None else ""
            out.append(f"{cur.short} @{o.where()} [{o.kind}{(' ' + o.detail) if o.detail else ''}] {txt}")
            cur = o.via if o.kind == "call" else None
        return out

    def raises_of(self, f: FuncInfo, node: ast.AST) -> dict[str, Origin]:
        """Classes a simple statement / header expression of f may raise (before handler filtering)."""
        if isinstance(node, ast.stmt):
            return self.raised_at.get(id(node), Esc())
        self._f, self._record, self._final = f, False, False
        self._tainted = self._taint_cache.get(f, set())
        return self._expr(node)  # type: ignore[arg-type]

    def roots(self, f: FuncInfo, cls: str, limit: int = 400) -> list[tuple[Origin, list[FuncInfo]]]:
        """Every distinct local source of `cls` (exact class) that can escape f, with one call path to it."""
        out: list[tuple[Origin, list[FuncInfo]]] = []
        esc_of: dict[FuncInfo, Esc] = {}
        seen_f: set[FuncInfo] = set()
        seen_o: set[tuple[int, str]] = set()
        todo: list[tuple[FuncInfo, list[FuncInfo]]] = [(f, [f])]
        while todo and len(out) < limit:
            g, path = todo.pop(0)
            if g in seen_f:
                continue
            seen_f.add(g)
            src = esc_of.get(g, self.summary[g])
            for o in src.all(cls):
                if o.kind == "call" and o.via is not None:
                    if o.via not in seen_f:
                        if o.via_esc is not None:
                            esc_of.setdefault(o.via, o.via_esc)
                        todo.append((o.via, path + [o.via]))
                else:
                    k = (id(o.node), o.kind)
                    if k not in seen_o:
                        seen_o.add(k)
                        out.append((o, path))
        return out

    def root_origin(self, f: FuncInfo, cls: str) -> Origin | None:
        cur: FuncInfo | None = f
        o = None
        seen = set()
        while cur is not None and cur not in seen:
            seen.add(cur)
            o2 = self.summary[cur].get(cls)
            if o2 is None:
                break
            o = o2
            cur = o.via if o.kind == "call" else None
        return o

    # -- solving ----------------------------------------------------------------------

    def _compute_prunable(self) -> None:
        """Callees with a top-level `if <param> ==/is/!= <const>` (or bare `if <param>`) branch."""
        self._prunable: dict[FuncInfo, set[str]] = {}
        for g in self.repo.funcs.values():
            params = {a.arg for a in g.node.args.posonlyargs + g.node.args.args + g.node.args.kwonlyargs} - {"self", "cls"}
            if not params:
                continue
            hit: set[str] = set()
            for st in ast.walk(g.node):
                if isinstance(st, ast.If):
                    for n in ast.walk(st.test):
                        if isinstance(n, ast.Name) and n.id in params:
                            hit.add(n.id)
            if hit:
                self._prunable[g] = hit

    def _bindings(self, site: CallSite, c: FuncInfo) -> dict[str, Any]:
        from .consteval import TOP

        call = site.node
        assert isinstance(call, ast.Call)
        pos = [a.arg for a in c.node.args.posonlyargs + c.node.args.args]
        if pos and pos[0] in ("self", "cls") and (isinstance(call.func, ast.Attribute) or site.kind == "construct"):
            pos = pos[1:]
        want = self._prunable[c]
        out: dict[str, Any] = {}
        pairs: list[tuple[str, ast.expr]] = []
        for p, a in zip(pos, call.args):
            if isinstance(a, ast.Starred):
                break
            pairs.append((p, a))
        for k in call.keywords:
            if k.arg:
                pairs.append((k.arg, k.value))
        given = {p for p, _ in pairs}
        for p, a in pairs:
            if p not in want:
                continue
            if isinstance(a, ast.Constant):
                out[p] = a.value
                continue
            try:
                v = self.consts.eval_in(site.caller, a)
            except Exception:
                continue
            if v is not TOP and isinstance(v, (str, int, float, bool, type(None))):
                out[p] = v
        # parameters left at their (constant) defaults
        args = c.node.args
        defaults = dict(zip([a.arg for a in (args.posonlyargs + args.args)][-len(args.defaults):] if args.defaults else [], args.defaults))
        defaults.update({a.arg: d for a, d in zip(args.kwonlyargs, args.kw_defaults) if d is not None})
        if not any(isinstance(a, ast.Starred) for a in call.args) and not any(k.arg is None for k in call.keywords):
            for p, d in defaults.items():
                if p in want and p not in given and p not in out and isinstance(d, ast.Constant):
                    out[p] = d.value
        return out

    def _specialised(self, c: FuncInfo, bind: dict[str, Any]) -> "Esc":
        saved = (self._f, self._record, self._final, self._tainted, getattr(self, "_bind", None))
        if getattr(self, "_spec_depth", 0) > 2:
            return self.summary[c]
        self._spec_depth = getattr(self, "_spec_depth", 0) + 1
        try:
            self._f, self._record, self._final = c, False, False
            self._tainted = self._taint_cache.get(c) or (self._taint(c) if (self.policy.count_assert == "input" or self.policy.implicit_only_tainted) else set())
            self._bind = bind
            res = self._block(c.node.body, caught=None)
        finally:
            self._f, self._record, self._final, self._tainted, self._bind = saved
            self._spec_depth -= 1
        return res

    def _fold_test(self, t: ast.expr) -> bool | None:
        """Truth of a branch test under the constant parameter bindings (None = unknown)."""
        from .consteval import TOP

        bind = getattr(self, "_bind", None)
        if not bind:
            return None
        if isinstance(t, ast.Name) and t.id in bind:
            return bool(bind[t.id])
        if isinstance(t, ast.UnaryOp) and isinstance(t.op, ast.Not):
            v = self._fold_test(t.operand)
            return None if v is None else not v
        if isinstance(t, ast.BoolOp):
            vals = [self._fold_test(v) for v in t.values]
            if isinstance(t.op, ast.And):
                if any(v is False for v in vals):
                    return False
                return True if all(v is True for v in vals) else None
            if any(v is True for v in vals):
                return True
            return False if all(v is False for v in vals) else None
        if isinstance(t, ast.Compare) and len(t.ops) == 1:
            l, r = t.left, t.comparators[0]
            if isinstance(r, ast.Name) and r.id in bind and not (isinstance(l, ast.Name) and l.id in bind):
                l, r = r, l
                if isinstance(t.ops[0], (ast.In, ast.NotIn)):
                    return None
            if isinstance(l, ast.Name) and l.id in bind:
                try:
                    rv = self.consts.eval_in(self._f, r)
                except Exception:
                    return None
                if rv is TOP:
                    return None
                lv = bind[l.id]
                op = t.ops[0]
                try:
                    if isinstance(op, ast.Eq):
                        return lv == rv
                    if isinstance(op, ast.NotEq):
                        return lv != rv
                    if isinstance(op, ast.Is):
                        return lv is rv if rv is None or isinstance(rv, bool) else None
                    if isinstance(op, ast.IsNot):
                        return lv is not rv if rv is None or isinstance(rv, bool) else None
                    if isinstance(op, ast.In):
                        return lv in rv
                    if isinstance(op, ast.NotIn):
                        return lv not in rv
                except TypeError:
                    return None
        return None

    def _solve(self) -> None:
        from collections import deque

        self._compute_prunable()
        self._bind = None

        funcs = list(self.repo.funcs.values())
        work = deque(funcs)
        inwork = set(funcs)
        self._taint_cache: dict[FuncInfo, set[str]] = {}
        recorded: set[FuncInfo] = set()
        steps = 0
        while work:
            f = work.popleft()
            inwork.discard(f)
            steps += 1
            if steps > 200 * len(funcs):
                raise RuntimeError("exception analysis did not converge")
            new = self._analyse(f, record=f not in recorded)
            recorded.add(f)
            old = self.summary[f]
            if set(new) - set(old):
                old.merge(new)
                for site in self.cg.callers_of(f):
                    if site.caller not in inwork:
                        inwork.add(site.caller)
                        work.append(site.caller)
        # final pass to record per-statement raise sets with final summaries
        self.raised_at.clear()
        for f in funcs:
            self.summary[f] = Esc(self._analyse(f, record=False, final=True))
        self.rounds = steps

    def _analyse(self, f: FuncInfo, record: bool, final: bool = False) -> dict[str, Origin]:
        self._f = f
        self._record = record
        self._final = final
        if self.policy.count_assert == "input" or self.policy.implicit_only_tainted:
            if f not in self._taint_cache:
                self._taint_cache[f] = self._taint(f)
            self._tainted = self._taint_cache[f]
        else:
            self._tainted = set()
        return self._block(f.node.body, caught=None)

    # statements ------------------------------------------------------------------------

    def _block(self, body: list[ast.stmt], caught: dict[str, Origin] | None) -> dict[str, Origin]:
        out = Esc()
        for st in body:
            out.merge(self._stmt(st, caught))
        return out

    def _stmt(self, st: ast.stmt, caught: dict[str, Origin] | None) -> dict[str, Origin]:
        f = self._f
        if isinstance(st, (ast.FunctionDef, ast.AsyncFunctionDef, ast.ClassDef)):
            out = Esc()
            for d in st.decorator_list:
                self._merge(out, self._expr(d))
            return self._note(st, out)
        if isinstance(st, ast.Try):
            body = self._block(st.body, caught)
            escaped = Esc()
            handler_out = Esc()
            per_handler: list[tuple[ast.ExceptHandler, Esc]] = [(h, Esc()) for h in st.handlers]
            for cls in body:
                definitely = False
                for h, got in per_handler:
                    for hc in self._handler_classes(h):
                        if self.h.is_sub(cls, hc):
                            got.xfer(cls, body)
                            definitely = True
                            break
                        if self.h.is_sub(hc, cls):  # handler narrower than the (imprecise) source
                            got.xfer(hc, body, cls)
                    if definitely:
                        break
                if not definitely:
                    escaped.xfer(cls, body)
            for h, got in per_handler:
                # a handler body is analysed even if nothing we model reaches it (fail-safe for explicit raises)
                # a handler body is analysed even if nothing we model reaches it; a re-raise of
                # the (unmodelled) caught exception is then vacuous and dropped
                res = self._block(h.body, caught=got if got else Esc({c: Origin("placeholder", f, h, "handler") for c in self._handler_classes(h)}))
                for k in list(res):
                    if any(o.kind == "placeholder" for o in res.all(k)):
                        res.drop(k, lambda o: o.kind == "placeholder")
                self._merge(handler_out, res)
            self._merge(escaped, handler_out)
            self._merge(escaped, self._block(st.orelse, caught))
            self._merge(escaped, self._block(st.finalbody, caught))
            return escaped
        if isinstance(st, (ast.With, ast.AsyncWith)):
            sup: list[str] = []
            out = Esc()
            for item in st.items:
                ce = item.context_expr
                if isinstance(ce, ast.Call) and _callee_name(ce) in ("suppress", "contextlib.suppress"):
                    for a in ce.args:
                        sup.extend(self._class_names(a))
                else:
                    self._merge(out, self._expr(ce))
            body = self._block(st.body, caught)
            for cls in body:
                if not any(self.h.is_sub(cls, s) for s in sup):
                    out.xfer(cls, body)
            return self._note(st, out, header_only=True)
        if isinstance(st, ast.If):
            out = self._expr(st.test)
            out = self._note(st, out, header_only=True)  # type: ignore[assignment]
            taken = self._fold_test(st.test) if getattr(self, "_bind", None) else None
            if taken is not False:
                self._merge(out, self._block(st.body, caught))
            if taken is not True:
                self._merge(out, self._block(st.orelse, caught))
            return out
        if isinstance(st, (ast.For, ast.AsyncFor)):
            out = self._expr(st.iter)
            out = self._note(st, out, header_only=True)  # type: ignore[assignment]
            self._merge(out, self._block(st.body, caught))
            self._merge(out, self._block(st.orelse, caught))
            return out
        if isinstance(st, ast.While):
            out = self._expr(st.test)
            out = self._note(st, out, header_only=True)  # type: ignore[assignment]
            self._merge(out, self._block(st.body, caught))
            self._merge(out, self._block(st.orelse, caught))
            return out
        if isinstance(st, ast.Raise):
            out = Esc()
            if st.exc is None:
                if caught:
                    out.merge(caught)  # carries the original origins
                if caught is None:
                    out["builtins.RuntimeError"] = Origin("raise", f, st)
            else:
                bound = self._bound_by_handler(st.exc)
                if bound is not None and caught is not None:
                    out.merge(caught)
                else:
                    for n in self._raised_classes(st.exc, caught):
                        out.setdefault(n, Origin("raise", f, st, self.h.short(n)))
                if isinstance(st.exc, ast.Call):
                    for a in list(st.exc.args) + [k.value for k in st.exc.keywords]:
                        self._merge(out, self._expr(a))
            return self._note(st, out)
        if isinstance(st, ast.Assert):
            out = Esc()
            if self._assert_counts(st):
                out["builtins.AssertionError"] = Origin("assert", f, st)
                if self._record:
                    self.asserts_counted.append((f, st))
                # evaluating the test/message may raise too
                self._merge(out, self._expr(st.test))
                if st.msg is not None:
                    self._merge(out, self._expr(st.msg))
            else:
                if self._record:
                    self.asserts_skipped.append((f, st))
                self._merge(out, self._expr(st.test))
            return self._note(st, out)
        if isinstance(st, ast.Match):
            out = self._expr(st.subject)
            for c in st.cases:
                self._merge(out, self._block(c.body, caught))
            return out
        # simple statement
        out = Esc()
        for child in ast.iter_child_nodes(st):
            if isinstance(child, ast.expr):
                self._merge(out, self._expr(child))
        if isinstance(st, ast.Delete):
            for t in st.targets:
                if isinstance(t, ast.Subscript):
                    self._merge(out, self._subscript(t, load=True))
        return self._note(st, out)

    def _note(self, st: ast.stmt, out: dict[str, Origin], header_only: bool = False) -> dict[str, Origin]:
        if self.policy.discharge is not None and out:
            for k in list(out):
                def dead(o: Origin, k: str = k) -> bool:
                    if o.kind in ("raise", "assert", "implicit", "ext") and o.func is self._f:
                        why = self.policy.discharge(self._f, o.node, k, o.detail)  # type: ignore[misc]
                        if why:
                            self.discharged.setdefault((self._f.qualname, k, getattr(o.node, "lineno", 0)), why)
                            return True
                    return False

                if any(dead(o) for o in out.all(k)):
                    out.drop(k, dead)
        if self._final:
            self.raised_at.setdefault(id(st), Esc()).merge(out)
        return out

    @staticmethod
    def _merge(dst: dict[str, Origin], src: dict[str, Origin]) -> None:
        dst.merge(src)  # type: ignore[attr-defined]

    # expressions -----------------------------------------------------------------------

    def _expr(self, e: ast.expr) -> dict[str, Origin]:
        out = Esc()
        f = self._f
        nodes = [e] + [n for n in own_nodes(e)]
        for n in nodes:
            site = self.cg.site_of.get(id(n))
            if site is not None and site.caller is f:
                self._merge(out, self._site(site))
            if isinstance(n, ast.BinOp):
                self._merge(out, self._binop(n))
            elif isinstance(n, ast.Subscript) and isinstance(n.ctx, ast.Load):
                self._merge(out, self._subscript(n))
                if self._is_json_any(n.value):
                    for c in ("builtins.TypeError", KE, "builtins.IndexError"):
                        out.setdefault(c, Origin("implicit", f, n, "<any JSON value>[...]: the document need not be an object"))
            elif isinstance(n, ast.Attribute) and isinstance(n.ctx, ast.Load) and self._is_json_any(n.value):
                out.setdefault("builtins.AttributeError", Origin("implicit", f, n, f"<any JSON value>.{n.attr}: json.loads() may return None/a number/a string/a list"))
            elif isinstance(n, ast.Await):
                self._merge(out, self._await(n))
        return out

    def _is_json_any(self, e: ast.expr) -> bool:
        """A local whose single definition is json.loads(...): any JSON value, unless an isinstance() test on it encloses the use."""
        if not isinstance(e, ast.Name):
            return False
        d = self._local_def(e.id)
        if not (isinstance(d, ast.Call) and norm_txt(d.func) in ("json.loads", "loads", "json.load")):
            return False
        p = getattr(e, "parent", None)
        child: ast.AST = e
        while p is not None and not isinstance(p, (ast.FunctionDef, ast.AsyncFunctionDef)):
            if isinstance(p, ast.If) and child in p.body and any(isinstance(c, ast.Call) and norm_txt(c.func) == "isinstance" and c.args and norm_txt(c.args[0]) == e.id for c in ast.walk(p.test)):
                return False
            for fld in ("body", "orelse"):
                blk = getattr(p, fld, None)
                if isinstance(blk, list) and child in blk:
                    for st in blk[: blk.index(child)]:
                        if isinstance(st, ast.If) and st.body and isinstance(st.body[-1], (ast.Return, ast.Raise, ast.Continue)) and any(isinstance(c, ast.Call) and norm_txt(c.func) == "isinstance" and c.args and norm_txt(c.args[0]) == e.id for c in ast.walk(st.test)):
                            return False
            child, p = p, getattr(p, "parent", None)
        if isinstance(p, (ast.FunctionDef, ast.AsyncFunctionDef)) and child in p.body:
            for st in p.body[: p.body.index(child)]:
                if isinstance(st, ast.If) and st.body and isinstance(st.body[-1], (ast.Return, ast.Raise)) and any(isinstance(c, ast.Call) and norm_txt(c.func) == "isinstance" and c.args and norm_txt(c.args[0]) == e.id for c in ast.walk(st.test)):
                    return False
        return True

    def _site(self, site: CallSite) -> dict[str, Origin]:
        out = Esc()
        f = self._f
        if site.kind == "deferred":
            return out
        if self.policy.safe_site is not None:
            why = self.policy.safe_site(f, site)
            if why:
                self.discharged.setdefault((f.qualname, "site:" + site.text[:40], site.line), why)
                return out
        for c in site.callees:
            if c.is_async and not site.awaited:
                continue
            if _is_generator(c):
                # body runs on iteration; approximated as raising at the call site
                pass
            summ = self.summary[c]
            spec = None
            if isinstance(site.node, ast.Call) and self.consts is not None and c in self._prunable:
                b = self._bindings(site, c)
                if b:
                    spec = self._specialised(c, b)
                    summ = spec
            for cls in summ:
                out.add(cls, Origin("call", f, site.node, c.short, via=c, via_esc=spec))
        if isinstance(site.node, ast.Call):
            for ext in site.external:
                self._merge(out, self._external(ext, site.node))
            if site.unresolved and isinstance(site.node.func, ast.Name) and site.node.func.id.startswith("SCH_"):
                out.setdefault("voluptuous.error.Invalid", Origin("ext", f, site.node, "voluptuous schema call"))
        return out

    def _external(self, ext: str, call: ast.Call) -> dict[str, Origin]:
        f = self._f
        out = Esc()
        ext = {"_asyncio.Future.result": "asyncio.futures.Future.result"}.get(ext, ext)

        def add(cls: str, why: str = "") -> None:
            out.setdefault(self.h.norm(cls), Origin("ext", f, call, why or ext))

        if self.policy.implicit_only_tainted and (ext in ARG_DEPENDENT or ext.startswith("datetime.") or ext.startswith("builtins.")):
            if not any(self._expr_tainted(a, self._tainted) for a in list(call.args) + [k.value for k in call.keywords] + ([call.func.value] if isinstance(call.func, ast.Attribute) else [])):
                return out

        if ext == "json.loads":
            add("json.decoder.JSONDecodeError")
            at = self.cg.atoms(f, call.args[0]) if call.args else None
            if at is None or any(a in ("I:builtins.bytes", "I:builtins.bytearray", "Any") or a.startswith("O:") for a in at):
                add("builtins.UnicodeDecodeError", "json.loads(<bytes>) decodes first")
            return out
        if ext == "datetime.datetime.fromtimestamp":
            if call.args and _is_clock_call(call.args[0]):
                return out  # the wall clock is in range
            add(OE)
            add(VE)
            return out
        if ext == "datetime.datetime.replace" and all(k.arg == "tzinfo" for k in call.keywords) and not call.args:
            return out
        if ext == "datetime.datetime.timestamp":
            # a naive datetime goes through mktime(): out of range for years near datetime.min/max ("year 0 is out of range")
            if self.policy.count_dt_edge and not (isinstance(call.func, ast.Attribute) and _is_clock_call(call.func.value)):
                add(OE, "datetime.timestamp() of a date near datetime.min/max")
                add(VE, "datetime.timestamp() of a date near datetime.min/max")
            return out
        if ext in EXT_RAISES:
            if ext == "datetime.timedelta" and self._td_bound(call) is not None:
                return out
            if ext == "re.compile" and call.args and _is_const(call.args[0]):
                return out
            if not self.policy.count_dt_overflow and EXT_RAISES[ext] == (OE,):
                return out
            for c in EXT_RAISES[ext]:
                add(c)
            return out
        if ext in ("builtins.int", "builtins.float"):
            if call.args and isinstance(call.args[0], ast.Name):
                d0 = self._local_def(call.args[0].id)
                if isinstance(d0, ast.Call) and isinstance(d0.func, ast.Attribute) and d0.func.attr in ("timestamp", "total_seconds", "time", "monotonic", "perf_counter") and not d0.args:
                    return out  # a float by construction (an Any-typed receiver hides it from the type facts)
            if call.args:
                at = self.cg.atoms(f, call.args[0]) or ("Any",)
                if any(a in ("I:builtins.str", "I:builtins.bytes", "Any") or a.startswith("O:") for a in at):
                    add(VE, f"{ext.split('.')[1]}(<str>)")
            return out
        if ext == "builtins.next":
            if len(call.args) < 2:
                add("builtins.StopIteration")
            return out
        if ext in ("builtins.max", "builtins.min"):
            par = getattr(call, "parent", None)
            if isinstance(par, ast.IfExp) and par.body is call and call.args and norm_txt(par.test) == norm_txt(call.args[0]):
                return out  # `max(xs) if xs else ...`
            up, ch = par, call  # ... also when the call sits inside the true arm: `D[max(xs)] if xs else ...`
            while isinstance(up, (ast.Subscript, ast.Attribute, ast.Call, ast.BinOp, ast.Tuple)):
                ch, up = up, getattr(up, "parent", None)
            if isinstance(up, ast.IfExp) and up.body is ch and call.args and norm_txt(up.test) == norm_txt(call.args[0]):
                return out
            if len(call.args) == 1 and not any(k.arg == "default" for k in call.keywords):
                add(VE, f"{ext.split('.')[1]}(<possibly empty>)")
            return out
        if ext == "builtins.dict.pop":
            if len(call.args) == 1 and self.policy.count_keyerror:
                add(KE, "dict.pop(k)")
            return out
        if ext == "builtins.divmod":
            if self.policy.count_div and len(call.args) == 2 and not _is_nonzero_const(call.args[1]) and not (self.policy.nonzero and self.policy.nonzero(f, call.args[1])):
                add("builtins.ZeroDivisionError", "divmod")
            return out
        if ext in ("re.sub", "re.match", "re.search"):
            if call.args and not _is_const(call.args[0]):
                add("re.error")
            return out
        if ext in FUTURE_RESULT:
            self._merge(out, self._future_excs(f, call))
            return out
        if ext in FUTURE_SET or ext.endswith((".set_result", ".set_exception")) and "Future" in ext:
            if self.policy.count_invalid_state:
                add("asyncio.exceptions.InvalidStateError")
            return out
        return out

    def _await(self, n: ast.Await) -> dict[str, Origin]:
        """`await fut` / `await wait_for(fut, t)` of a Future: what was set_exception()'d."""
        v = n.value
        tgt: ast.expr | None = None
        if isinstance(v, ast.Call) and _callee_name(v).endswith("wait_for") and v.args:
            tgt = v.args[0]
            if isinstance(tgt, ast.Call) and _callee_name(tgt).endswith("shield") and tgt.args:
                tgt = tgt.args[0]
        elif not isinstance(v, ast.Call):
            tgt = v
        if tgt is None or isinstance(tgt, ast.Call):
            return Esc()
        at = self.cg.atoms(self._f, tgt) or ()
        if any("Future" in a or "Task" in a for a in at):
            return self._future_excs(self._f, n)
        return Esc()

    def _future_excs(self, f: FuncInfo, node: ast.AST) -> dict[str, Origin]:
        """Classes that flow into set_exception() in the same module (one level through params)."""
        mod = f.module.name
        if mod not in self._future_exc_cache:
            self._future_exc_cache[mod] = {}  # recursion guard
            res: dict[str, Origin] = {}
            for g in self.repo.funcs.values():
                if g.module.name != mod:
                    continue
                for n in own_nodes(g.node):
                    if isinstance(n, ast.Call) and isinstance(n.func, ast.Attribute) and n.func.attr == "set_exception" and n.args:
                        for c in self.exc_classes_of_value(g, n.args[0]):
                            res.setdefault(c, Origin("ext", g, n, "Future.set_exception"))
            self._future_exc_cache[mod] = res
        return Esc({k: Origin("ext", f, node, f"future result <- {v.func.short}@{v.where()}") for k, v in self._future_exc_cache[mod].items()})

    def exc_classes_of_value(self, g: FuncInfo, e: ast.expr, depth: int = 0) -> list[str]:
        """Exception classes an expression (an exception *instance*) may have."""
        if isinstance(e, ast.Call):
            return self._class_names(e.func, g)
        if isinstance(e, ast.Name):
            # bound by an enclosing `except C as name`?
            p = getattr(e, "parent", None)
            while p is not None:
                if isinstance(p, ast.ExceptHandler) and p.name == e.id:
                    return self._handler_classes(p, g)
                p = getattr(p, "parent", None)
            # a parameter: look at the callers' arguments
            fn: FuncInfo | None = g
            while fn is not None and depth < 3:
                params = [a.arg for a in fn.node.args.posonlyargs + fn.node.args.args]
                kwonly = [a.arg for a in fn.node.args.kwonlyargs]
                if e.id in params or e.id in kwonly:
                    out: list[str] = []
                    for site in self.cg.callers_of(fn):
                        if not isinstance(site.node, ast.Call):
                            continue
                        arg = None
                        for k in site.node.keywords:
                            if k.arg == e.id:
                                arg = k.value
                        if arg is None and e.id in params:
                            idx = params.index(e.id) - (1 if params and params[0] in ("self", "cls") and isinstance(site.node.func, ast.Attribute) else 0)
                            if 0 <= idx < len(site.node.args):
                                arg = site.node.args[idx]
                        if arg is not None and not (isinstance(arg, ast.Constant) and arg.value is None):
                            for c in self.exc_classes_of_value(site.caller, arg, depth + 1):
                                if c not in out:
                                    out.append(c)
                    if out:
                        return out
                    break
                fn = fn.parent
        at = self.cg.atoms(g, e) or ()
        out = [self.h.norm(a[2:]) for a in at if a[:2] == "I:" and self.h.is_sub(a[2:], "builtins.BaseException")]
        return out or ["builtins.Exception"]

    def _binop(self, n: ast.BinOp) -> dict[str, Origin]:
        f = self._f
        out = Esc()
        if self.policy.implicit_only_tainted and not self._expr_tainted(n, self._tainted):
            return out
        if isinstance(n.op, (ast.Div, ast.FloorDiv, ast.Mod)) and self.policy.count_div:
            lt = self.cg.atoms(f, n.left) or ("Any",)
            if isinstance(n.op, ast.Mod) and any(a in ("I:builtins.str", "I:builtins.bytes") for a in lt):
                return out
            if isinstance(n.left, (ast.Constant, ast.JoinedStr)) and isinstance(getattr(n.left, "value", None), (str, bytes)):
                return out
            if not _is_nonzero_const(n.right) and not self._const_nonzero_name(n.right) and not (self.policy.nonzero and self.policy.nonzero(f, n.right)) and not _zero_guarded(n, n.right):
                out["builtins.ZeroDivisionError"] = Origin("implicit", f, n, "division by a computed value")
        elif isinstance(n.op, (ast.Add, ast.Sub)) and self.policy.count_dt_overflow:
            lt = set(self.cg.atoms(f, n.left) or ())
            rt = set(self.cg.atoms(f, n.right) or ())
            dtm, tdl = "I:datetime.datetime", "I:datetime.timedelta"
            if (dtm in lt and tdl in rt) or (tdl in lt and dtm in rt and isinstance(n.op, ast.Add)):
                d_op, t_op = (n.left, n.right) if dtm in lt else (n.right, n.left)
                b = self._td_bound(t_op)
                if b is not None and b < 10 * 366 * 86400 and (self._is_clock_value(d_op) or not self.policy.count_dt_edge):
                    return out  # wall clock +/- a bounded interval cannot leave datetime's range
                out["builtins.OverflowError"] = Origin("implicit", f, n, "datetime +/- timedelta")
        elif isinstance(n.op, ast.Mult) and self.policy.count_dt_overflow:
            lt = set(self.cg.atoms(f, n.left) or ())
            rt = set(self.cg.atoms(f, n.right) or ())
            if ("I:datetime.timedelta" in lt and not _is_const(n.right)) or ("I:datetime.timedelta" in rt and not _is_const(n.left)):
                out["builtins.OverflowError"] = Origin("implicit", f, n, "timedelta * computed value")
        return out

    def _local_def(self, name: str) -> ast.expr | None:
        """Single assignment to a local name in the current function or its enclosing functions."""
        fn: FuncInfo | None = self._f
        while fn is not None:
            vals: list[ast.expr | None] = []
            for st in ast.walk(fn.node):
                if isinstance(st, (ast.Assign, ast.AnnAssign)) and st.value is not None:
                    for t in st.targets if isinstance(st, ast.Assign) else [st.target]:
                        if isinstance(t, ast.Name) and t.id == name:
                            vals.append(st.value)
                        elif any(isinstance(x, ast.Name) and x.id == name for x in ast.walk(t)):
                            vals.append(None)
                elif isinstance(st, (ast.AugAssign, ast.For, ast.NamedExpr, ast.comprehension)):
                    if any(isinstance(x, ast.Name) and x.id == name for x in ast.walk(st.target)):
                        vals.append(None)
            if vals:
                return vals[0] if len(vals) == 1 else None
            fn = fn.parent
        return None

    def _is_clock_value(self, e: ast.expr, depth: int = 0) -> bool:
        if _is_clock_call(e):
            return True
        if isinstance(e, ast.Name) and depth < 3:
            d = self._local_def(e.id)
            return d is not None and self._is_clock_value(d, depth + 1)
        return False

    def _num_bound(self, e: ast.expr, depth: int = 0) -> float | None:
        """Upper bound of |e| for the shapes the repo uses (None = unbounded/unknown)."""
        if depth > 6:
            return None
        if isinstance(e, ast.Constant) and isinstance(e.value, (int, float)) and not isinstance(e.value, bool):
            return abs(e.value)
        if isinstance(e, ast.UnaryOp) and isinstance(e.op, (ast.USub, ast.UAdd)):
            return self._num_bound(e.operand, depth + 1)
        if isinstance(e, ast.Name):
            d = self._local_def(e.id)
            if d is not None:
                return self._num_bound(d, depth + 1)
            if self.consts is not None:
                try:
                    v = self.consts.eval_in(self._f, e)
                except Exception:
                    return None
                if isinstance(v, (int, float)) and not isinstance(v, bool):
                    return abs(v)
            return None
        if isinstance(e, ast.Call) and _callee_name(e) == "int" and len(e.args) == 2 and isinstance(e.args[1], ast.Constant) and e.args[1].value == 16:
            a = e.args[0]
            if isinstance(a, ast.Subscript) and isinstance(a.slice, ast.Slice) and a.slice.lower is not None and a.slice.upper is not None:
                lo, hi = a.slice.lower, a.slice.upper
                if isinstance(lo, ast.Constant) and isinstance(hi, ast.Constant) and isinstance(lo.value, int) and isinstance(hi.value, int) and 0 <= lo.value < hi.value:
                    return float(16 ** (hi.value - lo.value) - 1)
            if isinstance(a, ast.Subscript) and isinstance(a.slice, ast.Slice) and a.slice.lower is None and isinstance(a.slice.upper, ast.Constant):
                return float(16 ** a.slice.upper.value - 1)
            return None
        if isinstance(e, ast.BinOp):
            l, r = self._num_bound(e.left, depth + 1), self._num_bound(e.right, depth + 1)
            if isinstance(e.op, ast.Mult) and l is not None and r is not None:
                return l * r
            if isinstance(e.op, (ast.Add, ast.Sub)) and l is not None and r is not None:
                return l + r
            if isinstance(e.op, (ast.Div, ast.FloorDiv)) and l is not None and _is_nonzero_const(e.right):
                rv = abs(eval(compile(ast.Expression(e.right), "<c>", "eval"), {"__builtins__": {}}))
                return l / rv
            return None
        return None

    def _td_bound(self, e: ast.expr, depth: int = 0) -> float | None:
        """Upper bound in seconds of |timedelta expression| (None = unknown)."""
        if isinstance(e, ast.Name) and depth < 3:
            d = self._local_def(e.id)
            if d is not None:
                return self._td_bound(d, depth + 1)
            if self.consts is not None:
                try:
                    v = self.consts.eval_in(self._f, e)
                except Exception:
                    return None
                import datetime as _d

                if isinstance(v, _d.timedelta):
                    return abs(v.total_seconds())
            return None
        if isinstance(e, ast.Call) and _callee_name(e) in ("td", "timedelta", "datetime.timedelta"):
            unit = {"days": 86400.0, "seconds": 1.0, "microseconds": 1e-6, "milliseconds": 1e-3, "minutes": 60.0, "hours": 3600.0, "weeks": 604800.0}
            order = ["days", "seconds", "microseconds", "milliseconds", "minutes", "hours", "weeks"]
            total = 0.0
            for i, a in enumerate(e.args):
                b = self._num_bound(a)
                if b is None or i >= len(order):
                    return None
                total += b * unit[order[i]]
            for k in e.keywords:
                b = self._num_bound(k.value) if k.arg in unit else None
                if b is None:
                    return None
                total += b * unit[k.arg]  # type: ignore[index]
            return total if total < 86399999999999 else None
        return None

    def _const_nonzero_name(self, e: ast.expr) -> bool:
        """A module-level constant that folds to a non-zero number (cheap cases only)."""
        if isinstance(e, ast.Name):
            m = self._f.module
            # local (closure) constant assigned once from a literal?
            fn: FuncInfo | None = self._f
            while fn is not None:
                vals = [
                    st.value
                    for st in ast.walk(fn.node)
                    if isinstance(st, (ast.Assign, ast.AnnAssign))
                    and any(isinstance(t, ast.Name) and t.id == e.id for t in (st.targets if isinstance(st, ast.Assign) else [st.target]))
                    and st.value is not None
                ]
                if vals:
                    return len(vals) == 1 and _is_nonzero_const(vals[0])
                fn = fn.parent
            for st in m.tree.body:
                if isinstance(st, (ast.Assign, ast.AnnAssign)):
                    tgts = st.targets if isinstance(st, ast.Assign) else [st.target]
                    if any(isinstance(t, ast.Name) and t.id == e.id for t in tgts) and st.value is not None:
                        return _is_nonzero_const(st.value)
        return False

    def _seq_index(self, n: ast.Subscript) -> dict[str, Origin]:
        """list/tuple[<constant or range-bounded index>]: IndexError unless seqlen proves the length."""
        f = self._f
        if isinstance(n.slice, ast.Slice):
            return Esc()
        sl = getattr(self, "_seqlen", None)
        if sl is None:
            from .seqlen import SeqLen

            sl = self._seqlen = SeqLen(self.repo, self.cg, self.consts)
        if not sl.is_seq(f, n.value) or sl._needed(f, n.slice) is None:
            return Esc()  # not a list/tuple, or a computed index: outside the model (stated in the evidence)
        why = sl.index_safe(f, n)
        if why:
            self.discharged.setdefault((f.qualname, "builtins.IndexError", getattr(n, "lineno", 0)), why)
            return Esc()
        return Esc({"builtins.IndexError": Origin("implicit", f, n, "sequence[<index>] with no proven length bound")})

    def _subscript(self, n: ast.Subscript, load: bool = True) -> dict[str, Origin]:
        if self.policy.count_index:
            out = self._seq_index(n)
            if out:
                return out
        if not self.policy.count_keyerror:
            return Esc()
        if self.policy.implicit_only_tainted and not self._expr_tainted(n.slice, self._tainted):
            return Esc()
        f = self._f
        if isinstance(n.slice, ast.Slice) or _is_const(n.slice) or _is_const_name(n.slice):
            return Esc()
        at = self.cg.atoms(f, n.value) or ()
        is_map = any(a in ("I:builtins.dict", "I:typing.Mapping", "I:collections.OrderedDict", "I:collections.defaultdict", "I:typing.MutableMapping") for a in at)
        if not is_map:
            return Esc()
        if any(a == "I:collections.defaultdict" for a in at):
            return Esc()
        if self._key_guarded(n):
            return Esc()
        return Esc({KE: Origin("implicit", f, n, "mapping[<computed key>]")})

    def _key_guarded(self, n: ast.Subscript) -> bool:
        """Accepted idioms: an enclosing/dominating `k in D` test on the same D and k; iteration over D."""
        key = ast.unparse(n.slice)
        cont = ast.unparse(n.value)
        p = getattr(n, "parent", None)
        child: ast.AST = n
        while p is not None and not isinstance(p, (ast.FunctionDef, ast.AsyncFunctionDef, ast.Module)):
            # `if k in D: ... D[k]` / `D[k] if k in D else` / `k in D and D[k]`
            tests: list[ast.expr] = []
            if isinstance(p, (ast.If, ast.IfExp, ast.While)) and child is not p.test:
                in_body = child in (p.body if isinstance(p.body, list) else [p.body])
                tests.append(p.test) if in_body else None
                if not in_body and _negated_in(p.test, key, cont):
                    return True
            if isinstance(p, ast.BoolOp) and isinstance(p.op, ast.And):
                idx = p.values.index(child) if child in p.values else 0
                tests.extend(p.values[:idx])
            if isinstance(p, ast.BoolOp) and isinstance(p.op, ast.Or):
                idx = p.values.index(child) if child in p.values else 0
                if any(_negated_in(t, key, cont) for t in p.values[:idx]):
                    return True
            for t in tests:
                if _positive_in(t, key, cont):
                    return True
            # comprehension / loop over the container's own keys
            if isinstance(p, (ast.For, ast.AsyncFor)) and _iterates_keys(p.iter, p.target, key, cont):
                return True
            if isinstance(p, (ast.ListComp, ast.SetComp, ast.DictComp, ast.GeneratorExp)):
                for g in p.generators:
                    if _iterates_keys(g.iter, g.target, key, cont):
                        return True
                    if any(_positive_in(c, key, cont) for c in g.ifs):
                        return True
                    # for K in [c for c in XS if c in D (and ...)]: every K is a key of D
                    it = g.iter
                    if isinstance(g.target, ast.Name) and g.target.id == key and isinstance(it, (ast.ListComp, ast.GeneratorExp, ast.SetComp)) and len(it.generators) == 1:
                        ig = it.generators[0]
                        if isinstance(it.elt, ast.Name) and isinstance(ig.target, ast.Name) and it.elt.id == ig.target.id and any(_positive_in(c, ig.target.id, cont) for c in ig.ifs):
                            return True
            # earlier sibling: `if k not in D: return/raise/continue`
            body = None
            for fld in ("body", "orelse", "finalbody"):
                b = getattr(p, fld, None)
                if isinstance(b, list) and child in b:
                    body = b
            if body is not None:
                for st in body[: body.index(child)]:
                    if isinstance(st, ast.If) and _negated_in(st.test, key, cont) and st.body and isinstance(st.body[-1], (ast.Return, ast.Raise, ast.Continue, ast.Break)):
                        return True
                    if isinstance(st, ast.If) and _positive_in(st.test, key, cont) is False:
                        pass
            child = p
            p = getattr(p, "parent", None)
        # function-level: earlier top-level `if k not in D: return`
        if p is not None and isinstance(p, (ast.FunctionDef, ast.AsyncFunctionDef)) and child in p.body:
            for st in p.body[: p.body.index(child)]:
                if isinstance(st, ast.If) and _negated_in(st.test, key, cont) and st.body and isinstance(st.body[-1], (ast.Return, ast.Raise)):
                    return True
        return False

    # helpers ---------------------------------------------------------------------------

    @staticmethod
    def _bound_by_handler(e: ast.expr) -> ast.ExceptHandler | None:
        if not isinstance(e, ast.Name):
            return None
        p = getattr(e, "parent", None)
        while p is not None:
            if isinstance(p, ast.ExceptHandler) and p.name == e.id:
                return p
            if isinstance(p, (ast.FunctionDef, ast.AsyncFunctionDef)):
                return None
            p = getattr(p, "parent", None)
        return None

    def _class_names(self, e: ast.expr, g: FuncInfo | None = None) -> list[str]:
        g = g or self._f
        if isinstance(e, ast.Tuple):
            out: list[str] = []
            for x in e.elts:
                out.extend(self._class_names(x, g))
            return out
        ref = self.cg.tf.ref_of(g.module.name, e)
        if not ref:
            d = ast.unparse(e)
            ref = self.repo.resolve(g.module, d) or d
        return [self.h.norm(ref)]

    def _handler_classes(self, h: ast.ExceptHandler, g: FuncInfo | None = None) -> list[str]:
        if h.type is None:
            return ["builtins.BaseException"]
        return self._class_names(h.type, g)

    def _raised_classes(self, e: ast.expr, caught: dict[str, Origin] | None) -> list[str]:
        f = self._f
        if isinstance(e, ast.Call):
            names = self._class_names(e.func)
            # a factory call returning an exception instance?
            if names and not self.h.is_sub(names[0], "builtins.BaseException") and names[0] not in self.repo.classes:
                at = self.cg.atoms(f, e) or ()
                cl = [self.h.norm(a[2:]) for a in at if a[:2] == "I:"]
                if cl:
                    return cl
            return names
        if isinstance(e, ast.Name):
            p = getattr(e, "parent", None)
            while p is not None:
                if isinstance(p, ast.ExceptHandler) and p.name == e.id:
                    return list(caught) if caught else self._handler_classes(p)
                p = getattr(p, "parent", None)
            ref = self.cg.tf.ref_of(f.module.name, e) or self.repo.resolve(f.module, e.id)
            if ref and (self.h.norm(ref) in self.repo.classes or _std_class(self.h.norm(ref))):
                return [self.h.norm(ref)]
            return self.exc_classes_of_value(f, e)
        if isinstance(e, ast.Attribute):
            ref = self.cg.tf.ref_of(f.module.name, e)
            if not ref:
                ref = self.repo.resolve(f.module, ast.unparse(e))
            if ref and (self.h.norm(ref) in self.repo.classes or _std_class(self.h.norm(ref))):
                return [self.h.norm(ref)]
            return self.exc_classes_of_value(f, e)
        return ["builtins.Exception"]

    # assert policy ---------------------------------------------------------------------

    def _taint(self, f: FuncInfo) -> set[str]:
        """Local names data-dependent on received text (forward propagation, own body only)."""
        tainted: set[str] = set()
        fn: FuncInfo | None = f
        while fn is not None:
            if _is_receive_scope(fn):
                for a in fn.node.args.posonlyargs + fn.node.args.args + fn.node.args.kwonlyargs:
                    if a.arg in INPUT_PARAM_NAMES:
                        tainted.add(a.arg)
            fn = fn.parent
        # a closure's parameter is tainted when its enclosing function passes a tainted argument
        if f.parent is not None:
            self._f, saved = f.parent, self._f
            ptaint = self._taint_cache.get(f.parent)
            if ptaint is None:
                ptaint = self._taint_cache[f.parent] = self._taint(f.parent)
            params = [a.arg for a in f.node.args.posonlyargs + f.node.args.args]
            for n in ast.walk(f.parent.node):
                if isinstance(n, ast.Call) and isinstance(n.func, ast.Name) and n.func.id == f.name:
                    for p, a in zip(params, n.args):
                        if self._expr_tainted(a, ptaint):
                            tainted.add(p)
                    for k in n.keywords:
                        if k.arg and self._expr_tainted(k.value, ptaint):
                            tainted.add(k.arg)
            self._f = saved
            tainted |= {t for t in ptaint if t not in {a.arg for a in f.node.args.args}}
        for _ in range(3):
            for n in ast.walk(f.node):
                if isinstance(n, (ast.Assign, ast.AnnAssign, ast.AugAssign)) and n.value is not None:
                    if self._expr_tainted(n.value, tainted):
                        tgts = n.targets if isinstance(n, ast.Assign) else [n.target]
                        for t in tgts:
                            for nm in ast.walk(t):
                                if isinstance(nm, ast.Name):
                                    tainted.add(nm.id)
                elif isinstance(n, ast.NamedExpr) and self._expr_tainted(n.value, tainted):
                    tainted.add(n.target.id)
                elif isinstance(n, (ast.For, ast.comprehension)) and self._expr_tainted(n.iter, tainted):
                    for nm in ast.walk(n.target):
                        if isinstance(nm, ast.Name):
                            tainted.add(nm.id)
        return tainted

    def _expr_tainted(self, e: ast.expr, tainted: set[str]) -> bool:
        f = self._f
        for n in ast.walk(e):
            if isinstance(n, ast.Name) and n.id in tainted:
                return True
            if isinstance(n, ast.Attribute) and not isinstance(n.value, ast.Call):  # a call result is not received text
                at = self.cg.atoms(f, n.value) or self.cg._fallback_atoms(f, n.value) or ()
                if any(a[:2] == "I:" and a[2:] in INPUT_TYPES for a in at):
                    return True
        return False

    def _assert_counts(self, st: ast.Assert) -> bool:
        pol = self.policy.count_assert
        if pol == "none":
            return False
        if pol == "all":
            return True
        return self._expr_tainted(st.test, self._tainted)


def norm_txt(n: ast.AST) -> str:
    return " ".join(ast.unparse(n).split())


def _callee_name(c: ast.Call) -> str:
    try:
        return ast.unparse(c.func)
    except Exception:
        return ""


def _is_const(e: ast.expr) -> bool:
    if isinstance(e, ast.Constant):
        return True
    if isinstance(e, ast.UnaryOp):
        return _is_const(e.operand)
    if isinstance(e, ast.BinOp):
        return _is_const(e.left) and _is_const(e.right)
    if isinstance(e, (ast.Tuple, ast.List)):
        return all(_is_const(x) for x in e.elts)
    return False


CLOCK_CALLS = {"dt.now", "datetime.now", "dt_now", "time.time", "time", "time_ns", "time.time_ns", "timestamp", "perf_counter", "time.perf_counter", "monotonic", "time.monotonic", "dt.utcnow"}


def _is_clock_call(e: ast.expr) -> bool:
    return isinstance(e, ast.Call) and _callee_name(e) in CLOCK_CALLS


def _is_const_name(e: ast.expr) -> bool:
    """SZ_ZONE_IDX, Code._1FC9, I_ ...: the repo's naming convention for string constants."""
    if isinstance(e, ast.Name):
        return e.id.isupper() or (e.id.endswith("_") and e.id[:-1].isupper())
    if isinstance(e, ast.Attribute) and isinstance(e.value, ast.Name):
        return e.value.id in ("Code", "DevType", "DevRole", "ZoneRole", "MsgId") or (e.attr.isupper() and e.value.id.isupper())
    return False


def _is_nonzero_const(e: ast.expr) -> bool:
    if not _is_const(e):
        # td(seconds=1) and friends
        if isinstance(e, ast.Call) and _callee_name(e) in ("td", "timedelta", "datetime.timedelta") and all(
            _is_const(a) for a in list(e.args) + [k.value for k in e.keywords]
        ):
            try:
                return any(bool(ast.literal_eval(a)) for a in list(e.args) + [k.value for k in e.keywords])
            except Exception:
                return False
        return False
    try:
        v = eval(compile(ast.Expression(e), "<const>", "eval"), {"__builtins__": {}})  # literals/arithmetics only
    except Exception:
        return False
    return isinstance(v, (int, float)) and v != 0


def _zero_guarded(node: ast.AST, divisor: ast.expr) -> bool:
    """Accepted idioms: an earlier `if not D: return/raise` (or `if D == 0`, `if D <= 0`) in an enclosing block;
    the division sits in the body of `if D:` / `if D != 0` / `if D > 0`; `... if D else ...`."""
    d = ast.unparse(divisor)

    def falsy_test(t: ast.expr) -> bool:  # true when D is zero
        if isinstance(t, ast.UnaryOp) and isinstance(t.op, ast.Not) and ast.unparse(t.operand) == d:
            return True
        if isinstance(t, ast.Compare) and len(t.ops) == 1 and ast.unparse(t.left) == d and isinstance(t.comparators[0], ast.Constant) and t.comparators[0].value == 0:
            return isinstance(t.ops[0], (ast.Eq, ast.LtE))
        if isinstance(t, ast.BoolOp) and isinstance(t.op, ast.Or):
            return any(falsy_test(v) for v in t.values)
        return False

    def truthy_test(t: ast.expr) -> bool:  # true only when D is non-zero
        if ast.unparse(t) == d:
            return True
        if isinstance(t, ast.Compare) and len(t.ops) == 1 and ast.unparse(t.left) == d and isinstance(t.comparators[0], ast.Constant) and t.comparators[0].value == 0:
            return isinstance(t.ops[0], (ast.NotEq, ast.Gt))
        if isinstance(t, ast.BoolOp) and isinstance(t.op, ast.And):
            return any(truthy_test(v) for v in t.values)
        return False

    child: ast.AST = node
    p = getattr(node, "parent", None)
    while p is not None and not isinstance(p, (ast.FunctionDef, ast.AsyncFunctionDef, ast.Lambda, ast.Module)):
        if isinstance(p, ast.IfExp):
            if child is p.body and truthy_test(p.test):
                return True
            if child is p.orelse and falsy_test(p.test):
                return True
        if isinstance(p, ast.If):
            if child in p.body and truthy_test(p.test):
                return True
            if child in p.orelse and falsy_test(p.test):
                return True
        for fld in ("body", "orelse", "finalbody"):
            b = getattr(p, fld, None)
            if isinstance(b, list) and child in b:
                for st in b[: b.index(child)]:
                    if isinstance(st, ast.If) and falsy_test(st.test) and st.body and isinstance(st.body[-1], (ast.Return, ast.Raise, ast.Continue, ast.Break)):
                        return True
        child = p
        p = getattr(p, "parent", None)
    if isinstance(p, (ast.FunctionDef, ast.AsyncFunctionDef)) and child in p.body:
        for st in p.body[: p.body.index(child)]:
            if isinstance(st, ast.If) and falsy_test(st.test) and st.body and isinstance(st.body[-1], (ast.Return, ast.Raise)):
                return True
    return False


def _positive_in(t: ast.expr, key: str, cont: str) -> bool:
    if isinstance(t, ast.Compare) and len(t.ops) == 1 and isinstance(t.ops[0], ast.In):
        return ast.unparse(t.left) == key and ast.unparse(t.comparators[0]) in (cont, cont + ".keys()")
    if isinstance(t, ast.BoolOp) and isinstance(t.op, ast.And):
        return any(_positive_in(v, key, cont) for v in t.values)
    # walrus: (x := D.get(k)) and ... D[k]
    if isinstance(t, ast.NamedExpr):
        return _positive_in(t.value, key, cont) or _is_get(t.value, key, cont)
    if _is_get(t, key, cont):
        return True
    return False


def _is_get(t: ast.expr, key: str, cont: str) -> bool:
    return (
        isinstance(t, ast.Call)
        and isinstance(t.func, ast.Attribute)
        and t.func.attr == "get"
        and ast.unparse(t.func.value) == cont
        and len(t.args) >= 1
        and ast.unparse(t.args[0]) == key
    )


def _negated_in(t: ast.expr, key: str, cont: str) -> bool:
    if isinstance(t, ast.Compare) and len(t.ops) == 1 and isinstance(t.ops[0], ast.NotIn):
        return ast.unparse(t.left) == key and ast.unparse(t.comparators[0]) in (cont, cont + ".keys()")
    if isinstance(t, ast.UnaryOp) and isinstance(t.op, ast.Not):
        return _positive_in(t.operand, key, cont)
    if isinstance(t, ast.BoolOp) and isinstance(t.op, ast.Or):
        return any(_negated_in(v, key, cont) for v in t.values)
    return False


def _iterates_keys(it: ast.expr, target: ast.expr, key: str, cont: str) -> bool:
    its = ast.unparse(it)
    tg = ast.unparse(target)
    if its in (cont, cont + ".keys()", f"list({cont})", f"sorted({cont})") and tg == key:
        return True
    if its == cont + ".items()" and isinstance(target, ast.Tuple) and target.elts and ast.unparse(target.elts[0]) == key:
        return True
    return False


def _is_generator(f: FuncInfo) -> bool:
    for n in own_nodes(f.node):
        if isinstance(n, (ast.Yield, ast.YieldFrom)):
            return True
    return False
