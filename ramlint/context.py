"""Shared analysis context: lazily builds and caches the engine components."""

from __future__ import annotations

import ast
from typing import Any

from . import REPO, typefacts
from .callgraph import CallGraph
from .cfg import CFG
from .consteval import ConstEnv
from .exc import ExcAnalysis, Policy
from .loader import AnalysisError, FuncInfo, Repo


class Ctx:
    def __init__(self, root: str = REPO, tier: str = "quick", seed: int = 0) -> None:
        self.root = root
        self.tier = tier
        self.seed = seed
        self.repo = Repo(root)
        self.consts = ConstEnv(self.repo)
        self._tf: typefacts.TypeFacts | None = None
        self._cg: CallGraph | None = None
        self._exc: dict[str, ExcAnalysis] = {}
        self._cfg: dict[tuple[str, int], CFG] = {}
        self.stats: dict[str, Any] = {}

    @property
    def tf(self) -> typefacts.TypeFacts:
        if self._tf is None:
            self._tf = typefacts.load(self.root, self.repo.digest)
        return self._tf

    @property
    def cg(self) -> CallGraph:
        if self._cg is None:
            self._cg = CallGraph(self.repo, self.tf)
            self.stats.update(
                call_sites=self._cg.n_calls,
                calls_resolved_in_repo=self._cg.n_resolved,
                calls_external=self._cg.n_external,
                calls_imprecise=self._cg.n_imprecise,
                calls_unresolved=self._cg.n_unresolved,
            )
        return self._cg

    def exc(self, policy: Policy | None = None) -> ExcAnalysis:
        policy = policy or Policy()
        if policy.name not in self._exc:
            self._exc[policy.name] = ExcAnalysis(self.repo, self.cg, policy, consts=self.consts)
        return self._exc[policy.name]

    def cfg(self, f: FuncInfo, policy: Policy | None = None, cancellation: bool = True) -> CFG:
        ea = self.exc(policy)
        key = (ea.policy.name + ("+c" if cancellation else ""), id(f))
        if key not in self._cfg:

            def raises(node: ast.AST) -> set[str]:
                return set(ea.raises_of(f, node))

            def hcls(h: ast.ExceptHandler) -> list[str]:
                return ea._handler_classes(h, f)

            def sup(w: ast.With | ast.AsyncWith) -> list[str]:
                out: list[str] = []
                for item in w.items:
                    ce = item.context_expr
                    if isinstance(ce, ast.Call) and ast.unparse(ce.func) in ("suppress", "contextlib.suppress"):
                        for a in ce.args:
                            out.extend(ea._class_names(a, f))
                return out

            self._cfg[key] = CFG(f.node, raises, ea.h.is_sub, hcls, sup, cancellation=cancellation)
        return self._cfg[key]

    def plain_cfg(self, f: FuncInfo) -> CFG:
        """Control flow only (no exceptional edges): for dominance queries that do not depend on what may raise."""
        key = ("plain", id(f))
        if key not in self._cfg:
            from .exc import Hierarchy

            h = Hierarchy(self.repo)
            self._cfg[key] = CFG(f.node, lambda n: set(), h.is_sub, lambda hd: self.handler_classes(f, hd), None, cancellation=False)
        return self._cfg[key]

    def handler_classes(self, f: FuncInfo, h: ast.ExceptHandler) -> list[str]:
        from .exc import Hierarchy

        hier = Hierarchy(self.repo)
        if h.type is None:
            return ["builtins.BaseException"]
        elts = h.type.elts if isinstance(h.type, ast.Tuple) else [h.type]
        out = []
        for e in elts:
            ref = self.tf.ref_of(f.module.name, e) or self.repo.resolve(f.module, ast.unparse(e)) or ast.unparse(e)
            out.append(hier.norm(ref))
        return out

    def is_sub(self, a: str, b: str) -> bool:
        from .exc import Hierarchy

        return Hierarchy(self.repo).is_sub(a, b)

    # convenience -------------------------------------------------------------------------

    def func(self, qn: str) -> FuncInfo:
        return self.repo.func(qn)

    def const(self, module: str, name: str) -> Any:
        return self.consts.need(module, name)


__all__ = ["Ctx", "AnalysisError", "Policy"]
