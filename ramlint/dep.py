"""E8 - intra-procedural dependence (def-use) over one function and its closures.

Flow-insensitive: deps(x) = union over every assignment to x of the variables read by
its right-hand side (an augmented assignment also reads x). Variables are local names
and `self.attr` chains. Calls to the function's own closures are inlined by name:
a call `g(a)` depends on g's returned/yielded expressions and binds g's parameters.
Used for necessary-condition rules ("the value passed to F depends on attribute A").
"""

from __future__ import annotations

import ast

from .loader import FuncInfo, own_nodes


def var_of(e: ast.AST) -> str | None:
    if isinstance(e, ast.Name):
        return e.id
    if isinstance(e, ast.Attribute):
        b = var_of(e.value)
        return f"{b}.{e.attr}" if b else None
    return None


def reads(e: ast.AST) -> set[str]:
    """Variables (names, self.x chains and their prefixes' full chains) read by an expression."""
    out: set[str] = set()
    stack = [e]
    while stack:
        n = stack.pop()
        if isinstance(n, (ast.Name, ast.Attribute)):
            v = var_of(n)
            if v:
                out.add(v)
                # `pkt.src.id` reads pkt.src.id, and (conservatively) pkt.src and pkt
                parts = v.split(".")
                for i in range(1, len(parts)):
                    out.add(".".join(parts[:i]))
                continue
        if isinstance(n, (ast.Lambda, ast.FunctionDef, ast.AsyncFunctionDef)):
            continue
        stack.extend(ast.iter_child_nodes(n))
    return out


class Deps:
    def __init__(self, f: FuncInfo, helpers: "dict[str, FuncInfo] | None" = None) -> None:
        """helpers: methods of the same object called as `self.<name>(...)` that are to be treated like the function's own
        closures (a nested generator moved to a private method is still part of the same computation)."""
        self.f = f
        self.helpers = dict(helpers or {})
        self.direct: dict[str, set[str]] = {}
        self.returns: dict[str, set[str]] = {}  # closure name -> vars its return/yield values read
        self._scan(f, prefix="")
        for name, g in f.nested.items():
            self._scan(g, prefix="")
        for name, g in self.helpers.items():
            self._scan(g, prefix="")
            self.returns[f"self.{name}"] = self.returns.get(g.name, set())
        self._close()

    def _add(self, tgt: str, srcs: set[str]) -> None:
        self.direct.setdefault(tgt, set()).update(srcs)

    def _targets(self, t: ast.AST) -> list[str]:
        out = []
        if isinstance(t, (ast.Tuple, ast.List)):
            for e in t.elts:
                out += self._targets(e)
        elif isinstance(t, ast.Starred):
            out += self._targets(t.value)
        elif isinstance(t, ast.Subscript):
            v = var_of(t.value)
            if v:
                out.append(v)
        else:
            v = var_of(t)
            if v:
                out.append(v)
        return out

    def _scan(self, g: FuncInfo, prefix: str) -> None:
        rets: set[str] = set()
        for n in own_nodes(g.node):
            if isinstance(n, ast.Assign):
                src = reads(n.value)
                for t in n.targets:
                    for v in self._targets(t):
                        self._add(v, src)
            elif isinstance(n, ast.AnnAssign) and n.value is not None:
                for v in self._targets(n.target):
                    self._add(v, reads(n.value))
            elif isinstance(n, ast.AugAssign):
                for v in self._targets(n.target):
                    self._add(v, reads(n.value) | {v})
            elif isinstance(n, ast.NamedExpr):
                self._add(n.target.id, reads(n.value))
            elif isinstance(n, (ast.For, ast.AsyncFor, ast.comprehension)):
                for v in self._targets(n.target):
                    self._add(v, reads(n.iter))
            elif isinstance(n, (ast.With, ast.AsyncWith)):
                for it in n.items:
                    if it.optional_vars is not None:
                        for v in self._targets(it.optional_vars):
                            self._add(v, reads(it.context_expr))
            elif isinstance(n, (ast.Return, ast.Yield, ast.YieldFrom)) and n.value is not None:
                rets |= reads(n.value)
            elif isinstance(n, ast.Call):
                # binding of closure parameters: g(a) makes g's params depend on the args
                fn = n.func.id if isinstance(n.func, ast.Name) else None
                h = self.f.nested.get(fn) if fn else None
                skip_self = False
                if h is None and isinstance(n.func, ast.Attribute) and isinstance(n.func.value, ast.Name) and n.func.value.id == "self" and n.func.attr in self.helpers:
                    h, skip_self = self.helpers[n.func.attr], True
                if h is not None:
                    params = [a.arg for a in h.node.args.posonlyargs + h.node.args.args]
                    if skip_self and params and params[0] in ("self", "cls"):
                        params = params[1:]
                    for p, a in zip(params, n.args):
                        self._add(p, reads(a))
                    for k in n.keywords:
                        if k.arg:
                            self._add(k.arg, reads(k.value))
        self.returns[g.name] = rets

    def _close(self) -> None:
        # a read of closure name `g` (as in `g(data)`) depends on what g returns/yields
        for v, srcs in list(self.direct.items()):
            extra: set[str] = set()
            for s in srcs:
                if s in self.returns:
                    extra |= self.returns[s]
            srcs |= extra
        self.trans: dict[str, set[str]] = {}
        for v in self.direct:
            seen: set[str] = set()
            todo = list(self.direct[v])
            while todo:
                x = todo.pop()
                if x in seen:
                    continue
                seen.add(x)
                for y in self.direct.get(x, ()):
                    todo.append(y)
                if x in self.returns:
                    todo.extend(self.returns[x])
            self.trans[v] = seen

    def of_expr(self, e: ast.AST) -> set[str]:
        out: set[str] = set()
        for r in reads(e):
            out.add(r)
            out |= self.trans.get(r, set())
            if r in self.returns:
                for x in self.returns[r]:
                    out.add(x)
                    out |= self.trans.get(x, set())
        return out

    def of_var(self, v: str) -> set[str]:
        return self.trans.get(v, set())
