"""E3 - type facts: one mypy (library) run per source digest, exported as plain tables.

mypy is used purely as a type *resolver* over source text (it never imports or runs the
repository's packages). The facts are keyed by source span so that the ast-based
analyses can look up the type of any expression:

    facts[module]["types"][(line, col, end_line, end_col)] = ("I:ramses_tx.packet.Packet", ...)
    facts[module]["refs"][(line, col, end_line, end_col)]  = "ramses_tx.frame.pkt_header"

Descriptor atoms:  I:<class>  instance    T:<class>  the class object itself
                   F:<func>   a function  Any / None / O:<text>  other
"""

from __future__ import annotations

import fcntl
import os
import pickle
import subprocess
import sys
import time

from . import VERIF

CACHE_DIR = os.path.join(VERIF, ".cache")
FACTS_VERSION = 5


def _worker(root: str, out_path: str) -> None:
    os.chdir(root)
    from mypy import build
    from mypy.find_sources import create_source_list
    from mypy.nodes import CallExpr, Expression, MemberExpr, NameExpr, Node, RefExpr
    from mypy.options import Options
    from mypy.types import (
        AnyType,
        CallableType,
        Instance,
        LiteralType,
        NoneType,
        Overloaded,
        TupleType,
        TypeType,
        TypeVarType,
        UnionType,
        get_proper_type,
    )

    opts = Options()
    opts.preserve_asts = True
    opts.export_types = True
    opts.incremental = False
    opts.cache_dir = os.devnull
    opts.check_untyped_defs = True
    opts.mypy_path = ["src"]
    opts.namespace_packages = True
    opts.explicit_package_bases = True
    opts.warn_unreachable = False
    # one opt-in diagnostic is kept as a fact: reads of a local that is not bound on every path (possibly-undefined); see
    # props/common.py undefined_locals_rule
    opts.enable_error_code = ["possibly-undefined"]
    opts.process_error_codes(error_callback=lambda m: None)
    srcs = create_source_list(["src/ramses_tx", "src/ramses_rf", "src/ramses_cli"], opts)
    res = build.build(srcs, opts)
    blocking = [e for e in res.errors if "syntax" in e.lower()]
    import re as _re

    undefined = []
    for e in res.errors:
        m = _re.match(r'^(src/[^:]+):(\d+): error: Name "([^"]+)" may be undefined\s+\[possibly-undefined\]', e)
        if m:
            undefined.append((m.group(1), int(m.group(2)), m.group(3)))

    def atoms(t, depth=0):
        t = get_proper_type(t)
        if t is None:
            return ("O:?",)
        if isinstance(t, AnyType):
            return ("Any",)
        if isinstance(t, NoneType):
            return ("None",)
        if isinstance(t, Instance):
            if t.type.fullname == "builtins.type" and t.args:
                return tuple("T:" + a[2:] if a.startswith("I:") else a for a in atoms(t.args[0], depth + 1))
            return ("I:" + t.type.fullname,)
        if isinstance(t, LiteralType):
            return atoms(t.fallback, depth + 1)
        if isinstance(t, TupleType):
            return atoms(t.partial_fallback, depth + 1)
        if isinstance(t, UnionType):
            out = []
            for it in t.items:
                for a in atoms(it, depth + 1):
                    if a not in out:
                        out.append(a)
            return tuple(out)
        if isinstance(t, TypeType):
            return tuple("T:" + a[2:] if a.startswith("I:") else a for a in atoms(t.item, depth + 1))
        if isinstance(t, TypeVarType):
            return atoms(t.upper_bound, depth + 1)
        if isinstance(t, CallableType):
            if t.is_type_obj():
                return ("T:" + t.type_object().fullname,)
            d = t.definition
            fn = getattr(d, "fullname", None)
            if fn:
                return ("F:" + fn,)
            return ("O:callable",)
        if isinstance(t, Overloaded):
            return atoms(t.items[0], depth + 1)
        return ("O:" + type(t).__name__,)

    def rettype(t):
        t = get_proper_type(t)
        if isinstance(t, CallableType):
            return atoms(t.ret_type)
        return None

    SKIP = {"node", "info", "def_var", "original_def", "impl", "analyzed", "type", "unanalyzed_type"}

    def walk(root):
        seen = set()
        stack = [root]
        while stack:
            n = stack.pop()
            if id(n) in seen:
                continue
            seen.add(id(n))
            yield n
            for a in dir(type(n)):
                if a.startswith("__") or a in SKIP:
                    continue
                try:
                    v = getattr(n, a)
                except Exception:
                    continue
                if isinstance(v, Node):
                    stack.append(v)
                elif isinstance(v, (list, tuple)):
                    for x in v:
                        if isinstance(x, Node):
                            stack.append(x)
                        elif isinstance(x, (list, tuple)):
                            for y in x:
                                if isinstance(y, Node):
                                    stack.append(y)

    facts = {}
    for modname, f in res.files.items():
        if not modname.startswith(("ramses_tx", "ramses_rf", "ramses_cli")):
            continue
        types = {}
        refs = {}
        for node in walk(f):
            if not isinstance(node, Expression):
                continue
            key = (node.line, node.column, node.end_line, node.end_column)
            t = res.types.get(node)
            if t is not None:
                types[key] = atoms(t)
            if isinstance(node, RefExpr) and node.fullname:
                refs[key] = node.fullname
        facts[modname] = {"types": types, "refs": refs}

    # class attribute / method return types: handy for unreachable blocks
    members = {}
    for modname, f in res.files.items():
        if not modname.startswith(("ramses_tx", "ramses_rf", "ramses_cli")):
            continue
        for name, sym in f.names.items():
            node = sym.node
            info = getattr(node, "names", None)
            if info is None or not hasattr(node, "mro"):
                continue
            for an, asym in node.names.items():
                t = getattr(asym.node, "type", None)
                if t is None:
                    continue
                pt = get_proper_type(t)
                is_prop = bool(getattr(asym.node, "is_property", False)) or bool(
                    getattr(getattr(asym.node, "var", None), "is_property", False)
                )
                if isinstance(pt, CallableType) and not pt.is_type_obj():
                    members[f"{node.fullname}.{an}"] = ("prop" if is_prop else "meth", rettype(pt))
                else:
                    members[f"{node.fullname}.{an}"] = ("attr", atoms(t))

    with open(out_path + ".tmp", "wb") as fh:
        pickle.dump(
            {"version": FACTS_VERSION, "facts": facts, "members": members, "n_errors": len(res.errors), "blocking": blocking, "undefined": undefined},
            fh,
            protocol=pickle.HIGHEST_PROTOCOL,
        )
    os.replace(out_path + ".tmp", out_path)
    sys.stdout.flush()
    os._exit(0)  # skip mypy's slow teardown


class TypeFacts:
    def __init__(self, data: dict) -> None:
        self.facts = data["facts"]
        self.members = data["members"]
        self.n_errors = data["n_errors"]
        self.undefined: list[tuple[str, int, str]] = data.get("undefined", [])

    def type_of(self, module: str, node) -> tuple[str, ...] | None:
        m = self.facts.get(module)
        if m is None:
            return None
        key = (node.lineno, node.col_offset, node.end_lineno, node.end_col_offset)
        return m["types"].get(key)

    def ref_of(self, module: str, node) -> str | None:
        m = self.facts.get(module)
        if m is None:
            return None
        key = (node.lineno, node.col_offset, node.end_lineno, node.end_col_offset)
        return m["refs"].get(key)

    def member(self, cls_fullname: str, name: str):
        return self.members.get(f"{cls_fullname}.{name}")


def load(root: str, digest: str) -> TypeFacts:
    from . import REPO

    # scratch copies (self-test variants, seeded patches) keep their facts next to the copy, so they vanish with it
    cache_dir = CACHE_DIR if os.path.realpath(root) == os.path.realpath(REPO) else os.path.join(root, ".ramlint-cache")
    os.makedirs(cache_dir, exist_ok=True)
    path = os.path.join(cache_dir, f"types-{FACTS_VERSION}-{digest[:32]}.pkl")
    lock_path = os.path.join(cache_dir, f"types-{digest[:32]}.lock")
    with open(lock_path, "w") as lock:
        fcntl.flock(lock, fcntl.LOCK_EX)
        try:
            if not os.path.exists(path):
                t0 = time.time()
                proc = subprocess.run(
                    [sys.executable, "-c", "import sys; sys.path.insert(0, %r); from ramlint.typefacts import _worker; _worker(%r, %r)" % (VERIF, root, path)],
                    capture_output=True,
                    text=True,
                    timeout=600,
                )
                if proc.returncode != 0 or not os.path.exists(path):
                    from .loader import AnalysisError

                    raise AnalysisError(f"mypy type-fact build failed (rc={proc.returncode}): {proc.stderr[-2000:]}")
                if cache_dir == CACHE_DIR:
                    _prune(path)
                sys.stderr.write(f"[ramlint] type facts built in {time.time() - t0:.1f}s\n")
        finally:
            fcntl.flock(lock, fcntl.LOCK_UN)
    try:
        os.remove(lock_path)
    except OSError:
        pass
    with open(path, "rb") as fh:
        data = pickle.load(fh)
    return TypeFacts(data)


def _prune(keep: str) -> None:
    files = sorted(
        (os.path.join(CACHE_DIR, f) for f in os.listdir(CACHE_DIR) if f.startswith("types-") and f.endswith(".pkl")),
        key=os.path.getmtime,
    )
    for f in files[:-24]:  # self-test variants share the cache; keep it bounded
        if f != keep:
            try:
                os.remove(f)
            except OSError:
                pass
