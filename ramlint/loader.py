"""E1 - loader: parse every *.py under /repo/src, build module/class/function tables."""

from __future__ import annotations

import ast
import hashlib
import os
from dataclasses import dataclass, field

from . import REPO


class AnalysisError(Exception):
    """An anchor could not be found / a constant could not be folded: exit 2."""


@dataclass
class Module:
    name: str
    path: str  # absolute
    rel: str  # relative to repo root
    src: str
    tree: ast.Module
    imports: dict[str, str] = field(default_factory=dict)  # local name -> dotted target
    funcs: dict[str, "FuncInfo"] = field(default_factory=dict)  # top-level only
    classes: dict[str, "ClassInfo"] = field(default_factory=dict)

    @property
    def lines(self) -> list[str]:
        return self.src.splitlines()


@dataclass(eq=False)
class FuncInfo:
    qualname: str  # ramses_tx.frame.Frame._has_array / ...set_state.effect_state
    name: str
    node: ast.FunctionDef | ast.AsyncFunctionDef
    module: Module
    cls: "ClassInfo | None"
    parent: "FuncInfo | None"  # enclosing function, for closures
    nested: dict[str, "FuncInfo"] = field(default_factory=dict)

    @property
    def is_async(self) -> bool:
        return isinstance(self.node, ast.AsyncFunctionDef)

    @property
    def decorators(self) -> list[str]:
        return [ast.unparse(d) for d in self.node.decorator_list]

    @property
    def is_property(self) -> bool:
        return any(d in ("property", "cached_property") or d.endswith(".setter") for d in self.decorators)

    @property
    def short(self) -> str:
        return self.qualname.split(".", 1)[1] if "." in self.qualname else self.qualname

    def loc(self, node: ast.AST | None = None) -> str:
        n = node or self.node
        return f"{self.module.rel}:{getattr(n, 'lineno', '?')}"

    def __repr__(self) -> str:
        return f"<Func {self.qualname}>"


@dataclass(eq=False)
class ClassInfo:
    fullname: str
    name: str
    node: ast.ClassDef
    module: Module
    base_exprs: list[str]
    bases: list[str] = field(default_factory=list)  # resolved fullnames (repo or external)
    methods: dict[str, FuncInfo] = field(default_factory=dict)
    mro: list["ClassInfo"] = field(default_factory=list)
    ext_bases: list[str] = field(default_factory=list)  # non-repo bases (dotted)
    subclasses: list["ClassInfo"] = field(default_factory=list)  # direct

    def find(self, name: str) -> FuncInfo | None:
        for c in self.mro:
            if name in c.methods:
                return c.methods[name]
        return None

    def all_subclasses(self) -> list["ClassInfo"]:
        out, todo = [], list(self.subclasses)
        while todo:
            c = todo.pop()
            if c not in out:
                out.append(c)
                todo.extend(c.subclasses)
        return out

    def class_attr(self, name: str) -> ast.expr | None:
        """Value expression of a class-level assignment NAME = ..., searched along the MRO."""
        for c in self.mro:
            for st in c.node.body:
                if isinstance(st, ast.Assign):
                    for t in st.targets:
                        if isinstance(t, ast.Name) and t.id == name:
                            return st.value
                elif isinstance(st, ast.AnnAssign) and isinstance(st.target, ast.Name):
                    if st.target.id == name and st.value is not None:
                        return st.value
        return None

    def __repr__(self) -> str:
        return f"<Class {self.fullname}>"


def set_parents(tree: ast.AST) -> None:
    for node in ast.walk(tree):
        for child in ast.iter_child_nodes(node):
            child.parent = node  # type: ignore[attr-defined]


def enclosing(node: ast.AST, kinds: tuple[type, ...]) -> ast.AST | None:
    n = getattr(node, "parent", None)
    while n is not None and not isinstance(n, kinds):
        n = getattr(n, "parent", None)
    return n


def norm(node: ast.AST | str) -> str:
    """Normalised text of a construct: stable under reformatting/line moves."""
    if isinstance(node, str):
        return " ".join(node.split())
    return " ".join(ast.unparse(node).split())


class Repo:
    def __init__(self, root: str = REPO) -> None:
        self.root = root
        self.src_root = os.path.join(root, "src")
        self.modules: dict[str, Module] = {}
        self.funcs: dict[str, FuncInfo] = {}
        self.classes: dict[str, ClassInfo] = {}
        self._by_node: dict[int, FuncInfo] = {}
        self._load()

    # -- loading -------------------------------------------------------------------

    def _load(self) -> None:
        if not os.path.isdir(self.src_root):
            raise AnalysisError(f"source root not found: {self.src_root}")
        h = hashlib.sha256()
        paths = []
        for dirpath, dirnames, filenames in os.walk(self.src_root):
            dirnames[:] = sorted(d for d in dirnames if d != "__pycache__" and not d.endswith(".egg-info"))
            for fn in sorted(filenames):
                if fn.endswith(".py"):
                    paths.append(os.path.join(dirpath, fn))
        for p in paths:
            with open(p, encoding="utf-8") as fh:
                src = fh.read()
            h.update(os.path.relpath(p, self.root).encode())
            h.update(b"\0")
            h.update(src.encode())
            h.update(b"\0")
            rel = os.path.relpath(p, self.src_root)
            modname = rel[:-3].replace(os.sep, ".")
            if modname.endswith(".__init__"):
                modname = modname[: -len(".__init__")]
            try:
                tree = ast.parse(src, filename=p)
            except SyntaxError as err:
                raise AnalysisError(f"cannot parse {p}: {err}") from err
            set_parents(tree)
            self.modules[modname] = Module(modname, p, os.path.relpath(p, self.root), src, tree)
        self.digest = h.hexdigest()
        for m in self.modules.values():
            self._scan_imports(m)
        for m in self.modules.values():
            self._scan_defs(m)
        self._link_classes()

    def _is_pkg(self, m: Module) -> bool:
        return m.path.endswith("__init__.py")

    def _scan_imports(self, m: Module) -> None:
        pkg = m.name if self._is_pkg(m) else m.name.rpartition(".")[0]
        for node in ast.walk(m.tree):
            if isinstance(node, ast.Import):
                for a in node.names:
                    m.imports[a.asname or a.name.split(".")[0]] = a.name if a.asname else a.name.split(".")[0]
            elif isinstance(node, ast.ImportFrom):
                base = node.module or ""
                if node.level:
                    parts = pkg.split(".") if pkg else []
                    if node.level > 1:
                        parts = parts[: -(node.level - 1)]
                    base = ".".join(parts + ([node.module] if node.module else []))
                for a in node.names:
                    if a.name == "*":
                        continue
                    m.imports[a.asname or a.name] = f"{base}.{a.name}"

    def _scan_defs(self, m: Module) -> None:
        def visit(body: list[ast.stmt], prefix: str, cls: ClassInfo | None, parent: FuncInfo | None) -> None:
            for st in body:
                if isinstance(st, (ast.FunctionDef, ast.AsyncFunctionDef)):
                    qn = f"{prefix}.{st.name}"
                    if qn in self.funcs:  # e.g. @property + @x.setter, overloads: keep both
                        k = 2
                        while f"{qn}#{k}" in self.funcs:
                            k += 1
                        qn_store = f"{qn}#{k}"
                    else:
                        qn_store = qn
                    fi = FuncInfo(qn_store, st.name, st, m, cls, parent)
                    self.funcs[qn_store] = fi
                    self._by_node[id(st)] = fi
                    if parent is not None:
                        parent.nested.setdefault(st.name, fi)
                    elif cls is not None:
                        # keep the getter for properties (first def), ignore setter dup
                        cls.methods.setdefault(st.name, fi)
                    else:
                        m.funcs.setdefault(st.name, fi)
                    visit_nested(st.body, qn, cls, fi)
                elif isinstance(st, ast.ClassDef):
                    fn = f"{prefix}.{st.name}"
                    ci = ClassInfo(fn, st.name, st, m, [ast.unparse(b) for b in st.bases])
                    self.classes[fn] = ci
                    if cls is None and parent is None:
                        m.classes[st.name] = ci
                    visit(st.body, fn, ci, None)
                elif isinstance(st, (ast.If, ast.Try, ast.With, ast.For, ast.While)):
                    for sub in _sub_bodies(st):
                        visit(sub, prefix, cls, parent)

        def visit_nested(body: list[ast.stmt], prefix: str, cls: ClassInfo | None, parent: FuncInfo) -> None:
            # closures: functions defined anywhere inside the body (not in nested classes)
            for st in body:
                if isinstance(st, (ast.FunctionDef, ast.AsyncFunctionDef)):
                    visit([st], prefix, cls, parent)
                elif isinstance(st, ast.ClassDef):
                    continue
                else:
                    for sub in _sub_bodies(st):
                        visit_nested(sub, prefix, cls, parent)

        visit(m.tree.body, m.name, None, None)

    def _link_classes(self) -> None:
        for ci in self.classes.values():
            for b in ci.base_exprs:
                tgt = self.resolve(ci.module, b.split("[")[0])
                if tgt in self.classes:
                    ci.bases.append(tgt)
                    self.classes[tgt].subclasses.append(ci)
                else:
                    ci.ext_bases.append(tgt or b)
        for ci in self.classes.values():
            ci.mro = self._c3(ci)

    def _c3(self, ci: ClassInfo) -> list[ClassInfo]:
        def merge(seqs: list[list[ClassInfo]]) -> list[ClassInfo]:
            res: list[ClassInfo] = []
            seqs = [list(s) for s in seqs if s]
            while seqs:
                for s in seqs:
                    cand = s[0]
                    if not any(cand in t[1:] for t in seqs):
                        break
                else:
                    raise AnalysisError(f"inconsistent MRO for {ci.fullname}")
                res.append(cand)
                seqs = [[x for x in s if x is not cand] for s in seqs]
                seqs = [s for s in seqs if s]
            return res

        bases = [self.classes[b] for b in ci.bases]
        return [ci] + merge([self._c3(b) for b in bases] + [bases])

    # -- name resolution -----------------------------------------------------------

    def resolve(self, m: Module, dotted: str, _depth: int = 0) -> str | None:
        """Resolve a dotted name used in module m to a fully-qualified dotted name."""
        head, _, rest = dotted.partition(".")
        if head in m.classes or head in m.funcs or self._module_defines(m, head):
            base = f"{m.name}.{head}"
        elif head in m.imports:
            base = m.imports[head]
        else:
            return None
        full = f"{base}.{rest}" if rest else base
        return self.canonical(full, _depth)

    def _module_defines(self, m: Module, name: str) -> bool:
        for st in m.tree.body:
            if isinstance(st, ast.Assign):
                for t in st.targets:
                    if isinstance(t, ast.Name) and t.id == name:
                        return True
            elif isinstance(st, ast.AnnAssign) and isinstance(st.target, ast.Name) and st.target.id == name:
                return True
        return False

    def canonical(self, full: str, _depth: int = 0) -> str:
        """Follow re-exports: ramses_tx.Command -> ramses_tx.command.Command."""
        if _depth > 8:
            return full
        if full in self.classes or full in self.funcs or full in self.modules:
            return full
        # longest module prefix
        parts = full.split(".")
        for i in range(len(parts) - 1, 0, -1):
            mod = ".".join(parts[:i])
            if mod in self.modules:
                m = self.modules[mod]
                head = parts[i]
                if head in m.imports and not (head in m.classes or head in m.funcs):
                    tgt = m.imports[head]
                    rest = ".".join(parts[i + 1 :])
                    return self.canonical(f"{tgt}.{rest}" if rest else tgt, _depth + 1)
                return full
        return full

    # -- lookup helpers ------------------------------------------------------------

    def func(self, qualname: str) -> FuncInfo:
        if qualname not in self.funcs:
            raise AnalysisError(f"anchor function not found: {qualname}")
        return self.funcs[qualname]

    def cls(self, fullname: str) -> ClassInfo:
        if fullname not in self.classes:
            raise AnalysisError(f"anchor class not found: {fullname}")
        return self.classes[fullname]

    def mod(self, name: str) -> Module:
        if name not in self.modules:
            raise AnalysisError(f"anchor module not found: {name}")
        return self.modules[name]

    def func_of_node(self, node: ast.AST) -> FuncInfo | None:
        n: ast.AST | None = node
        while n is not None:
            if id(n) in self._by_node:
                return self._by_node[id(n)]
            n = getattr(n, "parent", None)
        return None

    def functions_in(self, *prefixes: str) -> list[FuncInfo]:
        return [f for q, f in self.funcs.items() if any(q.startswith(p) for p in prefixes)]

    def is_subclass(self, sub: str, sup: str) -> bool:
        if sub == sup:
            return True
        ci = self.classes.get(sub)
        return bool(ci and any(c.fullname == sup for c in ci.mro))


def _sub_bodies(st: ast.stmt) -> list[list[ast.stmt]]:
    out = []
    for f in ("body", "orelse", "finalbody"):
        b = getattr(st, f, None)
        if isinstance(b, list) and b and isinstance(b[0], ast.stmt):
            out.append(b)
    if isinstance(st, ast.Try):
        for h in st.handlers:
            out.append(h.body)
    return out


def own_nodes(func: ast.AST):
    """Walk a function's own nodes: do not descend into nested defs/classes/lambdas."""
    stack = list(ast.iter_child_nodes(func))
    while stack:
        n = stack.pop()
        yield n
        if isinstance(n, (ast.FunctionDef, ast.AsyncFunctionDef, ast.ClassDef, ast.Lambda)):
            continue
        stack.extend(ast.iter_child_nodes(n))
