"""Helpers shared by the property checkers."""

from __future__ import annotations

import ast
from typing import Any, Iterable

from ..context import Ctx
from ..exc import ExcAnalysis, Origin, Policy
from ..loader import AnalysisError, FuncInfo, norm, own_nodes
from ..oracles import Oracles
from ..report import RuleResult

PKT_INVALID = "ramses_tx.exceptions.PacketInvalid"
PROTO_ERR = "ramses_tx.exceptions.ProtocolError"
TRANSPORT_ERR = "ramses_tx.exceptions.TransportError"
CANCELLED = "asyncio.exceptions.CancelledError"


def policy_input(ctx: Ctx) -> Policy:
    """Receive-path policy: input-dependent asserts count; table-proven discharges applied."""
    if not hasattr(ctx, "_oracles"):
        ctx._oracles = Oracles(ctx)  # type: ignore[attr-defined]
    o: Oracles = ctx._oracles  # type: ignore[attr-defined]
    return Policy(count_assert="input", name="input", discharge=o.discharge, nonzero=o.nonzero, count_index=True)


def policy_views(ctx: Ctx) -> Policy:
    """Stateful-layer policy: as policy_input, but implicit raisers count only on operands derived from received text."""
    policy_input(ctx)
    o: Oracles = ctx._oracles  # type: ignore[attr-defined]
    return Policy(count_assert="input", name="views", discharge=o.discharge, nonzero=o.nonzero, implicit_only_tainted=True, count_dt_edge=False, count_index=True)


def policy_fsm(ctx: Ctx) -> Policy:
    """policy_views + the FSM header-memo flow facts (fsmfacts.py)."""
    from ..fsmfacts import FsmFacts

    policy_input(ctx)
    o: Oracles = ctx._oracles  # type: ignore[attr-defined]
    if not hasattr(ctx, "_fsmfacts"):
        ctx._fsmfacts = FsmFacts(ctx)  # type: ignore[attr-defined]
    ff = ctx._fsmfacts  # type: ignore[attr-defined]
    return Policy(count_assert="input", name="fsm", discharge=o.discharge, nonzero=o.nonzero, implicit_only_tainted=True, count_dt_edge=False, safe_site=ff.safe_site, count_index=True)


def origin_key(o: Origin) -> str:
    return f"{o.func.qualname}:{norm(o.node)[:100]}"


def short_cls(c: str) -> str:
    return c.rsplit(".", 1)[-1]


def admitted(ea: ExcAnalysis, cls: str, allow: Iterable[str]) -> bool:
    return any(ea.h.is_sub(cls, a) for a in allow)


def closure_rule(
    ctx: Ctx,
    rr: RuleResult,
    ea: ExcAnalysis,
    entries: list[FuncInfo],
    allow: list[str],
    what: str,
    ignore: Iterable[str] = (),
    cut: Iterable[FuncInfo] = (),
) -> None:
    """may_raise(entry) ⊆ allow↓ for every entry; one finding per distinct root source."""
    seen: dict[str, list[str]] = {}
    details: dict[str, tuple[Origin, str, list[str]]] = {}
    for f in entries:
        rr.instances += 1
        rr.nontrivial += 1
        esc = ea.may_raise(f)
        bad = [c for c in esc if not admitted(ea, c, allow) and not admitted(ea, c, ignore)]
        if not bad:
            rr.ok({"entry": f.short, "may_raise": sorted(short_cls(c) for c in esc), "admitted": [short_cls(a) for a in allow]})
            continue
        cutset = set(cut)
        n_bad = 0
        for c in bad:
            for o, path in ea.roots(f, c):
                if cutset and any(p in cutset for p in path):
                    continue  # decided by that function's own rule
                n_bad += 1
                k = f"{short_cls(c)}@{origin_key(o)}"
                seen.setdefault(k, []).append(f.short)
                if k not in details:
                    details[k] = (o, c, [p.short for p in path])
        if not n_bad:
            rr.ok({"entry": f.short, "may_raise_outside_cut": []})
    for k, ents in seen.items():
        o, c, path = details[k]
        rr.fail(
            k,
            o.where(),
            f"{short_cls(c)} can leave {what} (admitted: {', '.join(short_cls(a) for a in allow)}): "
            f"{o.kind} {o.detail} in {o.func.short}",
            [f"entry points: {', '.join(sorted(set(ents)))}", f"source: {norm(o.node)[:160]}", "call path: " + " > ".join(path)],
        )


def find_calls(f: FuncInfo, pred) -> list[ast.Call]:
    return [n for n in own_nodes(f.node) if isinstance(n, ast.Call) and pred(n)]


def call_name(c: ast.Call) -> str:
    try:
        return ast.unparse(c.func)
    except Exception:
        return ""


def attr_name(c: ast.Call) -> str:
    return c.func.attr if isinstance(c.func, ast.Attribute) else (c.func.id if isinstance(c.func, ast.Name) else "")


def fold_flag(ctx: Ctx, rr: RuleResult, module: str, name: str, expect: Any, why: str) -> None:
    rr.instances += 1
    v = ctx.consts.get(module, name)
    from ..consteval import TOP

    if v is TOP:
        raise AnalysisError(f"{module}.{name} cannot be folded")
    rr.nontrivial += 1
    if v == expect and type(v) is type(expect):
        rr.ok({"const": f"{module}.{name}", "value": v})
    else:
        m = ctx.repo.mod(module)
        rr.fail(f"{module}.{name}", m.rel, f"{name} folds to {v!r}, expected {expect!r}: {why}")


def require(cond: bool, msg: str) -> None:
    if not cond:
        raise AnalysisError(msg)


def dead_by_flag(ctx: Ctx, f: FuncInfo, node: ast.AST) -> bool:
    """Is node inside a branch whose test folds to a constant that excludes it (e.g. `if _DBG_DISABLE_QOS:` with the flag False)?"""
    from ..consteval import TOP

    child = node
    p = getattr(node, "parent", None)
    while p is not None and not isinstance(p, (ast.FunctionDef, ast.AsyncFunctionDef)):
        if isinstance(p, ast.If):
            try:
                v = ctx.consts.eval_in(f, p.test)
            except Exception:
                v = TOP
            if v is not TOP:
                if child in p.body and not v:
                    return True
                if child in p.orelse and v:
                    return True
        child = p
        p = getattr(p, "parent", None)
    return False


def borrow(ctx: Ctx, out: list, module: str, rules: list[str], why: str) -> None:
    """Include rules decided by a sibling property's module (the mechanism is shared); rule ids become e.g. 'R3@C06'."""
    import importlib

    if getattr(ctx, "_in_borrow", False):
        return  # a borrowed module does not borrow in turn
    mod = importlib.import_module(f"ramlint.props.{module}")
    cache = ctx.__dict__.setdefault("_borrow_cache", {})
    if module not in cache:
        ctx._in_borrow = True  # type: ignore[attr-defined]
        try:
            cache[module] = mod.check(ctx)
        finally:
            ctx._in_borrow = False  # type: ignore[attr-defined]
    for rr in cache[module]:
        if rr.rule in rules:
            import copy

            r2 = copy.copy(rr)
            r2.rule = f"{rr.rule}@{module.upper()}"
            r2.title = f"{rr.title} (shared with {module.upper()}: {why})"
            r2.findings = [copy.copy(f) for f in rr.findings]
            for f in r2.findings:
                f.rule = r2.rule
            out.append(r2)


# ---- copy propagation: rules match on what a local *is*, not on what it is called ----------------------


def single_defs(fn_node: ast.AST) -> dict[str, ast.expr]:
    """Local names of a function that are bound exactly once, by a plain `name = <expr>` (no augmented/loop/with/walrus/tuple
    binding, not a parameter): name -> defining expression."""
    counts: dict[str, int] = {}
    defs: dict[str, ast.expr] = {}
    params = set()
    if isinstance(fn_node, (ast.FunctionDef, ast.AsyncFunctionDef)):
        a = fn_node.args
        params = {x.arg for x in a.posonlyargs + a.args + a.kwonlyargs} | ({a.vararg.arg} if a.vararg else set()) | ({a.kwarg.arg} if a.kwarg else set())
    for n in own_nodes(fn_node):
        tgts: list[ast.expr] = []
        val = None
        if isinstance(n, ast.Assign):
            tgts, val = list(n.targets), n.value
        elif isinstance(n, ast.AnnAssign) and n.value is not None:
            tgts, val = [n.target], n.value
        elif isinstance(n, (ast.AugAssign,)):
            tgts = [n.target]
        elif isinstance(n, (ast.For, ast.AsyncFor, ast.comprehension)):
            tgts = [n.target]
        elif isinstance(n, ast.NamedExpr):
            tgts = [n.target]
        elif isinstance(n, (ast.With, ast.AsyncWith)):
            tgts = [i.optional_vars for i in n.items if i.optional_vars is not None]
        elif isinstance(n, ast.ExceptHandler) and n.name:
            counts[n.name] = counts.get(n.name, 0) + 2
        for t in tgts:
            # `a, b = x, y` binds element-wise (no starred element on either side)
            if isinstance(n, ast.Assign) and isinstance(t, (ast.Tuple, ast.List)) and isinstance(val, (ast.Tuple, ast.List)) and len(t.elts) == len(val.elts) and not any(isinstance(z, ast.Starred) for z in list(t.elts) + list(val.elts)) and all(isinstance(z, ast.Name) for z in t.elts):
                bound = {z.id for z in t.elts}  # type: ignore[union-attr]
                reads_bound = any(isinstance(y, ast.Name) and y.id in bound for v0 in val.elts for y in ast.walk(v0))
                for z, v0 in zip(t.elts, val.elts):
                    counts[z.id] = counts.get(z.id, 0) + (2 if reads_bound else 1)  # type: ignore[union-attr]
                    if not reads_bound:
                        defs[z.id] = v0  # type: ignore[union-attr]
                continue
            for x in ast.walk(t):
                if isinstance(x, ast.Name) and isinstance(x.ctx, (ast.Store, ast.Del)):
                    plain = isinstance(n, (ast.Assign, ast.AnnAssign)) and t is x and val is not None
                    counts[x.id] = counts.get(x.id, 0) + (1 if plain else 2)
                    if plain:
                        defs[x.id] = val  # type: ignore[assignment]
    return {k: v for k, v in defs.items() if counts.get(k) == 1 and k not in params}


def expand(fn_node: ast.AST, e: ast.AST, depth: int = 4, pure_only: bool = True) -> ast.AST:
    """`e` with every singly-defined local replaced by its definition (recursively): hoisting an expression into a local, or
    inlining one, does not change what a rule sees. Only side-effect-free definitions are inlined (names, attributes,
    subscripts, constants, arithmetic, f-strings, tuples) - a call result is not duplicated."""
    defs = single_defs(fn_node)

    def pure(x: ast.AST) -> bool:
        return not any(isinstance(y, (ast.Call, ast.Await, ast.Yield, ast.YieldFrom, ast.NamedExpr, ast.Lambda)) for y in ast.walk(x))

    def clone(node, d):
        if isinstance(node, ast.Name) and isinstance(node.ctx, ast.Load) and node.id in defs and d > 0 and (not pure_only or pure(defs[node.id])):
            return clone(defs[node.id], d - 1)
        if isinstance(node, ast.AST):
            new = type(node)()
            for fld in node._fields:
                v = getattr(node, fld, None)
                setattr(new, fld, [clone(x, d) for x in v] if isinstance(v, list) else clone(v, d))
            for a in ("lineno", "col_offset", "end_lineno", "end_col_offset"):
                if hasattr(node, a):
                    setattr(new, a, getattr(node, a))
            return new
        return node

    return clone(e, depth)


def xnorm(fn_node: ast.AST, e: ast.AST) -> str:
    """norm() of the copy-propagated expression."""
    return norm(expand(fn_node, e))


# ---- string templates: what text an expression builds, independent of how it is spelled ----------------


def str_template(fn_node: ast.AST, e: ast.AST) -> list[tuple[str, str]]:
    """[("lit", text) | ("var", normalised expression[:spec])]: the text an expression builds, whether it is written as an
    f-string, with +, str.format() or sep.join((...)); locals are copy-propagated first."""
    import string as _string

    def walk(x: ast.AST) -> list[tuple[str, str]]:
        if isinstance(x, ast.Constant) and isinstance(x.value, str):
            return [("lit", x.value)]
        if isinstance(x, ast.JoinedStr):
            out: list[tuple[str, str]] = []
            for v in x.values:
                if isinstance(v, ast.Constant):
                    out.append(("lit", str(v.value)))
                elif isinstance(v, ast.FormattedValue):
                    spec = ""
                    if v.format_spec is not None:
                        spec = ":" + "".join(str(p.value) if isinstance(p, ast.Constant) else "{" + norm(p) + "}" for p in v.format_spec.values)  # type: ignore[attr-defined]
                    inner = walk(v.value) if spec == "" and v.conversion in (-1, 115) else None
                    out += inner if inner and all(k == "lit" for k, _ in inner) else [("var", norm(v.value) + spec)]
            return out
        if isinstance(x, ast.BinOp) and isinstance(x.op, ast.Add):
            return walk(x.left) + walk(x.right)
        if isinstance(x, ast.Call) and isinstance(x.func, ast.Attribute) and x.func.attr == "format" and isinstance(x.func.value, ast.Constant) and isinstance(x.func.value.value, str) and not x.keywords:
            out = []
            auto = 0
            try:
                for lit, field, spec, _conv in _string.Formatter().parse(x.func.value.value):
                    if lit:
                        out.append(("lit", lit))
                    if field is not None:
                        i = auto if field == "" else int(field)
                        auto += 1
                        out.append(("var", norm(x.args[i]) + (":" + spec if spec else "")))
                return out
            except (ValueError, IndexError):
                return [("var", norm(x))]
        if isinstance(x, ast.Call) and isinstance(x.func, ast.Attribute) and x.func.attr == "join" and isinstance(x.func.value, ast.Constant) and isinstance(x.func.value.value, str) and len(x.args) == 1 and isinstance(x.args[0], (ast.Tuple, ast.List)):
            out = []
            for i, el in enumerate(x.args[0].elts):
                if i:
                    out.append(("lit", x.func.value.value))
                out += [("var", "*" + norm(el.value))] if isinstance(el, ast.Starred) else walk(el)
            return out
        if isinstance(x, ast.Call) and isinstance(x.func, ast.Name) and x.func.id == "str" and len(x.args) == 1:
            return walk(x.args[0])
        return [("var", norm(x))]

    parts = walk(expand(fn_node, e))
    merged: list[tuple[str, str]] = []
    for k, v in parts:
        if k == "lit" and merged and merged[-1][0] == "lit":
            merged[-1] = ("lit", merged[-1][1] + v)
        elif not (k == "lit" and v == ""):
            merged.append((k, v))
    return merged


# ---- boolean reasoning over the atoms of a test (truth-table; no solver) -------------------------------


def _bool_atoms(t: ast.expr, out: list[str]) -> None:
    if isinstance(t, ast.BoolOp):
        for v in t.values:
            _bool_atoms(v, out)
    elif isinstance(t, ast.UnaryOp) and isinstance(t.op, ast.Not):
        _bool_atoms(t.operand, out)
    else:
        k = _atom_key(t)[0]
        if k not in out:
            out.append(k)


def _atom_key(t: ast.expr) -> tuple[str, bool]:
    """(canonical atom text, polarity): `X is not None` is the negation of `X is None`, `a != b` of `a == b`, `x not in y` of `x in y`."""
    if isinstance(t, ast.Compare) and len(t.ops) == 1:
        op = t.ops[0]
        flip = {ast.IsNot: ast.Is, ast.NotEq: ast.Eq, ast.NotIn: ast.In}
        pol = True
        for neg, pos in flip.items():
            if isinstance(op, neg):
                op, pol = pos(), False
        l, r = t.left, t.comparators[0]
        if isinstance(op, (ast.Eq, ast.Is)) and norm(r) < norm(l):  # symmetric: `a == b` and `b == a` are one atom
            l, r = r, l
        return norm(ast.Compare(left=l, ops=[op], comparators=[r])), pol
    return norm(t), True


def _bool_eval(t: ast.expr, val: dict[str, bool]) -> bool:
    if isinstance(t, ast.BoolOp):
        vs = [_bool_eval(v, val) for v in t.values]
        return all(vs) if isinstance(t.op, ast.And) else any(vs)
    if isinstance(t, ast.UnaryOp) and isinstance(t.op, ast.Not):
        return not _bool_eval(t.operand, val)
    k, pol = _atom_key(t)
    return val[k] if pol else not val[k]


def edge_implies(test: ast.expr, edge: bool, goal: ast.expr) -> bool:
    """For every truth assignment of the atoms under which `test` evaluates to `edge`, `goal` is true (and some such assignment
    exists). Atoms are the maximal non-boolean subexpressions, compared by normalised text (negated comparison forms folded)."""
    import itertools

    atoms: list[str] = []
    _bool_atoms(test, atoms)
    _bool_atoms(goal, atoms)
    if len(atoms) > 10:
        return False
    sat = False
    for bits in itertools.product((False, True), repeat=len(atoms)):
        val = dict(zip(atoms, bits))
        if _bool_eval(test, val) == edge:
            sat = True
            if not _bool_eval(goal, val):
                return False
    return sat


def _always_leaves(body: list[ast.stmt]) -> bool:
    if not body:
        return False
    last = body[-1]
    if isinstance(last, (ast.Return, ast.Raise, ast.Continue, ast.Break)):
        return True
    if isinstance(last, ast.If) and last.orelse:
        return _always_leaves(last.body) and _always_leaves(last.orelse)
    return False


def facts_at(stmt: ast.AST) -> list[tuple[ast.expr, bool]]:
    """(test, value) pairs known at a statement from the structure around it: enclosing if/else arms, and earlier sibling
    `if t: <always leaves>` (then t is false afterwards) / `if t: ... else: <always leaves>` (then t is true)."""
    out: list[tuple[ast.expr, bool]] = []
    child: ast.AST = stmt
    p = getattr(stmt, "parent", None)
    while p is not None and not isinstance(p, (ast.FunctionDef, ast.AsyncFunctionDef, ast.Lambda, ast.Module)):
        if isinstance(p, (ast.If, ast.While)):
            if child in p.body:
                out.append((p.test, True))
            elif child in p.orelse and isinstance(p, ast.If):
                out.append((p.test, False))
        for fld in ("body", "orelse", "finalbody"):
            blk = getattr(p, fld, None)
            if isinstance(blk, list) and child in blk:
                for st in blk[: blk.index(child)]:
                    if isinstance(st, ast.If):
                        if _always_leaves(st.body) and not _always_leaves(st.orelse):
                            out.append((st.test, False))
                        elif st.orelse and _always_leaves(st.orelse) and not _always_leaves(st.body):
                            out.append((st.test, True))
        child, p = p, getattr(p, "parent", None)
    if isinstance(p, (ast.FunctionDef, ast.AsyncFunctionDef)) and child in p.body:
        for st in p.body[: p.body.index(child)]:
            if isinstance(st, ast.If):
                if _always_leaves(st.body) and not _always_leaves(st.orelse):
                    out.append((st.test, False))
                elif st.orelse and _always_leaves(st.orelse) and not _always_leaves(st.body):
                    out.append((st.test, True))
    return out


def known_at(stmt: ast.AST, goal_src: str, fn_node: ast.AST | None = None) -> bool:
    """Some structural fact at `stmt` implies the goal (a python boolean expression over atom texts, given as source). With
    fn_node, singly-defined locals in the tests are replaced by their definitions first (`s = self._state`)."""
    goal = ast.parse(goal_src, mode="eval").body
    return any(edge_implies(expand(fn_node, t) if fn_node is not None else t, v, goal) for t, v in facts_at(stmt))  # type: ignore[arg-type]


# ---- inlining of trivial pure helpers: extracting an expression into `def h(a, b): return <expr>` changes nothing ------


def inline_calls(ctx: Ctx, f: FuncInfo, e: ast.AST, depth: int = 2) -> ast.AST:
    """`e` with every call of a repository function whose body is a single `return <expression over its parameters>` replaced
    by that expression (arguments substituted). Calls with starred/keyword-only oddities or impure callees are left alone."""

    def body_expr(c: FuncInfo) -> ast.expr | None:
        stmts = [s for s in c.node.body if not (isinstance(s, ast.Expr) and isinstance(s.value, ast.Constant))]
        if len(stmts) == 1 and isinstance(stmts[0], ast.Return) and stmts[0].value is not None and not c.is_async:
            return stmts[0].value
        # a boolean decision list: `if t1: return X1` ... `return Y` (each if-body a lone return) is the formula
        # (t1 and X1) or (not t1 and t2 and X2) or ... or (not t1 and ... and Y); constant True/False arms are simplified away
        if c.is_async or not stmts or not isinstance(stmts[-1], ast.Return) or stmts[-1].value is None:
            return None
        if not all(isinstance(s_, ast.If) and not s_.orelse and len(s_.body) == 1 and isinstance(s_.body[0], ast.Return) and s_.body[0].value is not None for s_ in stmts[:-1]):
            return None
        terms: list[ast.expr] = []
        negs: list[ast.expr] = []
        arms = [(s_.test, s_.body[0].value) for s_ in stmts[:-1]] + [(None, stmts[-1].value)]  # type: ignore[union-attr]
        for t, x in arms:
            conj = list(negs) + ([t] if t is not None else [])
            if isinstance(x, ast.Constant) and x.value is False:
                pass
            elif isinstance(x, ast.Constant) and x.value is True:
                if not conj:
                    return None
                terms.append(conj[0] if len(conj) == 1 else ast.BoolOp(op=ast.And(), values=conj))
            elif isinstance(x, ast.Constant):
                return None  # not a predicate
            else:
                terms.append(ast.BoolOp(op=ast.And(), values=conj + [x]) if conj else x)
            if t is not None:
                negs.append(ast.UnaryOp(op=ast.Not(), operand=t))
        if not terms:
            return None
        return terms[0] if len(terms) == 1 else ast.BoolOp(op=ast.Or(), values=terms)

    def clone(node, subst, d):
        if isinstance(node, ast.Name) and node.id in subst:
            return clone(subst[node.id], {}, d)
        if isinstance(node, ast.Call) and d > 0:
            site = ctx.cg.site_of.get(id(node))
            if site is not None and len(site.callees) == 1 and not site.external and not site.unresolved:
                c = site.callees[0]
                be = body_expr(c)
                params = [a.arg for a in c.node.args.posonlyargs + c.node.args.args]
                if params and params[0] in ("self", "cls") and isinstance(node.func, ast.Attribute):
                    params = params[1:]
                if be is not None and not any(isinstance(a, ast.Starred) for a in node.args) and len(node.args) + len(node.keywords) == len(params) and all(k.arg in params for k in node.keywords):
                    binding = {p: clone(a, subst, d) for p, a in zip(params, node.args)}
                    binding.update({k.arg: clone(k.value, subst, d) for k in node.keywords})
                    return clone(be, binding, d - 1)
        if isinstance(node, ast.AST):
            new = type(node)()
            for fld in node._fields:
                v = getattr(node, fld, None)
                setattr(new, fld, [clone(x, subst, d) for x in v] if isinstance(v, list) else clone(v, subst, d))
            for a in ("lineno", "col_offset", "end_lineno", "end_col_offset"):
                if hasattr(node, a):
                    setattr(new, a, getattr(node, a))
            return new
        return node

    return clone(e, {}, depth)


def short_circuit_facts(node: ast.AST) -> "list[tuple[ast.expr, bool]]":
    """(expression, value) pairs known when `node` is evaluated, from the expression context alone: earlier operands of an
    enclosing `or` are false / of an `and` are true; the test of an enclosing conditional expression has the arm's value."""
    out: list[tuple[ast.expr, bool]] = []
    child = node
    p = getattr(node, "parent", None)
    while p is not None and isinstance(p, ast.expr):
        if isinstance(p, ast.BoolOp):
            i = next((k for k, v in enumerate(p.values) if v is child), None)
            if i:
                for v in p.values[:i]:
                    out.append((v, isinstance(p.op, ast.And)))
        elif isinstance(p, ast.IfExp):
            if child is p.body:
                out.append((p.test, True))
            elif child is p.orelse:
                out.append((p.test, False))
        child, p = p, getattr(p, "parent", None)
    return out


def module_scope(ctx: Ctx, f, stop: tuple = ()) -> list:
    """f, its nested functions and the same-module repository functions it (transitively) calls - extracting part of a codec into
    a helper keeps the anchor in scope."""
    out, todo = [], [f]
    while todo:
        g = todo.pop()
        if g in out or g in stop:
            continue
        out.append(g)
        todo += list(g.nested.values())
        for cs in ctx.cg.calls_in(g):
            for c in cs.callees:
                if c.module.name == f.module.name and c not in out:
                    todo.append(c)
    return out


def pool(funcs: list) -> list:
    return [(g, n) for g in funcs for n in own_nodes(g.node)]


def is_que(fn_node: ast.AST, e: ast.AST) -> bool:
    """`e` denotes the FSM's send queue (`self._que`), directly or through a local alias (`que = self._que`)."""
    return "_que" in norm(e) or "_que" in norm(expand(fn_node, e, pure_only=False))


def private_parts(ctx: Ctx, f) -> "list[tuple[Any, dict[str, str]]]":
    """Synchronous methods of f's class that only f calls - a part of f that was given a name. For each: the map from the
    callee's parameter names to the text of the argument f passes (one call site)."""
    out = []
    if f.cls is None:
        return out
    for cs in ctx.cg.calls_in(f):
        c = cs.node
        if not (isinstance(c, ast.Call) and isinstance(c.func, ast.Attribute) and norm(c.func.value) == "self"):
            continue
        for g in cs.callees:
            if g is f or g.is_async or g.cls is None or g.cls not in f.cls.mro or any(g is x for x, _m in out):
                continue
            callers = {s0.caller.qualname for s0 in ctx.cg.callers_of(g)}
            if callers != {f.qualname}:
                continue
            params = [a.arg for a in g.node.args.posonlyargs + g.node.args.args]
            if params and params[0] in ("self", "cls"):
                params = params[1:]
            amap = {pn: norm(a) for pn, a in zip(params, c.args)}
            amap.update({k.arg: norm(k.value) for k in c.keywords if k.arg})
            out.append((g, amap))
    return out


# ---- possibly-undefined locals (UnboundLocalError): mypy's opt-in diagnostic as a fact, with two repository idioms discharged ------


def _regex_widths(items: Any, cap: int = 200) -> set[int]:
    """All total widths (in characters) of strings a parsed regex fragment can match, up to `cap`."""
    import re

    C = re._constants  # type: ignore[attr-defined]
    acc = {0}
    for op, av in items:
        if op in (C.LITERAL, C.NOT_LITERAL, C.IN, C.ANY):
            ws = {1}
        elif op is C.SUBPATTERN:
            ws = _regex_widths(av[3], cap)
        elif op is C.BRANCH:
            ws = set()
            for alt in av[1]:
                ws |= _regex_widths(alt, cap)
        elif op in (C.MAX_REPEAT, C.MIN_REPEAT):
            lo, hi, sub = av
            sw = _regex_widths(sub, cap)
            ws = set()
            cur = {0}
            n = 0
            top = cap if hi is C.MAXREPEAT else hi
            while n <= top and cur:
                if n >= lo:
                    ws |= cur
                cur = {a + b for a in cur for b in sw if a + b <= cap}
                n += 1
                if n > cap:
                    break
        elif op is C.AT:
            ws = {0}
        else:
            raise AnalysisError(f"unsupported regex token {op}")
        acc = {a + b for a in acc for b in ws if a + b <= cap}
    return acc


def payload_lengths(ctx: Ctx, code: str) -> set[int] | None:
    """Payload lengths in bytes admitted by the code's regexes in CODES_SCHEMA (all verbs)."""
    import re

    sch = ctx.const("ramses_tx.ramses", "CODES_SCHEMA")
    row = sch.get(code) if hasattr(sch, "get") else None
    if not row:
        return None
    out: set[int] = set()
    for k, v in row.items():
        pat = getattr(v, "pattern", v)
        if not isinstance(pat, str) or not k.strip() in ("I", "RQ", "RP", "W"):
            continue
        try:
            ws = _regex_widths(list(re._parser.parse(pat)))  # type: ignore[attr-defined]
        except Exception:  # noqa: BLE001
            return None
        out |= {w // 2 for w in ws if w % 2 == 0}
    return out or None


def _eval_len_test(t: ast.expr, L: int, subj: str = "msg.len") -> bool | None:
    if isinstance(t, ast.BoolOp):
        vals = [_eval_len_test(v, L, subj) for v in t.values]
        if isinstance(t.op, ast.And):
            return False if any(v is False for v in vals) else (True if all(v is True for v in vals) else None)
        return True if any(v is True for v in vals) else (False if all(v is False for v in vals) else None)
    if isinstance(t, ast.UnaryOp) and isinstance(t.op, ast.Not):
        v = _eval_len_test(t.operand, L, subj)
        return None if v is None else not v
    if isinstance(t, ast.Compare) and len(t.ops) == 1 and norm(t.left) == subj:
        try:
            rhs = ast.literal_eval(t.comparators[0])
        except Exception:  # noqa: BLE001
            return None
        op = t.ops[0]
        try:
            return {ast.Eq: lambda: L == rhs, ast.NotEq: lambda: L != rhs, ast.Lt: lambda: L < rhs, ast.LtE: lambda: L <= rhs, ast.Gt: lambda: L > rhs, ast.GtE: lambda: L >= rhs, ast.In: lambda: L in rhs, ast.NotIn: lambda: L not in rhs}[type(op)]()
        except Exception:  # noqa: BLE001
            return None
    return None


def _defined_on_all_paths(fn: ast.AST, name: str, use_line: int, L: int | None) -> bool:
    """Abstractly runs the function body tracking only 'is `name` bound' (tests on msg.len are evaluated for the given length,
    every other test takes both arms): True when no path reaches the use with the name unbound."""
    bad = [False]

    def binds(st: ast.stmt) -> bool:
        for x in ast.walk(st):
            if isinstance(x, ast.Name) and x.id == name and isinstance(x.ctx, ast.Store):
                return True
        return False

    def uses_here(node: ast.AST) -> bool:
        return any(isinstance(x, ast.Name) and x.id == name and isinstance(x.ctx, ast.Load) and x.lineno == use_line for x in ast.walk(node))

    def run(body: list[ast.stmt], states: set[bool]) -> set[bool]:
        for st in body:
            if not states:
                return states
            if isinstance(st, ast.If):
                if uses_here(st.test) and False in states:
                    bad[0] = True
                v = _eval_len_test(st.test, L) if L is not None else None
                outs: set[bool] = set()
                if v is not False:
                    outs |= run(st.body, set(states))
                if v is not True:
                    outs |= run(st.orelse, set(states))
                states = outs
            elif isinstance(st, (ast.For, ast.AsyncFor, ast.While)):
                hdr = st.iter if not isinstance(st, ast.While) else st.test
                if uses_here(hdr) and False in states:
                    bad[0] = True
                inner = set(states)
                if not isinstance(st, ast.While) and binds(ast.Expr(value=st.target)):  # type: ignore[arg-type]
                    inner = {True}
                after = run(st.body, inner)
                states = states | after | run(st.orelse, states | after)
            elif isinstance(st, ast.Try):
                b = run(st.body, set(states))
                h: set[bool] = set()
                for hd in st.handlers:
                    h |= run(hd.body, states | b)
                e = run(st.orelse, b) if st.orelse else b
                states = e | h
                if st.finalbody:
                    states = run(st.finalbody, states)
            elif isinstance(st, (ast.With, ast.AsyncWith)):
                states = run(st.body, states)
            elif isinstance(st, (ast.Return, ast.Raise)):
                if uses_here(st) and False in states:
                    bad[0] = True
                return set()
            elif isinstance(st, (ast.FunctionDef, ast.AsyncFunctionDef, ast.ClassDef)):
                continue
            else:
                if uses_here(st) and False in states and not (isinstance(st, (ast.Assign, ast.AnnAssign)) and binds(st) and not any(isinstance(x, ast.Name) and x.id == name and isinstance(x.ctx, ast.Load) for x in ast.walk(st))):
                    bad[0] = True
                if binds(st):
                    states = {True}
        return states

    run(list(fn.body), {False})  # type: ignore[attr-defined]
    return not bad[0]


def undefined_locals_rule(ctx: Ctx, rr: RuleResult, funcs: Iterable[FuncInfo], what: str) -> int:
    """Every read of a possibly-unbound local (mypy `possibly-undefined`, kept as a fact by typefacts.py) inside `funcs` is an
    UnboundLocalError waiting for the input that takes the unbinding path. Discharged when the binding is proven for every payload
    length the code's regexes admit (parsers branch on msg.len), or when definition and use sit under the same constant flag."""
    fset = set(funcs)
    by_mod = {m.rel: m for m in ctx.repo.modules.values()}
    n = 0
    seen: set[tuple[str, str]] = set()
    for rel, line, name in ctx.tf.undefined:
        m = by_mod.get(rel)
        if m is None:
            continue
        cands = [f for f in ctx.repo.funcs.values() if f.module is m and f.node.lineno <= line <= (f.node.end_lineno or f.node.lineno)]
        if not cands:
            continue
        f = max(cands, key=lambda g: g.node.lineno)
        if f not in fset or (f.qualname, name) in seen:
            continue
        seen.add((f.qualname, name))
        n += 1
        rr.instances += 1
        rr.nontrivial += 1
        lines = sorted(ln for r2, ln, n2 in ctx.tf.undefined if r2 == rel and n2 == name and f.node.lineno <= ln <= (f.node.end_lineno or 0))
        why = None
        code = f.name[len("parser_"):].upper() if f.name.startswith("parser_") else None
        lens = payload_lengths(ctx, code) if code else None
        if lens:
            if all(_defined_on_all_paths(f.node, name, ln, L) for ln in lines for L in sorted(lens)):
                why = f"bound on every path for each payload length the {code} regexes admit ({sorted(lens)[:8]}{'...' if len(lens) > 8 else ''})"
        if why is None:
            # definition(s) and use(s) under the same module-constant flag
            uses = [x for x in own_nodes(f.node) if isinstance(x, ast.Name) and x.id == name and isinstance(x.ctx, ast.Load) and x.lineno in lines]
            defs = [x for x in own_nodes(f.node) if isinstance(x, ast.Name) and x.id == name and isinstance(x.ctx, ast.Store)]

            def flag_of(x: ast.AST) -> str | None:
                p = getattr(x, "parent", None)
                c = x
                while p is not None and p is not f.node:
                    if isinstance(p, ast.If) and c in p.body and isinstance(p.test, ast.Name) and p.test.id.isupper() or (isinstance(p, ast.If) and c in p.body and isinstance(p.test, ast.Name) and p.test.id.startswith("_DBG")):
                        return p.test.id  # type: ignore[union-attr]
                    c, p = p, getattr(p, "parent", None)
                return None

            fu = {flag_of(u) for u in uses}
            fd = {flag_of(d) for d in defs}
            if len(fu) == 1 and None not in fu and fu == fd:
                why = f"definition and use both sit under the module constant {next(iter(fu))}"
        if why:
            rr.ok({"local": f"{f.short}: {name}", "discharged_by": why})
        else:
            rr.fail(f"{f.short}:unbound-local:{name}", f"{rel}:{lines[0]}", f"`{name}` is read in {f.short} on a path where it was never bound (UnboundLocalError can leave {what}): a branch chain that binds it does not cover every input" + (f" - the {code} regexes admit payload lengths {sorted(lens)}" if lens else ""))
    return n


# ---- folding an arithmetic/boolean expression over given values of its free terms (finite constant folding of source) ----------


class Unfoldable(Exception):
    pass


def fold_expr(fn_node: ast.AST, e: ast.AST, env: dict[str, Any], consts: Any = None, f: Any = None, depth: int = 0) -> Any:
    """Value of `e` when every sub-expression whose text is a key of `env` has that value; locals are copy-propagated; only
    arithmetic, comparisons, boolean operators, conditional expressions and min/max/int/round/abs are understood."""
    import math

    if depth > 16:
        raise Unfoldable("depth")
    txt = norm(e)
    if txt in env:
        return env[txt]
    if isinstance(e, ast.Constant):
        return e.value
    if isinstance(e, ast.Name):
        d = single_defs(fn_node).get(e.id) if fn_node is not None else None
        if d is not None:
            return fold_expr(fn_node, d, env, consts, f, depth + 1)
    if isinstance(e, (ast.Tuple, ast.List, ast.Set)):
        return tuple(fold_expr(fn_node, x, env, consts, f, depth + 1) for x in e.elts)
    if isinstance(e, (ast.Name, ast.Attribute)) and consts is not None and f is not None:
        try:
            v = consts.eval_in(f, e)
            if isinstance(v, (int, float, str, bool, tuple, list, set, frozenset, dict)) or v is None:
                return v
        except Exception:  # noqa: BLE001
            pass
        raise Unfoldable(txt)
    if isinstance(e, ast.UnaryOp):
        v = fold_expr(fn_node, e.operand, env, consts, f, depth + 1)
        return -v if isinstance(e.op, ast.USub) else (not v if isinstance(e.op, ast.Not) else +v)
    if isinstance(e, ast.BinOp):
        a, b = fold_expr(fn_node, e.left, env, consts, f, depth + 1), fold_expr(fn_node, e.right, env, consts, f, depth + 1)
        ops = {ast.Add: lambda: a + b, ast.Sub: lambda: a - b, ast.Mult: lambda: a * b, ast.Div: lambda: a / b, ast.FloorDiv: lambda: a // b, ast.Mod: lambda: a % b, ast.Pow: lambda: a**b, ast.LShift: lambda: a << b, ast.RShift: lambda: a >> b, ast.BitAnd: lambda: a & b, ast.BitOr: lambda: a | b}
        if type(e.op) not in ops:
            raise Unfoldable(txt)
        return ops[type(e.op)]()
    if isinstance(e, ast.BoolOp):
        res = None
        for v0 in e.values:
            res = fold_expr(fn_node, v0, env, consts, f, depth + 1)
            if isinstance(e.op, ast.And) and not res:
                return res
            if isinstance(e.op, ast.Or) and res:
                return res
        return res
    if isinstance(e, ast.IfExp):
        return fold_expr(fn_node, e.body if fold_expr(fn_node, e.test, env, consts, f, depth + 1) else e.orelse, env, consts, f, depth + 1)
    if isinstance(e, ast.Compare):
        left = fold_expr(fn_node, e.left, env, consts, f, depth + 1)
        for op, c in zip(e.ops, e.comparators):
            right = fold_expr(fn_node, c, env, consts, f, depth + 1)
            ok = {ast.Lt: lambda: left < right, ast.LtE: lambda: left <= right, ast.Gt: lambda: left > right, ast.GtE: lambda: left >= right, ast.Eq: lambda: left == right, ast.NotEq: lambda: left != right, ast.Is: lambda: left is right, ast.IsNot: lambda: left is not right, ast.In: lambda: left in right, ast.NotIn: lambda: left not in right}.get(type(op))
            if ok is None:
                raise Unfoldable(txt)
            if not ok():
                return False
            left = right
        return True
    if isinstance(e, ast.Call) and norm(e.func) in ("min", "max", "int", "float", "round", "abs", "math.ceil", "math.floor") and not e.keywords:
        a = [fold_expr(fn_node, x, env, consts, f, depth + 1) for x in e.args]
        return {"min": min, "max": max, "int": lambda *v: int(v[0]), "float": lambda *v: float(v[0]), "round": round, "abs": lambda *v: abs(v[0]), "math.ceil": lambda *v: math.ceil(v[0]), "math.floor": lambda *v: math.floor(v[0])}[norm(e.func)](*a)
    raise Unfoldable(txt)


# ---- the protocol FSM's two scheduled functions, found by what they do (a closure of set_state or a method of the context) ---------


def fsm_roles(ctx: Ctx) -> "tuple[FuncInfo, FuncInfo]":
    """(effect function, expiry coroutine) of ramses_tx.protocol_fsm.ProtocolContext: the expiry coroutine is the async function of
    the context that sleeps and then calls set_state(); the effect function is the synchronous one that creates the task running it."""
    repo = ctx.repo
    mod = "ramses_tx.protocol_fsm"
    cands = [g for g in repo.funcs.values() if g.module.name == mod and g.qualname.startswith(f"{mod}.ProtocolContext.")]
    exp = [g for g in cands if g.is_async and any(isinstance(n, ast.Await) and "sleep" in norm(n.value) for n in own_nodes(g.node)) and any(isinstance(c, ast.Call) and isinstance(c.func, ast.Attribute) and c.func.attr == "set_state" for c in own_nodes(g.node))]
    if len(exp) != 1:
        raise AnalysisError(f"protocol_fsm: the expiry coroutine (sleep, then set_state) was not found uniquely: {[g.short for g in exp]}")
    eff = [g for g in cands if not g.is_async and g is not exp[0] and any(isinstance(c, ast.Call) and norm(c.func).endswith("create_task") and c.args and isinstance(c.args[0], ast.Call) and norm(c.args[0].func).split(".")[-1] == exp[0].name for c in own_nodes(g.node))]
    if len(eff) != 1:
        raise AnalysisError(f"protocol_fsm: the function that arms the expiry timer was not found uniquely: {[g.short for g in eff]}")
    return eff[0], exp[0]
