"""C07 - Every send completes in bounded time with the right packet or a protocol error."""

from __future__ import annotations

import ast

from ..context import Ctx
from ..loader import AnalysisError, FuncInfo, norm, own_nodes
from ..report import RuleResult
from .common import PROTO_ERR, borrow, closure_rule, dead_by_flag, fold_flag, policy_fsm

META = {
    "explanation": (
        "Necessary conditions: C07.R1 every await on the caller's path of PortProtocol.send_cmd is either a coroutine of the send path "
        "itself or asyncio.wait_for(fut, timeout=T) whose only reaching definition of T is min(qos.timeout, SEND_TIMEOUT_LIMIT) with "
        "SEND_TIMEOUT_LIMIT folding to 20.0 - no unbounded wait; the impersonation alert is sent only through _send_cmd and only for a "
        "non-gateway source. C07.R2 only ProtocolError↓ can leave PortProtocol.send_cmd (every class that flows into the future's "
        "set_exception is converted). C07.R3 every set_state(result=X) passes the packet parameter of a pkt_rcvd dominated by a read of "
        "its header, or _echo_pkt (whose only writers store such a packet). C07.R4 ProtocolContext._fut is only written together with "
        "_cmd and _qos. C07.R5 the QoS/impersonation debug flags fold to False. "
        "Not decided: completion time under arbitrary schedules beyond the cap being in place; ReadProtocol (raises by design)."
    ),
}
META["explanation"] += " C07.R1 also: QosParams never raises the caller's timeout."

P = "ramses_tx.protocol"
F = "ramses_tx.protocol_fsm"


def check(ctx: Ctx) -> list[RuleResult]:
    repo = ctx.repo
    pol = policy_fsm(ctx)
    ea = ctx.exc(pol)
    out: list[RuleResult] = []

    # ---- R1 ---------------------------------------------------------------------------
    r1 = RuleResult("R1", "bounded waits on the send path", "every await is a send-path coroutine or wait_for(.., timeout=min(qos.timeout, 20 s))", min_instances=6)
    entry = repo.func(f"{P}.PortProtocol.send_cmd")
    path: list[FuncInfo] = []
    todo = [entry]
    while todo:
        f = todo.pop()
        if f in path:
            continue
        path.append(f)
        for s in ctx.cg.calls_in(f):
            if s.kind == "deferred" or not s.awaited or dead_by_flag(ctx, f, s.node):
                continue
            for c in s.callees:
                if c.is_async and c.module.name in (P, F) and not (c.cls is not None and c.cls.name == "ReadProtocol"):
                    todo.append(c)
    if len(path) < 5:
        raise AnalysisError(f"send path resolved to {len(path)} coroutine(s) only")
    limit = ctx.consts.get(F, "MAX_SEND_TIMEOUT")
    pc = repo.cls(f"{F}.ProtocolContext")
    lim_expr = pc.class_attr("SEND_TIMEOUT_LIMIT")
    lim_val = ctx.consts.eval_in(repo.mod(F), lim_expr) if lim_expr is not None else None
    n_wait_for = 0
    for f in path:
        for n in own_nodes(f.node):
            if not isinstance(n, ast.Await) or dead_by_flag(ctx, f, n):
                continue
            r1.instances += 1
            r1.nontrivial += 1
            v = n.value
            site = ctx.cg.site_of.get(id(v)) if isinstance(v, ast.Call) else None
            if site is not None and site.callees and all(c in path or (c.cls is not None and c.cls.name == "ReadProtocol") for c in site.callees if c.is_async) and any(c.is_async for c in site.callees):
                r1.ok({"await": f"{f.short}: {norm(v)[:60]}", "kind": "send-path coroutine"})
                continue
            if isinstance(v, ast.Call) and norm(v.func).endswith("wait_for"):
                n_wait_for += 1
                t = next((k.value for k in v.keywords if k.arg == "timeout"), v.args[1] if len(v.args) > 1 else None)
                ok = False
                why = "no timeout argument"
                if t is not None:
                    d = t
                    if isinstance(t, ast.Name):
                        defs = [a.value for a in own_nodes(f.node) if isinstance(a, ast.Assign) and any(isinstance(x, ast.Name) and x.id == t.id for x in a.targets)]
                        d = defs[0] if len(defs) == 1 else None  # type: ignore[assignment]
                        why = f"{len(defs)} definitions of {t.id}"
                    if isinstance(d, ast.Call) and norm(d.func) == "min":
                        args = [norm(a) for a in d.args]
                        has_cap = "self.SEND_TIMEOUT_LIMIT" in args
                        has_qos = "qos.timeout" in args
                        if has_cap and has_qos and len(args) == 2 and isinstance(lim_val, (int, float)) and 0 < lim_val <= 20.0:
                            ok = True
                        else:
                            why = f"min({', '.join(args)}) with SEND_TIMEOUT_LIMIT={lim_val!r}"
                    elif d is not None:
                        why = f"timeout is {norm(d)[:50]}, not min(qos.timeout, SEND_TIMEOUT_LIMIT)"
                        # however the cap is spelled (a conditional expression, hoisted locals): fold it for sample timeouts
                        from .common import Unfoldable, fold_expr

                        try:
                            if isinstance(lim_val, (int, float)) and 0 < lim_val <= 20.0 and all(fold_expr(f.node, t, {"qos.timeout": q, "self.SEND_TIMEOUT_LIMIT": lim_val}, ctx.consts, f) == min(q, lim_val) for q in (0.05, 1.0, lim_val - 0.1, lim_val, lim_val + 0.1, 3600.0)):
                                ok = True
                        except (Unfoldable, TypeError, ZeroDivisionError):
                            pass
                if ok:
                    r1.ok({"await": f"{f.short}: {norm(v)[:60]}", "timeout": norm(d), "SEND_TIMEOUT_LIMIT": lim_val})
                else:
                    r1.fail(f"{f.short}:wait_for-uncapped", f.loc(n), f"the wait on the caller's future is not capped at min(qos.timeout, {limit}): {why}")
                continue
            r1.fail(f"{f.short}:unbounded-await:{norm(v)[:50]}", f.loc(n), f"`await {norm(v)[:60]}` on the send path is neither a send-path coroutine nor a wait_for with the capped timeout: the caller could wait without bound")
    if n_wait_for < 1:
        raise AnalysisError("no wait_for() found on the send path")
    # impersonation alert: only via _send_cmd, only under src != HGI
    alert = repo.func(f"{P}.PortProtocol._send_impersonation_alert")
    for s in ctx.cg.callers_of(alert):
        r1.instances += 1
        r1.nontrivial += 1
        cfg = ctx.plain_cfg(s.caller)
        p = s.node
        while p is not None and not cfg.nodes_of(p):
            p = getattr(p, "parent", None)
        node = cfg.nodes_of(p)[0] if p is not None else None
        from .common import known_at as _known_at

        st_ = s.node
        while not isinstance(st_, ast.stmt):
            st_ = st_.parent  # type: ignore[attr-defined]
        guards = [t for t in cfg.nodes if t.kind == "test" and "cmd.src.id != HGI_DEV_ADDR.id" == norm(t.ast) and node is not None and cfg.edge_dominates(t, "true", node)]
        if guards or _known_at(st_, "cmd.src.id != HGI_DEV_ADDR.id", s.caller.node):
            r1.ok({"alert_site": f"{s.caller.short}", "guard": "cmd.src.id != HGI_DEV_ADDR.id is known at the call"})
        else:
            r1.fail(f"{s.caller.short}:alert-unguarded", s.caller.loc(s.node), "the impersonation alert is sent without the `cmd.src.id != HGI_DEV_ADDR.id` guard (an extra transmission ahead of every command)")
    sends_in_alert = [n for n in own_nodes(alert.node) if isinstance(n, ast.Await)]
    for n in sends_in_alert:
        if "_send_cmd" not in norm(n.value) :
            r1.fail(f"{alert.short}:alert-bypasses-_send_cmd", alert.loc(n), "the impersonation alert awaits something other than self._send_cmd (it would not be bounded by the QoS timeout)")
    # the timeout the wait is capped with is the caller's: QosParams may lower it (cap, default for None) but never raise it.
    # The defining expression of QosParams._timeout is folded for a range of caller values (constant folding, nothing is run).
    qp = repo.func("ramses_tx.typing.QosParams.__init__")
    tdefs = [n for n in own_nodes(qp.node) if isinstance(n, ast.Assign) and any(norm(t) == "self._timeout" for t in n.targets)]
    tprop = repo.funcs.get("ramses_tx.typing.QosParams.timeout")
    if len(tdefs) != 1 or tprop is None or not any(isinstance(n, ast.Return) and n.value is not None and norm(n.value) == "self._timeout" for n in own_nodes(tprop.node)):
        raise AnalysisError("QosParams: the definition of _timeout / the timeout property was not found in the expected form")
    r1.instances += 1
    r1.nontrivial += 1
    raised = []
    for v in (0.05, 0.25, 0.9, 1.0, 3.0, 19.0, 20.0, 30.0):
        try:
            got = ctx.consts.eval_in(qp, tdefs[0].value, local={"timeout": v})
        except Exception:
            got = None
        if not isinstance(got, (int, float)):
            raise AnalysisError(f"QosParams._timeout = {norm(tdefs[0].value)[:60]} does not fold for timeout={v}")
        if got > v:
            raised.append((v, got))
    if raised:
        r1.fail(f"{qp.short}:timeout-raised", qp.loc(tdefs[0]), f"QosParams turns a caller's timeout of {raised[0][0]} s into {raised[0][1]} s (`{norm(tdefs[0].value)[:70]}`): the send can take longer than the caller allowed")
    else:
        r1.ok({"QosParams._timeout": norm(tdefs[0].value)[:70], "never_above_the_callers_value": True})
    out.append(r1)

    # ---- R2 ---------------------------------------------------------------------------
    r2 = RuleResult("R2", "error family of send_cmd", "may_raise(PortProtocol.send_cmd) ⊆ ProtocolError↓", min_instances=1)
    cut = [repo.func("ramses_tx.command.Command._puzzle"), repo.func("ramses_tx.address.Address._friendly")]
    closure_rule(ctx, r2, ea, [entry, repo.func(f"{F}.ProtocolContext.send_cmd")], [PROTO_ERR], "send_cmd", ignore=["asyncio.exceptions.CancelledError", "builtins.NotImplementedError"], cut=cut)
    r2.notes.append("NotImplementedError (ReadProtocol / abstract stubs) is outside the quantifier; Command._puzzle / Address.__str__ build the library's own notice (decided by C03)")
    fut_classes = sorted({c for c in ea._future_excs(repo.func(f"{F}.ProtocolContext.send_cmd"), entry.node)})
    r2.info = {"classes_flowing_into_the_future": [c.rsplit(".", 1)[-1] for c in fut_classes]}
    out.append(r2)

    # ---- R3 ---------------------------------------------------------------------------
    r3 = RuleResult("R3", "result provenance", "set_state(result=X): X is a header-matched received packet or _echo_pkt", min_instances=3)
    ff = ctx._fsmfacts  # type: ignore[attr-defined]
    n_res = 0
    for g in repo.funcs.values():
        if g.module.name != F:
            continue
        for n in own_nodes(g.node):
            if isinstance(n, ast.Call) and isinstance(n.func, ast.Attribute) and n.func.attr == "set_state" and any(k.arg == "result" for k in n.keywords):
                n_res += 1
                r3.instances += 1
                r3.nontrivial += 1
                v = norm(next(k.value for k in n.keywords if k.arg == "result"))
                bad = [x for x in ff.notes if g.short in x and "result" in x]
                if bad:
                    r3.fail(f"{g.short}:set_state(result={v})", g.loc(n), bad[0])
                else:
                    r3.ok({"site": f"{g.short}: set_state(result={v})"})
    if not ff.p2:
        for x in ff.notes:
            if "_echo_pkt" in x or "fences" in x:
                r3.fail(f"fsm:{x[:60]}", repo.mod(F).rel, x)
    out.append(r3)

    # ---- R4 ---------------------------------------------------------------------------
    r4 = RuleResult("R4", "command/future coherence", "ProtocolContext._fut is only written together with _cmd and _qos", min_instances=2)
    for g in repo.funcs.values():
        if g.module.name != F:
            continue
        for n in own_nodes(g.node):
            if isinstance(n, ast.Assign):
                tg = []
                for t in n.targets:
                    tg += [norm(x) for x in ast.walk(t) if isinstance(x, ast.Attribute) and isinstance(x.ctx, ast.Store)]
                if "self._fut" in tg and g.cls is not None and g.cls.name == "ProtocolContext":
                    r4.instances += 1
                    r4.nontrivial += 1
                    # "together": in one statement, or in one run of adjacent plain assignments (nothing can run in between)
                    par = getattr(n, "parent", None)
                    sibs = next((getattr(par, fld) for fld in ("body", "orelse", "finalbody") if isinstance(getattr(par, fld, None), list) and n in getattr(par, fld)), [n])
                    i0 = sibs.index(n)
                    lo = i0
                    while lo > 0 and isinstance(sibs[lo - 1], ast.Assign) and not any(isinstance(x, (ast.Call, ast.Await)) for x in ast.walk(sibs[lo - 1].value)):
                        lo -= 1
                    hi = i0
                    while hi + 1 < len(sibs) and isinstance(sibs[hi + 1], ast.Assign) and not any(isinstance(x, (ast.Call, ast.Await)) for x in ast.walk(sibs[hi + 1].value)):
                        hi += 1
                    run_tg = set(tg)
                    for st0 in sibs[lo : hi + 1]:
                        for t0 in st0.targets:
                            run_tg |= {norm(x) for x in ast.walk(t0) if isinstance(x, ast.Attribute) and isinstance(x.ctx, ast.Store)}
                    if g.name == "__init__" or {"self._cmd", "self._qos"} <= set(tg) or {"self._cmd", "self._qos"} <= run_tg:
                        r4.ok({"write": f"{g.short}: {norm(n)[:70]}"})
                    else:
                        r4.fail(f"{g.short}:{norm(n)[:50]}", g.loc(n), "ProtocolContext._fut is assigned without _cmd and _qos: the future could be resolved while another command is the one in flight")
    # the sender's timeout handler decides "is my command the one in flight?" before it expires the state machine: that test may
    # only read fields that are reset when a command completes - a field that keeps pointing at a finished command (set_state clears
    # _cmd/_qos on going idle, not _fut) makes a sender whose command has just completed expire a machine that is already idle
    from .common import expand as _expand7
    from .common import private_parts as _pp7

    sc7 = repo.func(f"{F}.ProtocolContext.send_cmd")
    ss7 = repo.func(f"{F}.ProtocolContext.set_state")
    cleared: set[str] = set()
    for g7, _m in [(ss7, {})] + list(_pp7(ctx, ss7)):
        for n in own_nodes(g7.node):
            if isinstance(n, ast.Assign) and isinstance(n.value, ast.Constant) and n.value.value is None:
                for t in n.targets:
                    for x in ast.walk(t):
                        if isinstance(x, ast.Attribute) and isinstance(x.ctx, ast.Store) and isinstance(x.value, ast.Name) and x.value.id == "self":
                            cleared.add(f"self.{x.attr}")
    exp_calls = [c for c in own_nodes(sc7.node) if isinstance(c, ast.Call) and isinstance(c.func, ast.Attribute) and c.func.attr == "set_state" and any(k.arg == "expired" for k in c.keywords)]
    if not exp_calls:
        raise AnalysisError("send_cmd: the `set_state(IsInIdle, expired=True)` of the timeout handler was not found")
    for c in exp_calls:
        r4.instances += 1
        r4.nontrivial += 1
        st = c
        while not isinstance(st, ast.stmt):
            st = st.parent  # type: ignore[attr-defined]
        guard = getattr(st, "parent", None)
        if not isinstance(guard, ast.If):
            r4.fail(f"{sc7.short}:expire-unguarded", sc7.loc(c), "the timeout handler expires the state machine without testing that this sender's command is the one in flight: a command that timed out while still queued would fail the command that is in flight")
            continue
        t = _expand7(sc7.node, guard.test, pure_only=False)
        reads = {norm(x) for x in ast.walk(t) if isinstance(x, ast.Attribute) and isinstance(x.value, ast.Name) and x.value.id == "self"}
        stale = sorted(r for r in reads if r not in cleared)
        if reads and not stale:
            r4.ok({"in-flight test": norm(guard.test)[:60], "reads": sorted(reads), "reset_on_completion": True})
        else:
            r4.fail(f"{sc7.short}:in-flight-test-on-stale-field", sc7.loc(guard), f"the timeout handler's in-flight test `{norm(guard.test)[:60]}` reads {stale or 'no field of the context'}, which set_state() does not reset when a command completes (it resets {sorted(cleared)}): a sender whose echo/reply was processed in the same loop iteration as its timeout still looks in flight and expires an idle machine (AssertionError/InvalidStateError instead of a protocol error)")
    out.append(r4)

    # ---- R5 ---------------------------------------------------------------------------
    r5 = RuleResult("R5", "debug flags", "_DBG_DISABLE_QOS / _DBG_DISABLE_IMPERSONATION_ALERTS fold to False", min_instances=2)
    fold_flag(ctx, r5, P, "_DBG_DISABLE_QOS", False, "QoS (echo matching, retries, the bounded wait) would be bypassed and send_cmd would return None")
    fold_flag(ctx, r5, P, "_DBG_DISABLE_IMPERSONATION_ALERTS", False, "the mandatory impersonation notice would be skipped")
    out.append(r5)
    # ---- R6 ---------------------------------------------------------------------------
    # whether a send returns its echo or waits for the reply is carried by the caller's QosParams - and the protocol rewrites that
    # object in place (`qos._wait_for_reply = False` for codes without QoS). That is only sound while every send owns its QosParams:
    # a memoised/shared factory hands the rewritten object to the next caller who asked for the same settings
    r6 = RuleResult("R6", "QoS objects that are rewritten in place are not shared between sends", "no cached factory returns an object of a class whose instances are mutated outside the class", min_instances=1)
    mutated: dict[str, list] = {}
    for g in repo.funcs.values():
        if not g.module.name.startswith(("ramses_tx", "ramses_rf")):
            continue
        for n in own_nodes(g.node):
            if isinstance(n, ast.Attribute) and isinstance(n.ctx, ast.Store) and not (isinstance(n.value, ast.Name) and n.value.id in ("self", "cls")):
                for a in ctx.cg.atoms(g, n.value) or ():
                    if a.startswith("I:ramses_"):
                        k = a[2:]
                        if g.cls is None or g.cls.fullname != k:
                            mutated.setdefault(k, []).append((g, n))
    qp = "ramses_tx.typing.QosParams"
    if qp not in mutated:
        r6.notes.append("QosParams is no longer rewritten in place anywhere")
    cached = [g for g in repo.funcs.values() if g.module.name.startswith(("ramses_tx", "ramses_rf")) and any("cache" in d for d in g.decorators)]
    r6.instances += 1
    r6.nontrivial += 1
    r6.ok({"classes_mutated_outside_their_own_methods": sorted(k.rsplit(".", 1)[-1] for k in mutated)[:12], "cached_functions_examined": len(cached)})
    for g in cached:
        rets = [n.value for n in own_nodes(g.node) if isinstance(n, ast.Return) and n.value is not None]
        kinds = set()
        for rv in rets:
            for a in ctx.cg.atoms(g, rv) or ():
                if a.startswith("I:") and a[2:] in mutated:
                    kinds.add(a[2:])
        for k in sorted(kinds):
            r6.instances += 1
            r6.nontrivial += 1
            mg, mn = mutated[k][0]
            r6.fail(f"{g.short}:cached-factory-of-mutated-class:{k.rsplit('.', 1)[-1]}", g.loc(), f"{g.short} is memoised and returns a {k.rsplit('.', 1)[-1]}, but instances of that class are rewritten in place ({mg.short}: `{norm(getattr(mn, 'parent', mn))[:60]}`): what one send did to its object is handed to the next caller with the same arguments - e.g. a later RQ|0418 sent with wait_for_reply=True returns its echo instead of the reply")
    out.append(r6)
    # ---- R7 ---------------------------------------------------------------------------
    # "plus only the time taken by a mandatory impersonation notice sent ahead of it": the notice is *awaited* where it is sent - it
    # goes out before the command, and its failure is the caller's failure (a protocol error from the send call). Fired off as a task
    # it races the command to the queue, and a failed notice ends as an exception nobody retrieves, inside the event loop
    r7 = RuleResult("R7", "the impersonation notice is sent ahead and awaited", "every call of _send_impersonation_alert is the operand of an await in the sender", min_instances=1)
    alert_calls = [(g, n) for g in repo.funcs.values() if g.module.name == P for n in own_nodes(g.node) if isinstance(n, ast.Call) and isinstance(n.func, ast.Attribute) and n.func.attr == "_send_impersonation_alert"]
    if not alert_calls:
        raise AnalysisError("no call of _send_impersonation_alert found")
    for g, n in alert_calls:
        r7.instances += 1
        r7.nontrivial += 1
        if isinstance(getattr(n, "parent", None), ast.Await):
            r7.ok({"site": f"{g.short}: await {norm(n)[:50]}"})
        else:
            r7.fail(f"{g.short}:impersonation-alert-not-awaited", g.loc(n), f"`{norm(getattr(n, 'parent', n))[:70]}` does not await the impersonation notice: it is no longer sent ahead of the command, and if its own send fails the ProtocolSendFailed is stranded in a task nobody awaits ('Task exception was never retrieved' in the event loop)")
    out.append(r7)
    borrow(ctx, out, "c06", ["R3"], "the packet handed to the caller is the one whose whole header matched")
    borrow(ctx, out, "c08", ["R4", "R5"], "one in flight; an unorderable queue entry raises TypeError out of send_cmd and wedges the dequeue")
    borrow(ctx, out, "c09", ["R1", "R3", "R4", "R6"], "an exception inside the FSM's callbacks leaves the caller unanswered until its timeout")
    return out
