"""C03 - Command builders emit valid frames of the advertised verb/code that decode back."""

from __future__ import annotations

import ast
from typing import Any

from ..consteval import TOP
from ..context import Ctx
from ..loader import AnalysisError, FuncInfo, norm, own_nodes
from ..report import RuleResult

META = {
    "explanation": (
        "C03.R1 registry agreement - for each of the CODE_API_MAP rows 'verb|code' -> constructor, the set of keys a constructor is "
        "registered under equals the set of (verb, code) pairs its from_attrs/_from_attrs calls can emit (through helper constructors); and "
        "every public get_/set_/put_ classmethod of Command is in the map. C03.R2 guard satisfiability - every condition guarding a "
        "`raise CommandInvalid` is satisfiable over the numbers (catches `a > x > b` with a <= b). C03.R3 payload shape ⊆ decoder regex - "
        "each constructor's payload expression is abstracted to a regular shape (literals, fixed-width hex from format specs and codec "
        "helpers) and checked for inclusion in CODES_SCHEMA[code][verb] with a shortest counter-example (automata inclusion). "
        "C03.R5 OpenTherm parity - builder and decoder call the same parity() over operands that differ only in the parity bit. "
        "Not decided: that decoded values equal the arguments passed (execution); domains documented only in prose."
    ),
}
META["explanation"] += ' C03.R3 also: no payload segment is formatted in decimal. C03.R6: no CommandInvalid guard reads a parameter before the statement that re-binds it from itself; no raw comparison of a parameter that is normalised by _check_idx().'
META["explanation"] += " C03.R3's shape interpreter folds finite value sets, slices, calendar ranges, dict-display subscripts, AttrDict._hex and call-site constants; hex-written fields must not be read back in base 10 by the parser of the same code."

CMD = "ramses_tx.command"


def _emitted(ctx: Ctx, f: FuncInfo, seen: set[FuncInfo] | None = None, verb_bind: dict[str, Any] | None = None) -> tuple[set[tuple[str, str]], list[str]]:
    """(verb, code) pairs of every cls.from_attrs/_from_attrs call in f and the helper constructors it returns."""
    seen = seen if seen is not None else set()
    if f in seen:
        return set(), []
    seen.add(f)
    out: set[tuple[str, str]] = set()
    problems: list[str] = []
    for n in own_nodes(f.node):
        if not (isinstance(n, ast.Call) and isinstance(n.func, ast.Attribute) and isinstance(n.func.value, ast.Name) and n.func.value.id in ("cls", "Command")):
            continue
        name = n.func.attr
        if name in ("from_attrs", "_from_attrs"):
            v_expr = n.args[0] if n.args else None
            c_expr = (n.args[2] if len(n.args) > 2 else None) if name == "from_attrs" else (n.args[1] if len(n.args) > 1 else None)
            if v_expr is None or c_expr is None:
                problems.append(f"{f.short}: cannot read verb/code of {norm(n)[:60]}")
                continue
            verbs = _values(ctx, f, v_expr, verb_bind)
            codes = _values(ctx, f, c_expr, verb_bind)
            if verbs is None or codes is None:
                problems.append(f"{f.short}: verb/code of {norm(n)[:60]} does not fold")
                continue
            out |= {(v, c) for v in verbs for c in codes}
        elif name.startswith(("_put_", "_get_", "_set_")) or (name.startswith(("put_", "get_", "set_")) and name != f.name):
            helper = ctx.repo.funcs.get(f"{CMD}.Command.{name}")
            if helper is not None:
                sub, pr = _emitted(ctx, helper, seen, None)
                out |= sub
                problems += pr
    return out, problems


def _values(ctx: Ctx, f: FuncInfo, e: ast.expr, bind: dict[str, Any] | None) -> set[str] | None:
    try:
        v = ctx.consts.eval_in(f, e)
    except Exception:
        v = TOP
    if v is not TOP and isinstance(v, str):
        return {v}
    # a parameter compared against constants in the function: the values it is tested for
    if isinstance(e, ast.Name):
        vals: set[str] = set()
        for n in own_nodes(f.node):
            if isinstance(n, ast.Compare) and norm(n.left) == e.id and len(n.ops) == 1 and isinstance(n.ops[0], (ast.Eq, ast.In)):
                try:
                    c = ctx.consts.eval_in(f, n.comparators[0])
                except Exception:
                    c = TOP
                if isinstance(c, str):
                    vals.add(c)
                elif isinstance(c, (tuple, list, set)):
                    vals |= {x for x in c if isinstance(x, str)}
        return vals or None
    return None


def _unsat(ctx: Ctx, f: FuncInfo, t: ast.expr) -> str | None:
    """A reason when a numeric guard can never be true."""
    cons: dict[str, list[tuple[str, float]]] = {}

    def add(var: str, op: str, k: float) -> None:
        cons.setdefault(var, []).append((op, k))

    def num(e: ast.expr) -> float | None:
        try:
            v = ctx.consts.eval_in(f, e)
        except Exception:
            return None
        return float(v) if isinstance(v, (int, float)) and not isinstance(v, bool) else None

    def visit(c: ast.expr) -> None:
        if isinstance(c, ast.BoolOp) and isinstance(c.op, ast.And):
            for v in c.values:
                visit(v)
        elif isinstance(c, ast.Compare):
            operands = [c.left] + c.comparators
            for i, op in enumerate(c.ops):
                a, b = operands[i], operands[i + 1]
                ka, kb = num(a), num(b)
                flip = {ast.Lt: ">", ast.LtE: ">=", ast.Gt: "<", ast.GtE: "<="}
                same = {ast.Lt: "<", ast.LtE: "<=", ast.Gt: ">", ast.GtE: ">="}
                if type(op) not in same:
                    continue
                if ka is None and kb is not None:
                    add(norm(a), same[type(op)], kb)
                elif ka is not None and kb is None:
                    add(norm(b), flip[type(op)], ka)

    visit(t)
    for var, cs in cons.items():
        lo, hi = float("-inf"), float("inf")
        lo_strict = hi_strict = False
        for op, k in cs:
            if op in (">", ">="):
                if k > lo or (k == lo and op == ">"):
                    lo, lo_strict = k, op == ">"
            else:
                if k < hi or (k == hi and op == "<"):
                    hi, hi_strict = k, op == "<"
        if lo > hi or (lo == hi and (lo_strict or hi_strict)):
            return f"`{var}` would have to satisfy {' and '.join(f'{var} {op} {k:g}' for op, k in cs)}"
    return None


def check(ctx: Ctx) -> list[RuleResult]:
    repo = ctx.repo
    out: list[RuleResult] = []
    cmd_cls = repo.cls(f"{CMD}.Command")

    # ---- R1 ---------------------------------------------------------------------------
    r1 = RuleResult("R1", "registry agreement", "keys a constructor is registered under == (verb, code) pairs it can emit", min_instances=40)
    map_node = None
    for st in repo.mod(CMD).tree.body:
        if isinstance(st, ast.Assign) and any(isinstance(t, ast.Name) and t.id == "CODE_API_MAP" for t in st.targets):
            map_node = st.value
    if not isinstance(map_node, ast.Dict):
        raise AnalysisError("CODE_API_MAP is not a dict display")
    registered: dict[str, set[tuple[str, str]]] = {}
    for k, v in zip(map_node.keys, map_node.values):
        key = ctx.consts.eval_in(repo.mod(CMD), k)
        if key is TOP or "|" not in key:
            raise AnalysisError(f"CODE_API_MAP key {norm(k)} does not fold")
        verb, code = key.split("|")
        name = norm(v).split(".")[-1]
        registered.setdefault(name, set()).add((verb, code))
    for name, keys in sorted(registered.items()):
        r1.instances += 1
        r1.nontrivial += 1
        f = repo.funcs.get(f"{CMD}.Command.{name}")
        if f is None:
            r1.fail(f"CODE_API_MAP:{name}", repo.mod(CMD).rel, f"CODE_API_MAP refers to Command.{name}, which does not exist")
            continue
        emitted, problems = _emitted(ctx, f)
        if problems:
            raise AnalysisError("; ".join(problems[:3]))
        if emitted == keys:
            r1.ok({"constructor": name, "pairs": sorted(f"{v}|{c}" for v, c in emitted)})
        else:
            r1.fail(
                f"Command.{name}:registered-vs-emitted",
                f.loc(),
                f"Command.{name} is registered under {sorted('|'.join(k) for k in keys)} but emits {sorted('|'.join(k) for k in emitted)}",
                [f"registered only: {sorted('|'.join(k) for k in keys - emitted)}", f"emitted only: {sorted('|'.join(k) for k in emitted - keys)}"],
            )
    public = [m for n, m in cmd_cls.methods.items() if n.startswith(("get_", "set_", "put_")) and any(d in ("classmethod",) for d in m.decorators)]
    for m in public:
        r1.instances += 1
        r1.nontrivial += 1
        if m.name in registered:
            r1.ok({"public_constructor_in_map": m.name})
        else:
            r1.fail(f"Command.{m.name}:not-in-map", m.loc(), f"the public constructor Command.{m.name} is not in CODE_API_MAP")
    out.append(r1)

    # ---- R2 ---------------------------------------------------------------------------
    r2 = RuleResult("R2", "guard satisfiability", "every condition guarding `raise CommandInvalid` can be true", min_instances=30)
    for f in repo.functions_in(f"{CMD}."):
        for n in own_nodes(f.node):
            if isinstance(n, ast.Raise) and "CommandInvalid" in norm(n):
                par = getattr(n, "parent", None)
                if isinstance(par, ast.If) and n in par.body:
                    r2.instances += 1
                    r2.nontrivial += 1
                    why = _unsat(ctx, f, par.test)
                    if why:
                        r2.fail(f"{f.short}:dead-guard:{norm(par.test)[:60]}", f.loc(par), f"the guard `{norm(par.test)[:80]}` can never be true ({why}): the argument it is meant to refuse is never refused")
                    else:
                        r2.ok({"guard": f"{f.short}: {norm(par.test)[:60]}"})
    out.append(r2)

    # ---- R5 ---------------------------------------------------------------------------
    r5 = RuleResult("R5", "OpenTherm parity", "builder and decoder use the same parity() on operands that differ only in the parity bit", min_instances=2)
    g = repo.func(f"{CMD}.Command.get_opentherm_data")
    dec = repo.func("ramses_tx.opentherm.decode_frame")
    gp = [n for n in own_nodes(g.node) if isinstance(n, ast.Call) and norm(n.func) == "parity"]
    dp = [n for n in own_nodes(dec.node) if isinstance(n, ast.Call) and norm(n.func) == "parity"]
    r5.instances += 2
    r5.nontrivial += 2
    same_fn = ctx.cg.site_of.get(id(gp[0])) and ctx.cg.site_of.get(id(dp[0])) and ctx.cg.site_of[id(gp[0])].callees == ctx.cg.site_of[id(dp[0])].callees if gp and dp else False
    if gp and dp and same_fn:
        r5.ok({"builder": norm(gp[0])[:60], "decoder": norm(dp[0])[:60], "same_function": True})
    else:
        r5.fail("opentherm:parity-fn", g.loc(), "get_opentherm_data and decode_frame no longer use the same parity function")
    # builder: the payload text under "parity(msg_id) is true" and under "is false" (every conditional on parity() resolved either
    # way, locals copy-propagated, f-string/+/format alike) differs in the parity byte only: 0x80 iff parity
    from ..predeval import _clone
    from .common import expand as _expand, str_template as _tmpl

    def _is_parity_test(t: ast.expr) -> bool:
        return isinstance(t, ast.Call) and norm(t.func) == "parity"

    # `if parity(x): v = A  else: v = B`  ==  v = A if parity(x) else B
    synth: dict[str, ast.expr] = {}
    for st in own_nodes(g.node):
        if isinstance(st, ast.If) and _is_parity_test(st.test) and len(st.body) == 1 and len(st.orelse) == 1 and all(isinstance(x, ast.Assign) and len(x.targets) == 1 and isinstance(x.targets[0], ast.Name) for x in (st.body[0], st.orelse[0])) and st.body[0].targets[0].id == st.orelse[0].targets[0].id:
            synth[st.body[0].targets[0].id] = ast.IfExp(test=st.test, body=st.body[0].value, orelse=st.orelse[0].value)

    def _specialise(e: ast.AST, val: bool) -> ast.AST:
        if isinstance(e, ast.IfExp) and _is_parity_test(e.test):
            return _specialise(e.body if val else e.orelse, val)
        if isinstance(e, ast.Name) and e.id in synth:
            return _specialise(synth[e.id], val)
        if isinstance(e, ast.AST):
            new = type(e)()
            for fld in e._fields:
                v = getattr(e, fld, None)
                setattr(new, fld, [_specialise(x, val) for x in v] if isinstance(v, list) else _specialise(v, val))
            return new
        return e

    ok_b = False
    pay = None
    for n in own_nodes(g.node):
        if isinstance(n, ast.Call) and isinstance(n.func, ast.Attribute) and n.func.attr == "from_attrs" and len(n.args) >= 4:
            pay = n.args[3]
    if pay is not None:
        full = _expand(g.node, pay, pure_only=False)
        t_true, t_false = _tmpl(g.node, _specialise(full, True)), _tmpl(g.node, _specialise(full, False))  # type: ignore[arg-type]
        if len(t_true) == len(t_false) and all(a0[0] == b0[0] for a0, b0 in zip(t_true, t_false)) and all(a0 == b0 for a0, b0 in zip(t_true, t_false) if a0[0] == "var") and t_true and t_true[0][0] == "lit" and t_false[0][0] == "lit":
            l1, l2 = t_true[0][1], t_false[0][1]
            rest_same = [a0 for a0 in t_true[1:] if a0[0] == "lit"] == [b0 for b0 in t_false[1:] if b0[0] == "lit"]
            if rest_same and l1[:2] == l2[:2] == "00" and l1[2:4] == "80" and l2[2:4] == "00" and l1[4:] == l2[4:]:
                ok_b = True
    # decoder: `int(frame[:2], 16) // 0x80 != parity(int(frame, 16) & 0x7FFFFFFF)` guards a raise
    ok_d = False
    for n in own_nodes(dec.node):
        if isinstance(n, ast.Compare) and len(n.ops) == 1 and isinstance(n.ops[0], (ast.NotEq, ast.Eq)):
            # compared after copy propagation (a hoisted `first_byte = int(frame[:2], 16)` is the same expression), either way round
            sides = {norm(_expand(dec.node, n.left, pure_only=False)), norm(_expand(dec.node, n.comparators[0], pure_only=False))}
            if sides & {"int(frame[:2], 16) // 128", "int(frame[:2], 16) >> 7", "int(frame, 16) >> 31"} and "parity(int(frame, 16) & 2147483647)" in sides:
                ok_d = True
    if ok_b and ok_d:
        r5.ok({"builder_sets": "byte 0 = 0x80 iff parity(msg_id), all other fields equal", "decoder_tests": "bit 31 == parity(low 31 bits)"})
    else:
        r5.fail("opentherm:parity-shape", dec.loc(), f"the parity bit is no longer set by the builder iff parity(...) (ok={ok_b}) / tested by the decoder over the low 31 bits (ok={ok_d})")
    out.append(r5)

    # ---- R6 ---------------------------------------------------------------------------
    # Arguments are validated in their normalised form: a constructor that re-binds a parameter from itself (int -> 2-hex string,
    # name -> code, None -> default, ...) must not test that parameter in a CommandInvalid guard *before* the re-binding, else the
    # guard only recognises one spelling of the value and an out-of-domain call given in another spelling builds a frame.
    r6 = RuleResult("R6", "arguments are validated after they are normalised", "no CommandInvalid guard reads a parameter ahead of the statement that re-binds it from itself", min_instances=5)
    for name, m in sorted(cmd_cls.methods.items()):
        if "classmethod" not in m.decorators:
            continue
        params = {a.arg for a in m.node.args.args + m.node.args.kwonlyargs} - {"cls"}
        body = m.node.body
        norms: dict[str, list[int]] = {}  # parameter -> indexes of top-level statements that re-bind it from itself
        for i, st in enumerate(body):
            for a in ast.walk(st):
                if isinstance(a, ast.Assign) and len(a.targets) == 1 and isinstance(a.targets[0], ast.Name) and a.targets[0].id in params:
                    pn = a.targets[0].id
                    if any(isinstance(x, ast.Name) and x.id == pn for x in ast.walk(a.value)):
                        norms.setdefault(pn, []).append(i)
        for pn, idxs in norms.items():
            last = max(idxs)
            r6.instances += 1
            r6.nontrivial += 1
            early = []
            for i, st in enumerate(body[:last]):
                for g in ast.walk(st):
                    if isinstance(g, ast.If) and any(isinstance(b, ast.Raise) and "CommandInvalid" in norm(b) for b in g.body) and any(isinstance(x, ast.Name) and x.id == pn for x in ast.walk(g.test)):
                        # a test of the *raw* spelling that the normalisation itself distinguishes (`isinstance(p, int)`, `p is None`) is fine
                        atoms = [x for x in ast.walk(g.test) if isinstance(x, ast.Compare) and any(isinstance(y, ast.Name) and y.id == pn for y in ast.walk(x))]
                        if atoms and all(len(x.ops) == 1 and isinstance(x.ops[0], (ast.Is, ast.IsNot)) for x in atoms):
                            continue
                        early.append(g)
            if early:
                r6.fail(f"Command.{name}:{pn}:guard-before-normalisation", m.loc(early[0]), f"Command.{name} tests `{pn}` in a CommandInvalid guard (`{norm(early[0].test)[:70]}`) before `{pn}` is normalised (`{norm(body[last])[:60]}`): the guard misses the other spellings the normalisation accepts, so an out-of-domain call still builds a frame")
            else:
                r6.ok({"constructor": name, "parameter": pn, "normalised_at_statement": last})
    # the same for the index normaliser: a function that passes a parameter to _check_idx() must not compare the *raw* parameter
    # with index constants (0xFA and 'fa' normalise to 'FA', which a raw `in ("HW", "FA")` does not recognise)
    n_norm_calls = 0
    for f in repo.functions_in(f"{CMD}."):
        if f.name == "_check_idx":
            continue
        fparams = {a.arg for a in f.node.args.args + f.node.args.kwonlyargs}
        passed = {c.args[0].id for c in own_nodes(f.node) if isinstance(c, ast.Call) and norm(c.func) == "_check_idx" and c.args and isinstance(c.args[0], ast.Name) and c.args[0].id in fparams}
        n_norm_calls += len(passed)
        for pn in sorted(passed):
            r6.instances += 1
            r6.nontrivial += 1
            raw = [c for c in own_nodes(f.node) if isinstance(c, ast.Compare) and isinstance(c.left, ast.Name) and c.left.id == pn and len(c.ops) == 1 and isinstance(c.ops[0], (ast.Eq, ast.NotEq, ast.In, ast.NotIn)) and not (isinstance(c.comparators[0], ast.Constant) and c.comparators[0].value is None)]
            if raw:
                r6.fail(f"{f.short}:{pn}:raw-index-compared", f.loc(raw[0]), f"{f.short} compares the raw `{pn}` (`{norm(raw[0])[:60]}`) although it normalises it with _check_idx(): an index given in another accepted spelling (an int, lower case) takes the wrong branch")
            else:
                r6.ok({"function": f.short, "parameter": pn, "compared_only_after": "_check_idx()"})
    if n_norm_calls < 15:
        raise AnalysisError(f"only {n_norm_calls} _check_idx(<parameter>) calls found in command.py (expected >= 15)")
    out.append(r6)

    if ctx.tier == "thorough" or True:
        from .c03_shapes import shape_rule

        out.append(shape_rule(ctx))
    return out
