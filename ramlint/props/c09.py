"""C09 - The send machinery never wedges: it returns to idle and keeps serving."""

from __future__ import annotations

import ast

from ..context import Ctx
from ..loader import AnalysisError, norm, own_nodes
from ..pairing import bracket_rule, contains_call, method_call
from ..report import RuleResult
from .common import expand as _expand9, is_que, private_parts
from ..typestate import typestate_rule
from .common import TRANSPORT_ERR, borrow, closure_rule, policy_fsm

META = {
    "explanation": (
        "Necessary conditions only (whether the FSM returns to idle after every episode is reachability over interleavings - not decided). "
        "C09.R1: future typestate over protocol_fsm.py - every set_result/set_exception on the caller's future is discharged (cancelled() "
        "tested first, then the authors' not-done assertion; or a dominating done() test). C09.R2: ProtocolContext._state has a single writer "
        "(set_state). C09.R3: nothing escapes into the event loop from the callbacks/tasks the FSM schedules (effect_state, "
        "_check_buffer_for_cmd, expire_state_on_timeout, send_fnc_wrapper) nor from ProtocolContext.pkt_received/connection_* "
        "(self-check 'Coding error' asserts are not raise sources). C09.R4: the threading lock in _check_buffer_for_cmd is released on "
        "every path and each successful get_nowait() is matched by task_done(). C09.R5: a disconnect in a sending state resolves the "
        "caller's future with TransportError."
    ),
}

MOD = "ramses_tx.protocol_fsm"


def check(ctx: Ctx) -> list[RuleResult]:
    repo = ctx.repo
    pol = policy_fsm(ctx)
    ea = ctx.exc(pol)
    out: list[RuleResult] = []
    funcs = [f for f in repo.funcs.values() if f.module.name == MOD]

    # ---- R1 ---------------------------------------------------------------------------
    r1 = RuleResult("R1", "future typestate in the protocol FSM", "no set_* on a possibly done/cancelled future", min_instances=3)
    typestate_rule(ctx, r1, funcs, pol, "protocol FSM")
    out.append(r1)

    # ---- R2 ---------------------------------------------------------------------------
    r2 = RuleResult("R2", "single writer of the FSM state", "ProtocolContext._state is assigned only in set_state (and initialised in __init__)", min_instances=1)
    writers = []
    for f in repo.funcs.values():
        if not f.module.name.startswith("ramses_tx"):
            continue
        for n in own_nodes(f.node):
            if isinstance(n, ast.Attribute) and n.attr == "_state" and isinstance(n.ctx, ast.Store):
                at = ctx.cg.atoms(f, n.value) or ()
                if any("ProtocolContext" in a for a in at) or (f.module.name == MOD and norm(n.value) in ("self", "self._context", "context")):
                    writers.append((f, n))
    if not writers:
        raise AnalysisError("no writer of ProtocolContext._state found")
    for f, n in writers:
        r2.instances += 1
        r2.nontrivial += 1
        if f.qualname in (f"{MOD}.ProtocolContext.set_state", f"{MOD}.ProtocolContext.__init__") or any(f is g for g, _m in private_parts(ctx, repo.func(f"{MOD}.ProtocolContext.set_state"))):
            r2.ok({"writer": f.short, "stmt": norm(getattr(n, "parent", n))[:60]})
        else:
            r2.fail(f"{f.short}:writes-_state", f.loc(n), f"{f.short} assigns ProtocolContext._state directly, bypassing set_state (timer cancellation, future resolution and tx counters would be skipped)")
    out.append(r2)

    # ---- R3 ---------------------------------------------------------------------------
    r3 = RuleResult("R3", "nothing escapes into the event loop", "may_raise = ∅ for every callback/task the FSM schedules and for the protocol's notifications", min_instances=7)
    from .common import fsm_roles

    _eff0, _exp0 = fsm_roles(ctx)
    names = [
        _eff0.qualname[len(MOD) + 1 :],
        _exp0.qualname[len(MOD) + 1 :],
        "ProtocolContext._check_buffer_for_cmd",
        "ProtocolContext.pkt_received",
        "ProtocolContext.connection_made",
        "ProtocolContext.connection_lost",
        "ProtocolContext.pause_writing",
        "ProtocolContext.resume_writing",
    ]
    entries = [repo.func(f"{MOD}.{n}") for n in names]
    # the write wrapper (whatever it is called, closure or method): every function that invokes the transport write function
    for g in funcs:
        if g not in entries and any(isinstance(n, ast.Call) and isinstance(n.func, ast.Attribute) and n.func.attr == "_send_fnc" for n in own_nodes(g.node)):
            entries.append(g)
    if not any(any(isinstance(n, ast.Call) and isinstance(n.func, ast.Attribute) and n.func.attr == "_send_fnc" for n in own_nodes(g.node)) for g in entries):
        raise AnalysisError("no function of the protocol FSM invokes the transport write function (_send_fnc)")
    # discovered: every deferred target / task created in the module must be in the list above
    for f in funcs:
        for s in ctx.cg.calls_in(f):
            if s.kind == "deferred":
                for c in s.callees:
                    if c.module.name == MOD and c not in entries:
                        entries.append(c)
    closure_rule(ctx, r3, ea, entries, [], "a protocol-FSM callback (it would be raised inside the event loop)", ignore=["asyncio.exceptions.CancelledError"])
    ff = ctx._fsmfacts  # type: ignore[attr-defined]
    r3.info = {"asserts_counted": len(ea.asserts_counted), "asserts_walked_past": len(ea.asserts_skipped), "P1_commands_headers_read_before_queueing": ff.p1, "P2_packets_hdr_read_under_fence": ff.p2, "memo_shapes": ff.p_memo, "hdr_raise_once": ff.hdr_raise_once}
    r3.notes += ff.notes
    out.append(r3)

    # ---- R4 ---------------------------------------------------------------------------
    r4 = RuleResult("R4", "lock bracket and queue accounting in _check_buffer_for_cmd", "every path from _lock.acquire() passes _lock.release(); every get_nowait() success is matched by task_done()", min_instances=2)
    cb = repo.func(f"{MOD}.ProtocolContext._check_buffer_for_cmd")

    def is_acq(c: ast.Call) -> bool:
        return isinstance(c.func, ast.Attribute) and c.func.attr == "acquire" and "_lock" in norm(c.func.value)

    def is_rel(c: ast.Call) -> bool:
        return isinstance(c.func, ast.Attribute) and c.func.attr == "release" and "_lock" in norm(c.func.value)

    n_open = bracket_rule(ctx, r4, cb, is_acq, is_rel, pol, "FSM lock not released", cancellation=False)
    if n_open < 1:
        raise AnalysisError("no _lock.acquire() in _check_buffer_for_cmd")
    # task_done: from the get_nowait statement, every path on which it succeeded (not the queue.Empty edge) reaches task_done()
    cfg = ctx.cfg(cb, pol, cancellation=False)
    gets = [n for n in cfg.nodes if n.kind == "stmt" and contains_call(n.ast, method_call("get_nowait"))]
    if not gets:
        raise AnalysisError("no get_nowait() in _check_buffer_for_cmd")
    for g in gets:
        r4.instances += 1
        r4.nontrivial += 1

        def passing(x) -> bool:
            return x.ast is not None and x.kind == "stmt" and contains_call(x.ast, method_call("task_done"))

        leaks = cfg.exits_reachable_without(g.id, passing)
        if leaks:
            ex, path, labs = leaks[0]
            r4.fail(f"{cb.short}:get_nowait-without-task_done", cb.loc(g.ast), "a dequeued entry can leave _check_buffer_for_cmd without que.task_done() (the queue's unfinished count would drift)", [f"{p.kind}@{p.line} --{lab}-->" for p, lab in zip(path, labs[1:] + [""])][:10])
        else:
            r4.ok({"get_nowait": norm(g.ast)[:60], "task_done_on_all_paths": True})
    out.append(r4)

    # ---- R5 ---------------------------------------------------------------------------
    r5 = RuleResult("R5", "a disconnect answers the caller", "connection_lost in a sending state calls set_state(Inactive, exception=TransportError(...))", min_instances=1)
    cl = repo.func(f"{MOD}.ProtocolStateBase.connection_lost")
    cfg5 = ctx.cfg(cl, pol)
    r5.instances += 1
    r5.nontrivial += 1

    def is_answer(x) -> bool:
        if x.ast is None or x.kind != "stmt":
            return False
        for c in ast.walk(x.ast):
            if isinstance(c, ast.Call) and method_call("set_state")(c):
                if c.args and norm(c.args[0]) == "Inactive":
                    return True
        return False

    # every normal exit either passed set_state(Inactive, ...) or returned under `isinstance(state, Inactive)`
    leaks = [e for e in cfg5.exits_reachable_without(cfg5.entry.id, is_answer) if e[0].kind == "exit"]
    bad = []
    for ex, path, labs in leaks:
        tests = [norm(p.ast) for p, lab in zip(path, labs[1:] + [""]) if p.kind == "test" and lab == "true"]
        if not any("Inactive" in t for t in tests):
            bad.append(path)
    exc_calls = [c for c in ast.walk(cl.node) if isinstance(c, ast.Call) and method_call("set_state")(c) and any(k.arg == "exception" and "TransportError" in norm(_expand9(cl.node, k.value, pure_only=False)) for k in c.keywords)]
    if bad or not exc_calls:
        r5.fail(f"{cl.short}:disconnect-does-not-answer", cl.loc(), "connection_lost can return without moving to Inactive / without resolving the in-flight future with TransportError: the caller would wait for its full timeout")
    else:
        r5.ok({"connection_lost": "all exits pass set_state(Inactive, ...) or were already Inactive", "exception": norm(exc_calls[0])[:80]})
    # and that exception class is converted for the caller (C07.R2 decides the family); here: it is a TransportError
    for c in exc_calls:
        for k in c.keywords:
            if k.arg == "exception":
                cls = ea.exc_classes_of_value(cl, k.value)
                if not all(ea.h.is_sub(x, TRANSPORT_ERR) for x in cls):
                    r5.fail(f"{cl.short}:wrong-exception-class", cl.loc(c), f"connection_lost resolves the future with {cls}, not a TransportError")
    out.append(r5)

    # ---- R6 ---------------------------------------------------------------------------
    r6 = RuleResult("R6", "no blocking primitive on the event-loop thread", "the FSM's queue is only used through put_nowait/get_nowait; its lock is never held across an await", min_instances=2)
    for f in funcs:
        for n in own_nodes(f.node):
            if isinstance(n, ast.Call) and isinstance(n.func, ast.Attribute) and is_que(f.node, n.func.value) and n.func.attr in ("put", "get", "join", "put_nowait", "get_nowait"):
                r6.instances += 1
                r6.nontrivial += 1
                blocking = n.func.attr in ("put", "get", "join") and not any(k.arg == "block" and isinstance(k.value, ast.Constant) and k.value.value is False for k in n.keywords)
                if blocking:
                    r6.fail(f"{f.short}:blocking-queue-{n.func.attr}", f.loc(n), f"`{norm(n)[:60]}` blocks the calling thread when the queue is full/empty: called on the event-loop thread it stops every timer, callback and caller for ever")
                else:
                    r6.ok({"site": f"{f.short}: {norm(n.func)}"})
    cbf = repo.func(f"{MOD}.ProtocolContext._check_buffer_for_cmd")
    r6.instances += 1
    r6.nontrivial += 1
    if cbf.is_async or any(isinstance(n, ast.Await) for n in own_nodes(cbf.node)):
        r6.fail(f"{cbf.short}:await-under-lock", cbf.loc(), "_check_buffer_for_cmd became a coroutine / awaits: the threading lock could be held across a suspension")
    else:
        r6.ok({"_check_buffer_for_cmd": "synchronous (the threading lock is never held across an await)"})
    out.append(r6)

    # ---- R7 ---------------------------------------------------------------------------
    r7 = RuleResult("R7", "the expiry timer is re-armed on every way into a sending state", "in effect_state the timer-arming statement is reachable on both edges of `timed_out`", min_instances=1)
    eff = _eff0
    cfg7 = ctx.plain_cfg(eff)
    arm = [x for x in cfg7.nodes if x.kind == "stmt" and isinstance(x.ast, ast.Assign) and norm(x.ast.targets[0]) == "self._expiry_timer" and "create_task" in norm(x.ast.value)]
    tt = [x for x in cfg7.nodes if x.kind == "test" and any(isinstance(y, ast.Name) and y.id == "timed_out" for y in ast.walk(x.ast))]
    if not arm or not tt:
        raise AnalysisError("effect_state: timer arming / timed_out test not found")
    r7.instances += 1
    r7.nontrivial += 1
    ok7 = True
    for lab in ("true", "false"):
        starts = [y for y, l2 in cfg7.succ[tt[0].id] if l2 == lab]
        reach = set()
        for s0 in starts:
            reach |= cfg7.reachable_from(s0)
        if not any(a.id in reach for a in arm):
            ok7 = False
            r7.fail(f"{eff.short}:timer-not-armed-after-{'retransmit' if lab == 'true' else 'first-send'}", eff.loc(tt[0].ast), f"on the `timed_out` == {lab} path effect_state can no longer reach the statement that arms the expiry timer: a sending state would wait for an echo/reply with no timer running")
    if ok7:
        r7.ok({"effect_state": "the expiry timer can be armed after a first send and after a retransmission"})
    out.append(r7)

    # ---- R9 ---------------------------------------------------------------------------
    # while disconnected the only transition is the re-connection: the Inactive state holds whatever the disconnect left behind (a
    # finished future, say), and set_state() without a result/exception/expired flag asserts that there is no finished future - so
    # any other method of the Inactive state that calls set_state() (a repeated connection_lost, a late packet) trips the machine's
    # own consistency check and leaves it half-changed
    r9 = RuleResult("R9", "no transition out of (or within) Inactive except on connection_made", "in class Inactive only connection_made calls set_state()", min_instances=1)
    ina = repo.cls(f"{MOD}.Inactive")
    from .common import edge_implies as _ei9
    from .common import facts_at as _fa9

    seen9: set[str] = set()
    not_inactive = [ast.parse(g_, mode="eval").body for g_ in ("not isinstance(self._context._state, Inactive)", "not isinstance(self._context.state, Inactive)")]
    for k in ina.mro:  # the methods an Inactive state object answers with: its own, then the inherited ones
        for mname, m in sorted(k.methods.items()):
            if mname in seen9 or mname.startswith("__"):
                continue
            seen9.add(mname)
            calls9 = [c for c in own_nodes(m.node) if isinstance(c, ast.Call) and isinstance(c.func, ast.Attribute) and c.func.attr == "set_state"]
            for c9 in calls9:
                r9.instances += 1
                r9.nontrivial += 1
                st9 = c9
                while not isinstance(st9, ast.stmt):
                    st9 = st9.parent  # type: ignore[attr-defined]
                from .common import expand as _ex9

                excluded = k is not ina and any(_ei9(_ex9(m.node, t, pure_only=False), v, g_) for t, v in _fa9(st9) for g_ in not_inactive)
                if mname == "connection_made" and k is ina:
                    r9.ok({"Inactive.connection_made": norm(c9)[:50]})
                elif excluded:
                    r9.ok({"inherited": f"{k.name}.{mname}", "set_state": norm(c9)[:50], "only_when": "the state is not Inactive"})
                else:
                    r9.fail(f"{m.short}:transition-while-inactive", m.loc(c9), f"an Inactive state answers {mname}() with `{norm(c9)[:60]}` ({k.name}.{mname}, not excluded for the Inactive state): a state change while disconnected runs into set_state()'s checks on the finished future the disconnect left behind, so a repeated {mname} callback raises 'Coding error' inside the event loop instead of being ignored")
    if r9.instances < 1:
        raise AnalysisError("class Inactive: connection_made no longer calls set_state()")
    out.append(r9)

    # ---- R8 ---------------------------------------------------------------------------
    # the expiry timer is what gets a sending state out of waiting when nothing arrives: once its sleep is over, every way through
    # the callback changes the state (retransmit or give up). A way out that leaves the state alone - "somebody else will reset the
    # machine" - strands the sender in WantEcho/WantRply with no timer when that somebody never comes (the awaiting task was
    # cancelled from outside, not by send_cmd's own timeout)
    r8 = RuleResult("R8", "an expired wait always changes the state", "in expire_state_on_timeout every normal path from the end of the sleep to the exit passes set_state()", min_instances=1)
    exp8 = _exp0
    cfg8 = ctx.plain_cfg(exp8)
    sleeps = [x for x in cfg8.nodes if x.ast is not None and x.kind == "stmt" and any(isinstance(c, ast.Await) for c in ast.walk(x.ast)) and "sleep" in norm(x.ast)]
    if not sleeps:
        raise AnalysisError("expire_state_on_timeout: the timed wait was not found")
    r8.instances += 1
    r8.nontrivial += 1

    def _changes_state(x) -> bool:
        return x.ast is not None and x.kind in ("stmt", "test", "iter", "with") and any(isinstance(c, ast.Call) and isinstance(c.func, ast.Attribute) and c.func.attr == "set_state" for c in ast.walk(x.ast))

    leaks8 = cfg8.exits_reachable_without(sleeps[0].id, _changes_state, skip_start_exc=True, edge_ok=lambda n_, lab: not lab.startswith("exc") and lab != "cancel")
    leaks8 = [lk for lk in leaks8 if lk[0].kind != "raise_exit"]
    if leaks8:
        ex8, path8, _labs8 = leaks8[0]
        last = next((p8 for p8 in reversed(path8) if p8.ast is not None and isinstance(p8.ast, ast.Return)), None) or (path8[-1] if path8 else None)
        r8.fail(f"{exp8.short}:expiry-without-state-change", exp8.loc(last.ast if last is not None and last.ast is not None else None), "after its sleep the expiry callback can return without set_state(): the sender stays in WantEcho/WantRply with no timer running - if the awaiting task was cancelled from outside (not by send_cmd's own timeout) nothing ever moves it again, and every later command queues behind it", [f"path: {' > '.join(str(p8.line) for p8 in path8[:10])}"])
    else:
        r8.ok({"expire_state_on_timeout": "every normal path after the sleep passes set_state()"})
    out.append(r8)

    borrow(ctx, out, "c07", ["R4"], "the future, command and QoS of the in-flight entry are only (re)bound together: is_sending's invariant")
    borrow(ctx, out, "c08", ["R1", "R2", "R4", "R5"], "retry gate, timer cancellation, single dequeue gate and orderable queue entries keep the FSM's self-checks from tripping")
    return out
