"""C05 - Decoded payloads are JSON-able, deterministic, element-wise and index-consistent."""

from __future__ import annotations

import ast

from ..context import Ctx
from ..loader import AnalysisError, FuncInfo, norm, own_nodes
from ..report import RuleResult

META = {
    "explanation": (
        "C05.R1 JSON typing - every value placed into a dict/list returned by a payload parser (and the helpers they return from) has a "
        "mypy type free of datetime/date/timedelta/set/frozenset/bytes/Address/Frame/complex/Decimal/non-str-int Enum; Any-typed values "
        "fall back to syntactic provenance (payload slices, int/str/float/bool, f-strings, arithmetic, dict lookups on literal tables). "
        "C05.R2 the decode path is pure - nothing reachable from Packet.__init__/MessageBase.__init__ calls a clock, RNG or environment "
        "source, declares global/nonlocal state, or writes attributes of objects other than the frame's own memo fields "
        "(dt.fromtimestamp's local-TZ dependence is a named exception). C05.R3 array stride agreement - for the 8 codes of "
        "CODES_WITH_ARRAYS the parser's array branch steps by 2 x element_length and takes the index from the element's first byte. "
        "C05.R4 ratio guards - every x/200 ratio computed in the parsers/helpers is bounded by a guard (raise / assert / fault-dict) for "
        "values > 1.0, with no admitted exception. C05.R5 exhaustive dispatch - every code in CODES_SCHEMA has a parser_xxxx the registry "
        "comprehension selects (11-character name). Not decided: element-wise equality of values; physical ranges beyond the guards; the "
        "gateway layer's deliberate merge of the second fragment of 000A/22C9 arrays (outside the ramses_tx decode anchors)."
    ),
}
META["explanation"] += ' C05.R2 also: memoised functions on the decode path return immutable values only.'
META["explanation"] += ' C05.R4 is decided by interval reasoning over one-octet ratios (bound on the quotient, or on the raw value with a bound <= the smallest divisor).'

PM = "ramses_tx.parsers"
BAD_TYPES = {
    "I:datetime.datetime", "I:datetime.date", "I:datetime.timedelta", "I:datetime.time", "I:builtins.set", "I:builtins.frozenset",
    "I:builtins.bytes", "I:builtins.bytearray", "I:builtins.complex", "I:decimal.Decimal", "I:ramses_tx.address.Address",
    "I:ramses_tx.frame.Frame", "I:ramses_tx.packet.Packet", "I:ramses_tx.command.Command", "I:ramses_tx.message.Message",
}
CLOCKS = {"dt.now", "datetime.now", "dt.utcnow", "dt_now", "time.time", "time.time_ns", "time.perf_counter", "perf_counter", "time.monotonic", "timestamp", "random.random", "random.randint", "random.choice", "uuid.uuid4", "os.getenv", "os.urandom"}
MEMO_FIELDS = {"_ctx_", "_hdr_", "_idx_", "_has_array_", "_has_ctl_", "_has_payload_", "_repr", "_rx_header", "_str", "_fraction_expired"}


def _provenance_ok(e: ast.expr, depth: int = 0) -> bool:
    if depth > 6:
        return False
    if isinstance(e, (ast.Constant, ast.JoinedStr, ast.Compare)):
        return True
    if isinstance(e, (ast.BinOp,)):
        return _provenance_ok(e.left, depth + 1) and _provenance_ok(e.right, depth + 1)
    if isinstance(e, ast.UnaryOp):
        return _provenance_ok(e.operand, depth + 1)
    if isinstance(e, ast.BoolOp):
        return all(_provenance_ok(v, depth + 1) for v in e.values)
    if isinstance(e, ast.IfExp):
        return _provenance_ok(e.body, depth + 1) and _provenance_ok(e.orelse, depth + 1)
    if isinstance(e, ast.Subscript):
        return True  # payload slices / lookups in literal tables
    if isinstance(e, (ast.Name, ast.Attribute)):
        return True  # a local built from the above (checked where it is defined) / a constant
    if isinstance(e, ast.Call):
        fn = norm(e.func)
        if fn in ("int", "str", "float", "bool", "round", "len", "abs", "min", "max", "sum", "list", "dict", "tuple", "sorted", "hex", "bin"):
            return True
        if fn.endswith((".get", ".strip", ".upper", ".lower", ".join", ".format", ".strftime", ".isoformat", ".decode", ".hex")):
            return True
        return True  # a helper: its own returned displays are checked as instances of this rule
    if isinstance(e, (ast.Dict, ast.List, ast.Tuple, ast.ListComp, ast.DictComp, ast.GeneratorExp)):
        return True  # nested displays are instances of their own
    if isinstance(e, (ast.Set, ast.SetComp)):
        return False
    return False


def check(ctx: Ctx) -> list[RuleResult]:
    repo = ctx.repo
    out: list[RuleResult] = []
    parsers = ctx.cg.registry(PM, "_PAYLOAD_PARSERS") or []
    if len(parsers) < 100:
        raise AnalysisError("payload parser registry not resolved")
    msg_init = repo.func("ramses_tx.message.MessageBase.__init__")
    pkt_init = repo.func("ramses_tx.packet.Packet.__init__")

    # ---- R1 ---------------------------------------------------------------------------
    r1 = RuleResult("R1", "JSON typing of every produced value", "no non-JSON type in any dict/list display a parser or its helpers return", min_instances=400)
    produce = [f for f in ctx.cg.reachable([repo.func(f"{PM}.parse_payload")]) if f.module.name in (PM, "ramses_tx.helpers", "ramses_tx.opentherm")]
    produce.append(repo.func("ramses_tx.message.MessageBase._idx"))
    by_type = by_prov = 0
    for f in produce:
        for n in own_nodes(f.node):
            vals: list[ast.expr] = []
            keys: list[ast.expr | None] = []
            if isinstance(n, ast.Dict):
                vals, keys = list(n.values), list(n.keys)
            elif isinstance(n, (ast.Set, ast.SetComp)) and isinstance(getattr(n, "parent", None), (ast.Return, ast.Dict)):
                r1.instances += 1
                r1.nontrivial += 1
                r1.fail(f"{f.short}:set-display:{norm(n)[:40]}", f.loc(n), f"{f.short} puts a set into a payload: not JSON-serialisable")
                continue
            for k, v in zip(keys, vals):
                if k is None:
                    continue  # ** unpacking of another checked display
                r1.instances += 1
                at = ctx.cg.atoms(f, v)
                kat = ctx.cg.atoms(f, k) or ()
                if any(a in BAD_TYPES or (a[:2] == "I:" and a[2:] in ("builtins.bytes",)) for a in kat) or any(a == "I:builtins.int" for a in kat) and False:
                    r1.nontrivial += 1
                    r1.fail(f"{f.short}:key:{norm(k)[:40]}", f.loc(k), f"a payload dict key in {f.short} is not a str: {kat}")
                    continue
                if at and "Any" not in at and not any(a.startswith("O:") for a in at):
                    r1.nontrivial += 1
                    by_type += 1
                    bad = [a for a in at if a in BAD_TYPES]
                    if bad:
                        r1.fail(f"{f.short}:{norm(k)[:30]}:{norm(v)[:40]}", f.loc(v), f"{f.short} returns `{norm(v)[:60]}` of type {[b[2:] for b in bad]} under key {norm(k)}: not JSON-serialisable")
                    else:
                        r1.ok(None)
                else:
                    r1.nontrivial += 1
                    by_prov += 1
                    if _provenance_ok(v):
                        r1.ok(None)
                    else:
                        r1.fail(f"{f.short}:{norm(k)[:30]}:{norm(v)[:40]}", f.loc(v), f"{f.short} returns `{norm(v)[:60]}` (untyped) built from something other than payload slices/scalars: cannot be shown JSON-serialisable")
    r1.samples = [{"decided_by_type": by_type, "decided_by_provenance": by_prov, "functions": len(produce)}]
    r1.info = {"decided_by_type": by_type, "decided_by_provenance": by_prov}
    out.append(r1)

    # ---- R2 ---------------------------------------------------------------------------
    r2 = RuleResult("R2", "the decode path is pure", "no clock/RNG/env, no global state, no writes outside the frame's memo fields", min_instances=150)
    reach = [f for f in ctx.cg.reachable([pkt_init, msg_init]) if f.module.name.startswith("ramses_tx")]
    logger_funcs = {f for f in reach if f.module.name == "ramses_tx.logger"}
    # a private method that only a constructor calls (a phase of __init__ split off) is constructor code: it initialises the object
    ctor_parts: set = set()
    for f in reach:
        if f.name == "__init__" and f.cls is not None:
            for cs in ctx.cg.calls_in(f):
                for g in cs.callees:
                    if g.cls is not None and g.name.startswith("_") and not g.name.startswith("__") and isinstance(cs.node, ast.Call) and isinstance(cs.node.func, ast.Attribute) and norm(cs.node.func.value) == "self":
                        callers = {c2.caller for c2 in ctx.cg.callers_of(g)}
                        if callers and all(c.name == "__init__" for c in callers):
                            ctor_parts.add(g)
    for f in reach:
        if f in logger_funcs:
            continue
        r2.instances += 1
        r2.nontrivial += 1
        problems = []
        for n in own_nodes(f.node):
            if isinstance(n, ast.Call) and norm(n.func) in CLOCKS:
                problems.append((n, f"calls {norm(n.func)}()"))
            elif isinstance(n, ast.Attribute) and norm(n) in ("os.environ",):
                problems.append((n, "reads os.environ"))
            elif isinstance(n, ast.Global):
                problems.append((n, f"declares global {', '.join(n.names)}"))
            elif isinstance(n, ast.Attribute) and isinstance(n.ctx, ast.Store):
                base = norm(n.value)
                own = base == "self" or (f.name in ("__init__",) and base == "self")
                if base == "self" and (f.name in ("__init__", "_force_has_array") or f in ctor_parts or n.attr in MEMO_FIELDS):
                    continue
                if base == "result" or base.startswith("result"):
                    continue
                if not own or n.attr not in MEMO_FIELDS:
                    problems.append((n, f"writes {norm(n)}"))
            elif isinstance(n, ast.Subscript) and isinstance(n.ctx, ast.Store):
                b = n.value
                root = b
                while isinstance(root, (ast.Subscript, ast.Attribute)):
                    root = root.value
                if isinstance(root, ast.Name) and root.id.isupper():
                    problems.append((n, f"writes into the module-level table {root.id}"))
        if problems:
            for n, why in problems[:3]:
                r2.fail(f"{f.short}:{why[:50]}", f.loc(n), f"{f.short} is on the decode path and {why}: the decoded payload would depend on more than the packet")
        else:
            r2.ok(None)
    r2.samples = [{"functions_on_decode_path": len(reach), "named_exception": "dt.fromtimestamp (process-constant local timezone)"}]
    # lru_cache only on functions free of the above
    # a memoised function hands the *same object* to every later decode: it must not return a mutable container (the decode path
    # annotates results in place, e.g. parse_payload's result["seqx_num"] = ...), else one packet's payload leaks into another's
    IMMUTABLE = {"I:builtins.str", "I:builtins.int", "I:builtins.float", "I:builtins.bool", "None", "I:builtins.tuple", "I:builtins.bytes", "I:builtins.frozenset", "I:re.Match", "I:ramses_tx.address.Address"}
    n_cached = 0
    for f in reach:
        if any("lru_cache" in d or d in ("cache", "functools.cache", "cached_property") for d in f.decorators):
            n_cached += 1
            r2.instances += 1
            r2.nontrivial += 1
            bad = []
            for n in own_nodes(f.node):
                if isinstance(n, ast.Return) and n.value is not None:
                    v = n.value
                    at = set(ctx.cg.atoms(f, v) or ("Any",))
                    if isinstance(v, (ast.Dict, ast.List, ast.Set, ast.DictComp, ast.ListComp, ast.SetComp)) or (at - IMMUTABLE - {"Any"} and any(a in ("I:builtins.dict", "I:builtins.list", "I:builtins.set", "I:builtins.bytearray") or a.startswith("I:collections") for a in at)):
                        bad.append((n, sorted(at)))
            if bad:
                n0, at0 = bad[0]
                r2.fail(f"{f.short}:cached-mutable-result", f.loc(n0), f"{f.short} is memoised ({', '.join(f.decorators)[:40]}) and returns a mutable container ({norm(n0.value)[:50]}): every decode with the same arguments shares that one object, so an in-place annotation made while decoding one packet shows up in the payloads of later packets")
            else:
                r2.ok({"lru_cache_on": f.short, "returns": "immutable values only"})
    if n_cached < 3:
        raise AnalysisError(f"only {n_cached} memoised functions found on the decode path (expected pkt_addrs, id_to_address, re_compile_re_match ...)")
    out.append(r2)

    # ---- R3 ---------------------------------------------------------------------------
    r3 = RuleResult("R3", "array stride agreement", "array branch steps by 2 x element length; idx from the element's first byte", min_instances=8)
    arr = ctx.const("ramses_tx.ramses", "CODES_WITH_ARRAYS")
    for code, spec in sorted(arr.items()):
        r3.instances += 1
        r3.nontrivial += 1
        pf = repo.funcs.get(f"{PM}.parser_{code.lower()}")
        if pf is None:
            r3.fail(f"parser_{code.lower()}:missing", repo.mod(PM).rel, f"array code {code} has no parser")
            continue
        want = 2 * spec[0]
        # the array walk: every 3-argument range() that runs where `<msg>._has_array` is known true - inside the `if`, or after an
        # `if not <msg>._has_array: return ...` (either way round)
        from .common import known_at as _known_at

        arr_exprs = sorted({norm(n) for n in own_nodes(pf.node) if isinstance(n, ast.Attribute) and n.attr == "_has_array"})
        steps = []
        for n in own_nodes(pf.node):
            if isinstance(n, ast.Call) and norm(n.func) == "range" and len(n.args) == 3:
                st = n
                while not isinstance(st, ast.stmt):
                    st = st.parent  # type: ignore[attr-defined]
                if any(_known_at(st, ae, pf.node) for ae in arr_exprs):
                    steps.append(ctx.consts.eval_in(pf, n.args[2]))
        if steps and all(s == want for s in steps):
            r3.ok({"code": code, "element_bytes": spec[0], "step": want})
        else:
            r3.fail(f"parser_{code.lower()}:stride", pf.loc(), f"parser_{code.lower()} walks an array payload in steps of {steps} hex digits; CODES_WITH_ARRAYS says an element is {spec[0]} bytes = {want} digits")
    out.append(r3)

    # ---- R4 ---------------------------------------------------------------------------
    # Interval reasoning, not text: a quotient raw/D with D in {100, 200} (possibly chosen by a flag) is a ratio; it must be bounded
    # at 1.0 on the way to being returned - by a raising guard/assert on the quotient itself (<= 1.0), or on the raw value with a
    # bound G <= min(D). A bound that only fits the larger divisor (G = 200 with D possibly 100) admits ratios up to 2.0.
    r4 = RuleResult("R4", "ratio guards", "every raw/100|200 ratio is bounded at 1.0 on every path, with no admitted exception", min_instances=5)

    def divisors(e: ast.expr) -> "set[int] | None":
        if isinstance(e, ast.Constant) and isinstance(e.value, int) and e.value in (100, 200):
            return {e.value}
        if isinstance(e, ast.IfExp):
            a, b = divisors(e.body), divisors(e.orelse)
            return a | b if a and b else None
        return None

    def strip_float(e: ast.expr) -> ast.expr:
        while isinstance(e, ast.Call) and norm(e.func) in ("float", "int") and len(e.args) == 1 and norm(e.func) == "float":
            e = e.args[0]
        return e

    for f in [g for g in repo.funcs.values() if g.module.name in (PM, "ramses_tx.helpers")]:
        for n in own_nodes(f.node):
            if not (isinstance(n, ast.BinOp) and isinstance(n.op, ast.Div)):
                continue
            ds = divisors(n.right)
            raw = strip_float(n.left)
            if not ds or not (("int(" in norm(raw)) or isinstance(raw, ast.Name)):
                continue
            # a ratio is one octet over 100/200; a 4-hex value over 100 is a scaled quantity (flow, temperature), not a ratio
            hexarg = None
            for x in ast.walk(raw if not isinstance(raw, ast.Name) else f.node):
                if isinstance(x, ast.Call) and norm(x.func) == "int" and len(x.args) == 2 and norm(x.args[1]) == "16":
                    if isinstance(raw, ast.Name):
                        par2 = getattr(x, "parent", None)
                        bound = (isinstance(par2, ast.NamedExpr) and par2.target.id == raw.id) or (isinstance(par2, ast.Assign) and any(isinstance(t, ast.Name) and t.id == raw.id for t in par2.targets))
                        if not bound:
                            continue
                    hexarg = x.args[0]
                    break
            if hexarg is None or not _is_octet(f, hexarg):
                continue
            if isinstance(raw, ast.Name):
                # the name must be bound from int(<hex>, 16) (assignment or walrus) in this function
                if not any((isinstance(x, ast.NamedExpr) and x.target.id == raw.id and "int(" in norm(x.value)) or (isinstance(x, ast.Assign) and any(isinstance(t, ast.Name) and t.id == raw.id for t in x.targets) and "int(" in norm(x.value)) for x in ast.walk(f.node)):
                    continue
            r4.instances += 1
            r4.nontrivial += 1
            par = getattr(n, "parent", None)
            var = norm(par.targets[0]) if isinstance(par, ast.Assign) and len(par.targets) == 1 else None
            src = norm(raw)
            ok_guard = None
            weak = None
            for g in ast.walk(f.node):
                # what holds after the statement: an assert's test; the negation of an `if <t>: raise/return`
                if isinstance(g, ast.Assert):
                    atoms, disj = _implied_atoms(g.test, True), (isinstance(g.test, ast.BoolOp) and isinstance(g.test.op, ast.Or))
                elif isinstance(g, ast.If) and g.body and (isinstance(g.body[-1], ast.Raise) or (isinstance(g.body[-1], ast.Return) and g.body[-1].value is not None and (not var or var not in {x.id for x in ast.walk(g.body[-1].value) if isinstance(x, ast.Name)}))):
                    atoms, disj = _implied_atoms(g.test, False), False
                else:
                    continue
                cands = atoms if atoms else ([(x, True) for x in g.test.values] if disj else [])  # type: ignore[union-attr]
                for a, holds in cands:
                    b = _upper_bound(a, holds)
                    if b is None:
                        continue
                    subj, bound = b
                    if var and subj == var and bound <= 1.0:
                        if disj and not atoms:
                            weak = weak or norm(g.test)
                        else:
                            ok_guard = ok_guard or f"{subj} <= {bound}"
                    elif subj == src:
                        if disj and not atoms:
                            weak = weak or norm(g.test)
                        elif bound <= min(ds):
                            ok_guard = ok_guard or f"{subj} <= {bound} (divisor >= {min(ds)})"
                        else:
                            weak = weak or f"{norm(g.test) if isinstance(g, ast.Assert) else 'not (' + norm(g.test) + ')'}: bounds the raw value at {bound:g} but the divisor may be {min(ds)}"
            if ok_guard:
                r4.ok({"site": f"{f.short}: {norm(n)}", "guard": ok_guard})
            elif weak:
                r4.fail(f"{f.short}:{norm(n)}:weak-guard", f.loc(n), f"the ratio `{norm(n)}` in {f.short} is guarded by `{weak}`, which admits a ratio > 1.0")
            else:
                r4.fail(f"{f.short}:{norm(n)}:unguarded", f.loc(n), f"the ratio `{norm(n)}` in {f.short} has no guard for values > 1.0")
    out.append(r4)

    # ---- R5 ---------------------------------------------------------------------------
    r5 = RuleResult("R5", "exhaustive dispatch", "every code in CODES_SCHEMA has a parser the registry selects", min_instances=100)
    schema = ctx.const("ramses_tx.ramses", "CODES_SCHEMA")
    have = {p.name[7:].upper() for p in parsers}
    for code in sorted(schema):
        r5.instances += 1
        r5.nontrivial += 1
        if code in have:
            r5.ok(None)
        else:
            near = [f.name for f in repo.mod(PM).funcs.values() if f.name.lower().startswith(f"parser_{code.lower()}")]
            r5.fail(f"CODES_SCHEMA:{code}:no-parser", repo.mod(PM).rel, f"code {code} is in CODES_SCHEMA but no parser_{code.lower()} is selected by the registry (falls back to parser_unknown){'; near-miss: ' + str(near) if near else ''}")
    r5.samples = [{"schema_codes": len(schema), "registered_parsers": len(have)}]
    out.append(r5)

    # ---- R6 ---------------------------------------------------------------------------
    # "an array decodes to exactly the list of what each element decodes to on its own": inside the array walk, the value built for
    # element i may read the payload only through slices placed relative to i (and the message's invariants: verb, source, length
    # flags) - a value computed once from an absolute position of the payload (its first byte, its length) and reused for every
    # element makes an element decode differently depending on its neighbours
    from .common import facts_at
    from .common import single_defs as _sd6

    r6 = RuleResult("R6", "array elements decode on their own", "inside the array walk of every array-capable parser, the payload is read only through slices relative to the walk's index", min_instances=8)
    for code, spec in sorted(arr.items()):
        pf = repo.funcs.get(f"{PM}.parser_{code.lower()}")
        if pf is None:
            continue
        arr_exprs = sorted({norm(n) for n in own_nodes(pf.node) if isinstance(n, ast.Attribute) and n.attr == "_has_array"})
        params = [a.arg for a in pf.node.args.args]
        pay = params[0] if params else "payload"
        defs = _sd6(pf.node)
        walks = []
        for n in own_nodes(pf.node):
            if isinstance(n, ast.Call) and norm(n.func) == "range" and len(n.args) == 3:
                st = n
                while not isinstance(st, ast.stmt):
                    st = st.parent  # type: ignore[attr-defined]
                if any(_known_at(st, ae, pf.node) for ae in arr_exprs):
                    walks.append(n)
        for rng in walks:
            holder = getattr(rng, "parent", None)
            var = None
            elems: list[ast.AST] = []
            if isinstance(holder, ast.comprehension) and isinstance(holder.target, ast.Name):
                var = holder.target.id
                comp = getattr(holder, "parent", None)
                elems = [comp.elt] if hasattr(comp, "elt") else ([comp.key, comp.value] if isinstance(comp, ast.DictComp) else [])
                elems += list(holder.ifs)
            elif isinstance(holder, (ast.For, ast.AsyncFor)) and isinstance(holder.target, ast.Name):
                var = holder.target.id
                elems = list(holder.body)
            if var is None or not elems:
                continue
            r6.instances += 1
            r6.nontrivial += 1
            bad: list[str] = []
            for el in elems:
                for x in ast.walk(el):
                    if isinstance(x, ast.Subscript) and isinstance(x.value, ast.Name) and x.value.id == pay:
                        if not any(isinstance(y, ast.Name) and y.id == var for y in ast.walk(x.slice)):
                            bad.append(f"`{norm(x)}` (an absolute position of the payload)")
                    elif isinstance(x, ast.Name) and isinstance(x.ctx, ast.Load) and x.id in defs and x.id not in (var, pay):
                        d = defs[x.id]
                        if any(isinstance(y, ast.Name) and y.id == pay for y in ast.walk(d)) and not any(isinstance(y, ast.Name) and y.id == var for y in ast.walk(d)):
                            bad.append(f"`{x.id}` (= {norm(d)[:50]}, computed once from the whole payload)")
                    elif isinstance(x, ast.Call) and isinstance(x.func, ast.Name) and x.func.id == "len" and x.args and isinstance(x.args[0], ast.Name) and x.args[0].id == pay:
                        bad.append("`len(payload)` (the number of elements)")
            # names bound by if/else before the walk from an absolute position (not single definitions): found through the
            # statements that bind them
            multi: dict[str, list[ast.expr]] = {}
            for n in own_nodes(pf.node):
                if isinstance(n, ast.Assign) and len(n.targets) == 1 and isinstance(n.targets[0], ast.Name) and n.targets[0].id not in defs:
                    multi.setdefault(n.targets[0].id, []).append(n)
            for el in elems:
                for x in ast.walk(el):
                    if isinstance(x, ast.Name) and isinstance(x.ctx, ast.Load) and x.id in multi and x.id not in (var, pay):
                        for asg in multi[x.id]:
                            if any(id(asg) == id(y) for e2 in elems for y in ast.walk(e2)):
                                continue  # bound inside the walk itself
                            tests = [t for t, _v in facts_at(asg)]
                            if any(isinstance(y, ast.Name) and y.id == pay for t in tests + [asg.value] for y in ast.walk(t)):
                                bad.append(f"`{x.id}` (chosen before the walk by a test of the whole payload: {norm(tests[0])[:40] if tests else norm(asg.value)[:40]})")
            bad = sorted(set(bad))
            if bad:
                r6.fail(f"parser_{code.lower()}:element-reads-whole-payload", pf.loc(rng), f"in parser_{code.lower()}'s array walk the value of an element depends on {'; '.join(bad)[:260]}: the same element decodes differently depending on what else is in the array")
            else:
                r6.ok({"code": code, "walk": norm(rng), "payload_read_only_relative_to": var})
    out.append(r6)
    return out


def _implied_atoms(t: ast.expr, edge: bool) -> "list[tuple[ast.expr, bool]]":
    if isinstance(t, ast.UnaryOp) and isinstance(t.op, ast.Not):
        return _implied_atoms(t.operand, not edge)
    if isinstance(t, ast.BoolOp):
        if (isinstance(t.op, ast.And) and edge) or (isinstance(t.op, ast.Or) and not edge):
            return [x for v in t.values for x in _implied_atoms(v, edge)]
        return []
    return [(t, edge)]


def _upper_bound(a: ast.expr, holds: bool) -> "tuple[str, float] | None":
    """(subject text, upper bound) established by a comparison atom that is known to be `holds`."""
    if not (isinstance(a, ast.Compare) and len(a.ops) == 1):
        return None
    l, r, op = a.left, a.comparators[0], a.ops[0]
    def num(e: ast.expr) -> "float | None":
        return float(e.value) if isinstance(e, ast.Constant) and isinstance(e.value, (int, float)) and not isinstance(e.value, bool) else None
    k = num(r)
    if k is not None:
        subj = norm(l)
        if holds and isinstance(op, (ast.LtE, ast.Lt)):
            return subj, k
        if not holds and isinstance(op, (ast.Gt, ast.GtE)):
            return subj, k
    k = num(l)
    if k is not None:
        subj = norm(r)
        if holds and isinstance(op, (ast.GtE, ast.Gt)):
            return subj, k
        if not holds and isinstance(op, (ast.Lt, ast.LtE)):
            return subj, k
    return None


def _is_octet(f, e: ast.expr) -> bool:
    """A 2-hex-character operand: a slice of width 2, or a parameter annotated HexStr2 / length-checked `len(x) != 2`."""
    if isinstance(e, ast.Subscript) and isinstance(e.slice, ast.Slice):
        lo = 0 if e.slice.lower is None else getattr(e.slice.lower, "value", None)
        hi = getattr(e.slice.upper, "value", None)
        return isinstance(lo, int) and isinstance(hi, int) and hi - lo == 2
    if isinstance(e, ast.Name):
        for a in f.node.args.posonlyargs + f.node.args.args + f.node.args.kwonlyargs:
            if a.arg == e.id and a.annotation is not None and "HexStr2" in norm(a.annotation):
                return True
        for n in ast.walk(f.node):
            if isinstance(n, ast.Compare) and norm(n.left) == f"len({e.id})" and len(n.ops) == 1 and isinstance(n.ops[0], ast.NotEq) and norm(n.comparators[0]) == "2":
                return True
        # a closure parameter fed with 2-wide slices by its enclosing function
        if f.parent is not None:
            calls = [c for c in ast.walk(f.parent.node) if isinstance(c, ast.Call) and isinstance(c.func, ast.Name) and c.func.id == f.name and c.args]
            params = [a.arg for a in f.node.args.args]
            if e.id in params and calls:
                i = params.index(e.id)
                return all(len(c.args) > i and _is_octet(f.parent, c.args[i]) for c in calls)
    return False
