"""C14 - State is fresh: attributes reflect the newest live message, stale data ages out."""

from __future__ import annotations

import ast
import datetime as _dt

from ..consteval import TOP
from ..context import Ctx
from ..dep import Deps
from ..loader import AnalysisError, norm, own_nodes
from ..report import RuleResult

META = {
    "explanation": (
        "C14.R1 expired => not reported - in _MessageDB._msg_value_msg every path on which msg._expired evaluated true reaches `return None` "
        "(scheduling _delete_msg on the way is allowed). C14.R2 thresholds - Message._expired compares with >= HAS_EXPIRED, HAS_EXPIRED folds "
        "to 2.0, the 3 s grace is subtracted from the age, the latch branch precedes any recomputation (expiry never un-happens) and "
        "CANT_EXPIRE short-circuits to False. C14.R3 the lifetime depends on the kind only - pkt_lifespan returns a timedelta on every path, "
        "depends only on verb/code/_has_array/the 3220 data-id and calls no clock; SZ_LIFESPAN rows fold to timedelta|False|None. "
        "C14.R4 latest wins per key - _MessageDB._handle_msg stores unconditionally under [code] and [code][verb][ctx] with keys taken from "
        "the message itself. Not decided: freshness under interleaving as a trace property."
    ),
}

EB = "ramses_rf.entity_base"
M = "ramses_tx.message"


def check(ctx: Ctx) -> list[RuleResult]:
    repo = ctx.repo
    out: list[RuleResult] = []

    # ---- R1 ---------------------------------------------------------------------------
    r1 = RuleResult("R1", "expired => not reported", "every path through the true edge of `msg._expired` ends in `return None`", min_instances=1)
    f = repo.func(f"{EB}._MessageDB._msg_value_msg")
    cfg = ctx.plain_cfg(f)
    tests = [t for t in cfg.nodes if t.kind == "test" and norm(t.ast) == "msg._expired"]
    if not tests:
        raise AnalysisError("_msg_value_msg no longer tests msg._expired")
    for t in tests:
        r1.instances += 1
        r1.nontrivial += 1
        starts = [y for y, lab in cfg.succ[t.id] if lab == "true"]
        bad = []
        seen = set(starts)
        todo = list(starts)
        while todo:
            x = todo.pop()
            nx = cfg.nodes[x]
            if nx.kind == "stmt" and isinstance(nx.ast, ast.Return):
                if not (nx.ast.value is None or (isinstance(nx.ast.value, ast.Constant) and nx.ast.value.value is None)):
                    bad.append(nx)
                continue
            for y, _lab in cfg.succ[x]:
                if y not in seen:
                    seen.add(y)
                    todo.append(y)
        if bad:
            r1.fail(f"{f.short}:expired-value-returned", f.loc(t.ast), f"after `msg._expired` was true, {f.short} can still return a value (`{norm(bad[0].ast)[:60]}`): a stale value is reported once more before it is deleted", [f"{len(bad)} value-returning exit(s) reachable from the expired branch"])
        else:
            r1.ok({"expired_branch": "all reachable returns are `return None`"})
    out.append(r1)

    # ---- R2 ---------------------------------------------------------------------------
    r2 = RuleResult("R2", "expiry thresholds and latch", ">= HAS_EXPIRED (2.0); 3 s grace subtracted; latch first; CANT_EXPIRE -> False", min_instances=5)
    ex = repo.func(f"{M}.Message._expired")
    mc = repo.cls(f"{M}.Message")
    has = ctx.consts.eval_in(repo.mod(M), mc.class_attr("HAS_EXPIRED"))
    r2.instances += 1
    r2.nontrivial += 1
    if isinstance(has, (int, float)) and has == 2.0:
        r2.ok({"HAS_EXPIRED": has})
    else:
        r2.fail("Message.HAS_EXPIRED", ex.loc(), f"HAS_EXPIRED folds to {has!r}, expected 2.0 (never before the lifetime has passed, always after twice the lifetime)")
    r2.instances += 1
    r2.nontrivial += 1
    rets = [n for n in own_nodes(ex.node) if isinstance(n, ast.Return) and n.value is not None and isinstance(n.value, ast.Compare)]
    if rets and all(norm(r.value) == "self._fraction_expired >= self.HAS_EXPIRED" for r in rets):
        r2.ok({"final_comparison": norm(rets[0].value)})
    else:
        r2.fail(f"{ex.short}:comparison", ex.loc(), f"_expired no longer returns `_fraction_expired >= HAS_EXPIRED`: {[norm(r.value) for r in rets]}")
    fe = ex.nested.get("fraction_expired")
    if fe is None:
        raise AnalysisError("Message._expired.fraction_expired not found")
    grace = ctx.consts.get(M, "_TD_SECS_003")
    r2.instances += 1
    r2.nontrivial += 1
    age = [n for n in own_nodes(fe.node) if isinstance(n, ast.BinOp) and isinstance(n.op, ast.Sub) and norm(n.right) == "_TD_SECS_003" and "self._gwy._dt_now() - self.dtm" in norm(n.left)]
    if age and isinstance(grace, _dt.timedelta) and grace == _dt.timedelta(seconds=3):
        r2.ok({"age": norm(age[0]), "grace": str(grace)})
    else:
        r2.fail(f"{fe.short}:age", fe.loc(), f"the message age is no longer (now - dtm - 3 s) (grace folds to {grace!r})")
    r2.instances += 1
    r2.nontrivial += 1
    divs = [n for n in own_nodes(fe.node) if isinstance(n, ast.BinOp) and isinstance(n.op, ast.Div) and norm(n.right) == "lifespan"]
    if divs:
        r2.ok({"fraction": norm(divs[0])})
    else:
        r2.fail(f"{fe.short}:fraction", fe.loc(), "the expired fraction is no longer age / lifespan")
    # latch precedes recomputation
    r2.instances += 1
    r2.nontrivial += 1
    body = [s for s in ex.node.body if not isinstance(s, (ast.FunctionDef, ast.Expr))]
    first = body[0] if body else None
    ok_latch = False
    if isinstance(first, ast.If) and norm(first.test) == "self._fraction_expired is not None":
        inner = [norm(s) for s in first.body]
        ok_latch = any("self._fraction_expired == self.CANT_EXPIRE" in s and "return False" in s for s in inner) and any("self._fraction_expired >= self.HAS_EXPIRED" in s and "return True" in s for s in inner)
    if ok_latch:
        r2.ok({"latch": "CANT_EXPIRE -> False, already expired -> True, before any recomputation"})
    else:
        r2.fail(f"{ex.short}:latch", ex.loc(), "_expired no longer starts with the latch (CANT_EXPIRE -> False; fraction >= HAS_EXPIRED -> True): expiry could un-happen")
    out.append(r2)

    # ---- R3 ---------------------------------------------------------------------------
    r3 = RuleResult("R3", "the lifetime depends on the kind only", "pkt_lifespan returns a timedelta on every path, from verb/code/_has_array/3220 id only, no clock", min_instances=3)
    pl = repo.func("ramses_tx.packet.pkt_lifespan")
    cfgp = ctx.plain_cfg(pl)
    r3.instances += 1
    r3.nontrivial += 1
    rets = [n for n in own_nodes(pl.node) if isinstance(n, ast.Return)]
    falls_through = any(lab == "fallthrough" for _x, lab in cfgp.pred[cfgp.exit.id])
    bad_ret = []
    for r in rets:
        at = ctx.cg.atoms(pl, r.value) if r.value is not None else ("None",)
        if r.value is None or not at or any(a != "I:datetime.timedelta" for a in at):
            bad_ret.append(norm(r))
    if not bad_ret and not falls_through and len(rets) >= 10:
        r3.ok({"returns": len(rets), "all_timedelta": True})
    else:
        r3.fail(f"{pl.short}:returns", pl.loc(), f"pkt_lifespan can return a non-timedelta / fall off the end: {bad_ret[:3]} fallthrough={falls_through}")
    r3.instances += 1
    r3.nontrivial += 1
    reads = set()
    for n in own_nodes(pl.node):
        if isinstance(n, ast.Attribute) and isinstance(n.value, ast.Name) and n.value.id == "pkt":
            reads.add(n.attr)
    allowed = {"verb", "code", "_has_array", "payload"}
    clocks = [norm(n.func) for n in own_nodes(pl.node) if isinstance(n, ast.Call) and norm(n.func) in ("dt.now", "dt_now", "time.time", "perf_counter")]
    pay_uses = [norm(n) for n in own_nodes(pl.node) if isinstance(n, ast.Subscript) and norm(n.value) == "pkt.payload"]
    if reads <= allowed and not clocks and all(p == "pkt.payload[4:6]" for p in pay_uses):
        r3.ok({"reads": sorted(reads), "payload_use": sorted(set(pay_uses)), "clock_calls": 0})
    else:
        r3.fail(f"{pl.short}:inputs", pl.loc(), f"pkt_lifespan reads {sorted(reads - allowed)} / payload {sorted(set(pay_uses))} / clocks {clocks}: the lifetime must depend on the message kind only")
    schema = ctx.const("ramses_tx.ramses", "CODES_SCHEMA")
    key = ctx.const("ramses_tx.ramses", "SZ_LIFESPAN")
    n_rows = 0
    badrows = []
    for code, row in schema.items():
        if key in row:
            n_rows += 1
            v = row[key]
            if not (v is None or v is False or isinstance(v, _dt.timedelta)):
                badrows.append((code, v))
    r3.instances += 1
    r3.nontrivial += 1
    if n_rows >= 20 and not badrows:
        r3.ok({"lifespan_rows": n_rows, "types": "timedelta | False | None"})
    else:
        r3.fail("CODES_SCHEMA:lifespan-rows", repo.mod("ramses_tx.ramses").rel, f"lifespan rows not foldable to timedelta|False|None: {badrows[:4]} ({n_rows} rows)")
    out.append(r3)

    # ---- R4 ---------------------------------------------------------------------------
    r4 = RuleResult("R4", "latest wins per key", "_handle_msg stores unconditionally under [code] and [code][verb][ctx], keys from the message itself", min_instances=4)
    hm = repo.func(f"{EB}._MessageDB._handle_msg")
    stores = [n for n in own_nodes(hm.node) if isinstance(n, ast.Assign) and isinstance(n.targets[0], ast.Subscript)]
    if len(stores) < 4:
        raise AnalysisError("_MessageDB._handle_msg: stores not found")
    for s in stores:
        r4.instances += 1
        r4.nontrivial += 1
        t = norm(s.targets[0])
        v = norm(s.value)
        ok = (t == "self._msgs_[msg.code]" and v == "msg") or (t.startswith("self._msgz_[msg.code]") and "msg" in v and all(k in ("msg.code", "msg.verb", "msg._pkt._ctx") for k in _keys(s.targets[0])))
        if ok:
            r4.ok({"store": f"{t} = {v[:40]}"})
        else:
            r4.fail(f"{hm.short}:{t[:50]}", hm.loc(s), f"`{t} = {v[:40]}` does not store the message under its own code/verb/context")
    # no age comparison guards the store (latest arrival wins)
    r4.instances += 1
    r4.nontrivial += 1
    guards = [norm(n.test) for n in own_nodes(hm.node) if isinstance(n, ast.If) and "dtm" in norm(n.test)]
    if not guards:
        r4.ok({"store_is_unconditional": True})
    else:
        r4.fail(f"{hm.short}:conditional-store", hm.loc(), f"the store is guarded by {guards}")
    out.append(r4)
    return out


def _keys(t: ast.Subscript) -> list[str]:
    out = []
    cur: ast.AST = t
    while isinstance(cur, ast.Subscript):
        out.append(norm(cur.slice))
        cur = cur.value
    return out
