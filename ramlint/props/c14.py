"""C14 - State is fresh: attributes reflect the newest live message, stale data ages out."""

from __future__ import annotations

import ast
import datetime as _dt

from ..consteval import TOP
from ..context import Ctx
from ..dep import Deps
from ..loader import AnalysisError, norm, own_nodes
from ..report import RuleResult
from .common import _always_leaves, expand, xnorm

META = {
    "explanation": (
        "C14.R1 expired => not reported - in _MessageDB._msg_value_msg every path on which msg._expired evaluated true reaches `return None` "
        "(scheduling _delete_msg on the way is allowed). C14.R2 thresholds - Message._expired compares with >= HAS_EXPIRED, HAS_EXPIRED folds "
        "to 2.0, the 3 s grace is subtracted from the age, the latch branch precedes any recomputation (expiry never un-happens) and "
        "CANT_EXPIRE short-circuits to False. C14.R3 the lifetime depends on the kind only - pkt_lifespan returns a timedelta on every path, "
        "depends only on verb/code/_has_array/the 3220 data-id and calls no clock; SZ_LIFESPAN rows fold to timedelta|False|None. "
        "C14.R4 latest wins per key - _MessageDB._handle_msg stores unconditionally under [code] and [code][verb][ctx] with keys taken from "
        "the message itself. Not decided: freshness under interleaving as a trace property."
    ),
}
META["explanation"] += ' C14.R4 is decided on the key paths of every store. C14.R5: the message handed to the value reader is a keyed lookup or max() over all candidates. C14.R6: decision table of the expiry update chain - every non-RQ 1F09 uses the payload countdown. C14.R7: no entity property reads <Message>.payload (or an attribute caching a payload) without an _expired test.'
META["explanation"] += " C14.R2 also: a 'not expired' verdict is never served from the memo except 'cannot expire' (decision table with effects)."

EB = "ramses_rf.entity_base"
M = "ramses_tx.message"


def check(ctx: Ctx) -> list[RuleResult]:
    repo = ctx.repo
    out: list[RuleResult] = []

    # ---- R1 ---------------------------------------------------------------------------
    r1 = RuleResult("R1", "expired => not reported", "every path through the true edge of `msg._expired` ends in `return None`", min_instances=1)
    f = repo.func(f"{EB}._MessageDB._msg_value_msg")
    cfg = ctx.plain_cfg(f)
    tests = [t for t in cfg.nodes if t.kind == "test" and norm(t.ast) == "msg._expired"]
    if not tests:
        raise AnalysisError("_msg_value_msg no longer tests msg._expired")
    for t in tests:
        r1.instances += 1
        r1.nontrivial += 1
        starts = [y for y, lab in cfg.succ[t.id] if lab == "true"]
        bad = []
        seen = set(starts)
        todo = list(starts)
        while todo:
            x = todo.pop()
            nx = cfg.nodes[x]
            if nx.kind == "stmt" and isinstance(nx.ast, ast.Return):
                if not (nx.ast.value is None or (isinstance(nx.ast.value, ast.Constant) and nx.ast.value.value is None)):
                    bad.append(nx)
                continue
            for y, _lab in cfg.succ[x]:
                if y not in seen:
                    seen.add(y)
                    todo.append(y)
        if bad:
            r1.fail(f"{f.short}:expired-value-returned", f.loc(t.ast), f"after `msg._expired` was true, {f.short} can still return a value (`{norm(bad[0].ast)[:60]}`): a stale value is reported once more before it is deleted", [f"{len(bad)} value-returning exit(s) reachable from the expired branch"])
        else:
            r1.ok({"expired_branch": "all reachable returns are `return None`"})
    out.append(r1)

    # ---- R2 ---------------------------------------------------------------------------
    r2 = RuleResult("R2", "expiry thresholds and latch", ">= HAS_EXPIRED (2.0); 3 s grace subtracted; latch first; CANT_EXPIRE -> False", min_instances=5)
    ex = repo.func(f"{M}.Message._expired")
    mc = repo.cls(f"{M}.Message")
    has = ctx.consts.eval_in(repo.mod(M), mc.class_attr("HAS_EXPIRED"))
    r2.instances += 1
    r2.nontrivial += 1
    if isinstance(has, (int, float)) and has == 2.0:
        r2.ok({"HAS_EXPIRED": has})
    else:
        r2.fail("Message.HAS_EXPIRED", ex.loc(), f"HAS_EXPIRED folds to {has!r}, expected 2.0 (never before the lifetime has passed, always after twice the lifetime)")
    r2.instances += 1
    r2.nontrivial += 1
    rets = [n for n in own_nodes(ex.node) if isinstance(n, ast.Return) and n.value is not None and isinstance(n.value, ast.Compare)]
    if rets and all(norm(r.value) == "self._fraction_expired >= self.HAS_EXPIRED" for r in rets):
        r2.ok({"final_comparison": norm(rets[0].value)})
    else:
        r2.fail(f"{ex.short}:comparison", ex.loc(), f"_expired no longer returns `_fraction_expired >= HAS_EXPIRED`: {[norm(r.value) for r in rets]}")
    # the age/fraction arithmetic may be inlined into _expired itself, be a nested closure, or a private method it calls
    _cands = [ex] + list(ex.nested.values()) + [c for site in ctx.cg.calls_in(ex) for c in site.callees if c.module is ex.module]
    fe = next((g for g in _cands if any(isinstance(n, ast.BinOp) and isinstance(n.op, ast.Sub) and norm(n.right) == "_TD_SECS_003" for n in ast.walk(g.node))), ex)
    grace = ctx.consts.get(M, "_TD_SECS_003")
    r2.instances += 1
    r2.nontrivial += 1
    age = [n for n in ast.walk(fe.node) if isinstance(n, ast.BinOp) and isinstance(n.op, ast.Sub) and norm(n.right) == "_TD_SECS_003" and "self._gwy._dt_now() - self.dtm" in norm(n.left)]
    if age and isinstance(grace, _dt.timedelta) and grace == _dt.timedelta(seconds=3):
        r2.ok({"age": norm(age[0]), "grace": str(grace)})
    else:
        r2.fail(f"{fe.short}:age", fe.loc(), f"the message age is no longer (now - dtm - 3 s) (grace folds to {grace!r})")
    r2.instances += 1
    r2.nontrivial += 1
    divs = [n for n in ast.walk(fe.node) if isinstance(n, ast.BinOp) and isinstance(n.op, ast.Div) and "lifespan" in norm(n.right) and "age" in norm(n.left)]
    if divs:
        r2.ok({"fraction": norm(divs[0])})
    else:
        r2.fail(f"{fe.short}:fraction", fe.loc(), "the expired fraction is no longer age / lifespan")
    # a "not expired" verdict is never served from the memo: in the decision table of _expired every row that answers False
    # without re-computing the fraction (no call of the age/fraction helper) is the "cannot expire" case
    from ..predeval import PredEval as _PE, Unsupported as _Un

    r2.instances += 1
    r2.nontrivial += 1
    try:
        tabx = _PE(ctx, ex).table()
    except _Un as err:
        raise AnalysisError(f"Message._expired is not a decision procedure the evaluator understands: {err}") from err
    CANT = "self._fraction_expired == self.CANT_EXPIRE"
    LIFE = "self._pkt._lifespan"
    LIFE_F = "self._pkt._lifespan is False"  # the same test when the lifespan is first read into a local
    if CANT not in tabx.atoms:
        # the memo's "cannot expire" answer is keyed on something other than equality with the sentinel: which test of the memoised
        # fraction lets _expired answer False without recomputing? a *computed* fraction can satisfy an inequality (it is negative
        # during the 3 s grace), and would then be latched as "never expires"
        lax = sorted({k for a, r in tabx.rows if r is False and not a["__effects__"] and a.get("self._fraction_expired", "?") is not None for k, v in a.items() if v is True and isinstance(k, str) and "self._fraction_expired" in k and k != "self._fraction_expired"})
        if lax:
            r2.fail(f"{ex.short}:cant-expire-test-not-the-sentinel", ex.loc(), f"Message._expired answers 'not expired' from the memo under `{lax[0]}` instead of equality with the CANT_EXPIRE sentinel: a fraction computed inside the 3 s grace window is negative too, so a message first looked at right after it arrived is latched as never expiring")
            out.append(r2)
            return out
        raise AnalysisError(f"Message._expired: expected tests not found (atoms={tabx.atoms}, subjects={list(tabx.subjects)})")
    if LIFE not in tabx.subjects and LIFE_F not in tabx.atoms:
        raise AnalysisError(f"Message._expired: expected tests not found (atoms={tabx.atoms}, subjects={list(tabx.subjects)})")
    # latch: once a verdict is memoised as expired (fraction >= HAS_EXPIRED) or cannot-expire, it is returned without recomputation
    # (no call on that path) - expiry never un-happens. Read off the same table.
    r2.instances += 1
    r2.nontrivial += 1
    GE = "self._fraction_expired >= self.HAS_EXPIRED"
    FRS = "self._fraction_expired"
    if GE not in tabx.atoms:
        raise AnalysisError(f"Message._expired: the memoised fraction is never compared with HAS_EXPIRED (atoms={tabx.atoms})")
    memo_rows = [(a, r) for a, r in tabx.rows if a.get(FRS, "?") is not None]
    unlatched = [(a, r) for a, r in memo_rows if (a.get(CANT) is True and (r is not False or a["__effects__"])) or (a.get(CANT) is not True and a.get(GE) is True and (r is not True or a["__effects__"]))]
    if not memo_rows:
        raise AnalysisError("Message._expired: no row with a memoised fraction in the decision table")
    if unlatched:
        a0, r0 = unlatched[0]
        r2.fail(f"{ex.short}:latch", ex.loc(), "_expired does not return a memoised verdict as it is (cannot-expire -> False; already expired -> True, both without recomputation): expiry could un-happen: " + tabx.describe({k: v for k, v in a0.items() if k != "__effects__"})[:200] + f" -> {r0}, calls {list(a0['__effects__'])[:2]}")
    else:
        r2.ok({"latch": "CANT_EXPIRE -> False, already expired -> True, before any recomputation", "rows": len(memo_rows)})
    stale = [a for a, r in tabx.rows if r is False and not a["__effects__"] and not (a.get(LIFE) is False or a.get(LIFE_F) is True or (a.get(CANT) is True and a.get("self._fraction_expired") is not None))]
    if stale:
        a0 = stale[0]
        r2.fail(f"{ex.short}:false-from-memo", ex.loc(), "_expired can answer False from the memoised fraction without re-computing it from the clock: a message evaluated once while young is never seen to expire: " + tabx.describe({k: v for k, v in a0.items() if k != "__effects__"})[:260])
    else:
        r2.ok({"false_verdicts": "always recomputed from the clock, except 'cannot expire'", "rows": len(tabx.rows)})
    out.append(r2)

    # ---- R3 ---------------------------------------------------------------------------
    r3 = RuleResult("R3", "the lifetime depends on the kind only", "pkt_lifespan returns a timedelta on every path, from verb/code/_has_array/3220 id only, no clock", min_instances=3)
    pl = repo.func("ramses_tx.packet.pkt_lifespan")
    cfgp = ctx.plain_cfg(pl)
    r3.instances += 1
    r3.nontrivial += 1
    rets = [n for n in own_nodes(pl.node) if isinstance(n, ast.Return)]
    falls_through = any(lab == "fallthrough" for _x, lab in cfgp.pred[cfgp.exit.id])
    bad_ret = []
    for r in rets:
        at = ctx.cg.atoms(pl, r.value) if r.value is not None else ("None",)
        if r.value is None or not at or any(a != "I:datetime.timedelta" for a in at):
            bad_ret.append(norm(r))
    if not bad_ret and not falls_through and len(rets) >= 10:
        r3.ok({"returns": len(rets), "all_timedelta": True})
    else:
        r3.fail(f"{pl.short}:returns", pl.loc(), f"pkt_lifespan can return a non-timedelta / fall off the end: {bad_ret[:3]} fallthrough={falls_through}")
    r3.instances += 1
    r3.nontrivial += 1
    reads = set()
    for n in own_nodes(pl.node):
        if isinstance(n, ast.Attribute) and isinstance(n.value, ast.Name) and n.value.id == "pkt":
            reads.add(n.attr)
    allowed = {"verb", "code", "_has_array", "payload"}
    clocks = [norm(n.func) for n in own_nodes(pl.node) if isinstance(n, ast.Call) and norm(n.func) in ("dt.now", "dt_now", "time.time", "perf_counter")]
    pay_uses = [norm(n) for n in own_nodes(pl.node) if isinstance(n, ast.Subscript) and norm(n.value) == "pkt.payload"]
    if reads <= allowed and not clocks and all(p == "pkt.payload[4:6]" for p in pay_uses):
        r3.ok({"reads": sorted(reads), "payload_use": sorted(set(pay_uses)), "clock_calls": 0})
    else:
        r3.fail(f"{pl.short}:inputs", pl.loc(), f"pkt_lifespan reads {sorted(reads - allowed)} / payload {sorted(set(pay_uses))} / clocks {clocks}: the lifetime must depend on the message kind only")
    schema = ctx.const("ramses_tx.ramses", "CODES_SCHEMA")
    key = ctx.const("ramses_tx.ramses", "SZ_LIFESPAN")
    n_rows = 0
    badrows = []
    for code, row in schema.items():
        if key in row:
            n_rows += 1
            v = row[key]
            if not (v is None or v is False or isinstance(v, _dt.timedelta)):
                badrows.append((code, v))
    r3.instances += 1
    r3.nontrivial += 1
    if n_rows >= 20 and not badrows:
        r3.ok({"lifespan_rows": n_rows, "types": "timedelta | False | None"})
    else:
        r3.fail("CODES_SCHEMA:lifespan-rows", repo.mod("ramses_tx.ramses").rel, f"lifespan rows not foldable to timedelta|False|None: {badrows[:4]} ({n_rows} rows)")
    # expiry is judged against a clock that only moves forward with real (or replayed) time: the engine's `now` is its transport's
    # clock, else the wall clock - never the timestamp of a message it happens to hold (a `now` that lags behind - "the last message
    # handled" - makes expired packets look fresh again for as long as nothing newer becomes a message)
    r3.instances += 1
    r3.nontrivial += 1
    edn = repo.func("ramses_tx.gateway.Engine._dt_now")
    rets_e = [n.value for n in own_nodes(edn.node) if isinstance(n, ast.Return) and n.value is not None]
    lagging = [rv for rv in rets_e if any(isinstance(x, ast.Attribute) and x.attr in ("dtm", "_dtm") for x in ast.walk(rv))]
    if not rets_e:
        raise AnalysisError("Engine._dt_now: no return found")
    if lagging:
        r3.fail(f"{edn.short}:now-from-a-message", edn.loc(), f"Engine._dt_now can answer with a message's own timestamp (`{norm(lagging[0])[:50]}`): the expiry of every other message is then judged against a clock that stands still while no new message arrives, so expired packets are reported (and snapshotted) as live")
    else:
        r3.ok({"Engine._dt_now": [norm(rv)[:60] for rv in rets_e]})
    # "each message has a lifetime fixed by its kind": the lifetime is written once, by the packet's constructor from pkt_lifespan();
    # nobody else re-writes it (a lifetime adjusted later from other traffic - the last sync countdown, say - depends on history)
    r3.instances += 1
    r3.nontrivial += 1
    lw = [(g, n) for g in repo.funcs.values() for n in own_nodes(g.node) if isinstance(n, ast.Attribute) and n.attr == "_lifespan" and isinstance(n.ctx, (ast.Store, ast.Del))]
    bad_lw = [(g, n) for g, n in lw if not (g.qualname == "ramses_tx.packet.Packet.__init__" and isinstance(n.value, ast.Name) and n.value.id == "self")]
    if not lw:
        raise AnalysisError("no write of Packet._lifespan found")
    if bad_lw:
        g, n = bad_lw[0]
        r3.fail(f"{g.short}:lifespan-rewritten", g.loc(n), f"{g.short} re-writes a packet's lifetime (`{norm(getattr(n, 'parent', n))[:60]}`): the lifetime then depends on other traffic/state instead of the message's kind, so a message can be treated as expired before its kind's lifetime has passed")
    else:
        r3.ok({"writers_of__lifespan": [g.short for g, _ in lw]})
    out.append(r3)

    # ---- R4 ---------------------------------------------------------------------------
    r4 = RuleResult("R4", "latest wins per key", "_handle_msg stores unconditionally under [code] and [code][verb][ctx], keys from the message itself", min_instances=3)
    hm = repo.func(f"{EB}._MessageDB._handle_msg")
    # every way the message is filed: key paths from the DB attribute down to the stored `msg`, through chained subscripts,
    # nested dict displays, .setdefault() chains and local aliases of those
    paths = _store_paths(hm)
    if len(paths) < 2:
        raise AnalysisError("_MessageDB._handle_msg: stores not found")
    want = {"self._msgs_": ["msg.code"], "self._msgz_": ["msg.code", "msg.verb", "msg._pkt._ctx"]}
    seen_roots = set()
    for root, keys, node in paths:
        r4.instances += 1
        r4.nontrivial += 1
        seen_roots.add(root)
        if root in want and keys == want[root]:
            r4.ok({"store": f"{root}[{']['.join(keys)}] = msg"})
        elif root in want:
            r4.fail(f"{hm.short}:{root}:{'/'.join(keys)[:60]}", hm.loc(node), f"the message is filed under {root}[{']['.join(keys)}], expected [{']['.join(want[root])}]: messages of different contexts (e.g. 000C replies for different roles of one zone, 0404 fragments) would overwrite each other")
        else:
            r4.ok({"store": f"{root}[...] (not a message DB)"})
    if not {"self._msgs_", "self._msgz_"} <= seen_roots:
        raise AnalysisError(f"_MessageDB._handle_msg: no store into {sorted({'self._msgs_', 'self._msgz_'} - seen_roots)}")
    # latest arrival wins: whether (and where) the new message is filed must not depend on what is already stored or on a
    # timestamp comparison - a test over the DB's content / dtm is acceptable only when both of its arms file the message in the
    # same DBs (the create-or-update cascade of the nested index)
    DBATTRS = {"_msgs_", "_msgz_", "_msgs", "dtm"}

    def _roots_stored(stmts: list) -> set:
        ids = {id(x) for st in stmts for x in ast.walk(st)}
        return {root for root, _k, node in paths if id(node) in ids and root in want}

    db_tests = 0
    for n in own_nodes(hm.node):
        if not isinstance(n, ast.If):
            continue
        t = expand(hm.node, n.test, pure_only=False)
        if not any(isinstance(x, ast.Attribute) and x.attr in DBATTRS for x in ast.walk(t)):
            continue
        db_tests += 1
        r4.instances += 1
        r4.nontrivial += 1
        later = [node for _r, _k, node in paths if _r in want and getattr(node, "lineno", 0) > getattr(n, "end_lineno", 0)]
        b, o = _roots_stored(n.body), _roots_stored(n.orelse)
        if (_always_leaves(n.body) or (n.orelse and _always_leaves(n.orelse))) and later:
            r4.fail(f"{hm.short}:store-skipped-on:{norm(n.test)[:50]}", hm.loc(n), f"`if {norm(n.test)[:80]}` leaves _handle_msg before the message is filed: whether the newest message is stored depends on what is already stored (a repeated or 'older-looking' message would not refresh the entry and the value ages out although fresh packets keep arriving)")
        elif b != o:
            r4.fail(f"{hm.short}:conditional-store:{norm(n.test)[:50]}", hm.loc(n), f"the store into {sorted(b ^ o)} happens only on one arm of `if {norm(n.test)[:80]}`: whether the newest message is stored depends on what is already stored (a repeated message would not refresh the entry and the value ages out although fresh packets keep arriving)")
        else:
            r4.ok({"db_dependent_test": norm(n.test)[:60], "both_arms_store_into": sorted(b)})
    r4.instances += 1
    r4.nontrivial += 1
    r4.ok({"store_tests_over_db_content_or_dtm": db_tests})
    # filing one message touches that message's own entry only: a store that re-builds a level of the index from its current
    # content (a filtering comprehension over the DB itself), or a deletion, removes *other* contexts while writing this one -
    # what the entity still holds (and what a snapshot contains) then depends on which sibling context happened to be written last
    r4.instances += 1
    r4.nontrivial += 1
    rebuilt = []
    for n in own_nodes(hm.node):
        val = None
        tgt = None
        if isinstance(n, ast.Assign) and len(n.targets) == 1:
            tgt, val = n.targets[0], n.value
        elif isinstance(n, ast.Delete):
            tgt = n.targets[0]
            if any(isinstance(x, ast.Attribute) and x.attr in ("_msgs_", "_msgz_") for x in ast.walk(tgt)):
                rebuilt.append(n)
            continue
        elif isinstance(n, ast.Call) and isinstance(n.func, ast.Attribute) and n.func.attr in ("pop", "popitem", "clear") and any(isinstance(x, ast.Attribute) and x.attr in ("_msgs_", "_msgz_") for x in ast.walk(n.func.value)):
            rebuilt.append(n)
            continue
        if tgt is None or val is None or not any(isinstance(x, ast.Attribute) and x.attr in ("_msgs_", "_msgz_") for x in ast.walk(tgt)):
            continue
        if isinstance(val, (ast.DictComp, ast.ListComp, ast.SetComp, ast.GeneratorExp)) or (isinstance(val, ast.Call) and norm(val.func) in ("dict", "OrderedDict") and val.args and isinstance(val.args[0], (ast.GeneratorExp, ast.ListComp, ast.DictComp))):
            if any(isinstance(x, ast.Attribute) and x.attr in ("_msgs_", "_msgz_") for x in ast.walk(val)):
                rebuilt.append(n)
    if rebuilt:
        r4.fail(f"{hm.short}:index-rebuilt-on-write", hm.loc(rebuilt[0]), f"`{norm(rebuilt[0])[:80]}` in _handle_msg removes or re-builds entries of the message index other than the one being written: sibling contexts (the 000C replies for other roles, other OpenTherm ids, other fragments) disappear as a side effect of an unrelated write, so the state kept - and any snapshot of it - depends on arrival order")
    else:
        r4.ok({"_handle_msg": "writes only the message's own entry (no re-build / deletion of the index)"})
    out.append(r4)

    # ---- R5 ---------------------------------------------------------------------------
    r5 = RuleResult("R5", "among several candidate messages the newest is chosen", "every definition of the message handed to _msg_value_msg is a keyed lookup (one candidate) or max() over all candidates; Message orders by dtm", min_instances=2)
    mvc = repo.func(f"{EB}._MessageDB._msg_value_code")
    calls = [n for n in own_nodes(mvc.node) if isinstance(n, ast.Call) and norm(n.func) == "self._msg_value_msg" and n.args]
    if not calls or not isinstance(calls[0].args[0], ast.Name):
        raise AnalysisError("_msg_value_code no longer hands a local message to _msg_value_msg")
    var = calls[0].args[0].id
    defs = [n for n in own_nodes(mvc.node) if isinstance(n, ast.Assign) and any(isinstance(t, ast.Name) and t.id == var for t in n.targets)]
    for d in defs:
        r5.instances += 1
        r5.nontrivial += 1
        why = _selection_kind(ctx, mvc, d.value)
        if why:
            r5.ok({"definition": norm(d)[:70], "kind": why})
        else:
            r5.fail(f"{mvc.short}:{var} = {norm(d.value)[:60]}", mvc.loc(d), f"`{norm(d)[:90]}` picks one message out of several without ordering them by time: an older message's value can be reported although a newer one was received")
    lt = repo.funcs.get(f"{M}.MessageBase.__lt__") or repo.funcs.get(f"{M}.Message.__lt__")
    r5.instances += 1
    r5.nontrivial += 1
    if lt is not None and any(isinstance(n, ast.Compare) and norm(n) == "self.dtm < other.dtm" for n in own_nodes(lt.node)):
        r5.ok({"Message.__lt__": "self.dtm < other.dtm"})
    else:
        r5.fail("Message.__lt__", repo.mod(M).rel, "Message ordering is no longer by timestamp (self.dtm < other.dtm): max() would not select the newest message")
    out.append(r5)

    # ---- R6 ---------------------------------------------------------------------------
    # Which update of _fraction_expired runs is a function of (code, verb, the packet's table lifetime): the decision table of the
    # update chain is computed by abstract evaluation (predeval.py); a sync-cycle message (1F09, any verb but RQ) must always
    # take its lifetime from the payload's countdown - in particular before the "table lifetime is False -> cannot expire" case,
    # because Packet stores the zero table lifetime of an RP/W 1F09 as False.
    r6 = RuleResult("R6", "payload-defined lifetimes take precedence", "decision table of Message._expired's update chain: every non-RQ 1F09 uses the payload countdown", min_instances=3)
    from ..predeval import _clone

    # read off the decision table of the whole function (with effects): in every row for a non-RQ 1F09 whose verdict is not latched,
    # the lifetime is computed from the payload's countdown - i.e. some call made on that path reads `remaining_seconds`
    from ..predeval import PredEval, Unsupported

    verbs = [ctx.const("ramses_tx.const", k) for k in ("I_", "RQ", "RP", "W_")]
    try:
        tab = PredEval(ctx, ex, domains={"self.verb": verbs, "self.code": ["1F09"]}).table()
    except Unsupported as err:
        raise AnalysisError(f"Message._expired: not a decision procedure the evaluator understands: {err}") from err
    if not any("remaining_seconds" in e for a, _r in tab.rows for e in a["__effects__"]):
        raise AnalysisError("Message._expired: no path reads the payload's remaining_seconds")
    rqv = ctx.const("ramses_tx.const", "RQ")
    FR = "self._fraction_expired"
    for vb in verbs:
        if vb == rqv:
            continue
        r6.instances += 1
        r6.nontrivial += 1
        rows_v = [(a, r) for a, r in tab.rows if a.get("self.code") == "1F09" and a.get("self.verb") == vb and a.get(FR, None) is None]
        if not rows_v:
            raise AnalysisError(f"Message._expired: no un-latched row for {vb.strip()}|1F09 in the decision table")
        bad = [(a, r) for a, r in rows_v if not any("remaining_seconds" in e for e in a["__effects__"]) and not (isinstance(r, tuple) and r and r[0] == "raise")]
        if bad:
            a, r = bad[0]
            r6.fail(f"{ex.short}:sync-cycle-lifetime:verb={vb.strip()}", ex.loc(), f"a {vb.strip()}|1F09 does not take its lifetime from the payload's countdown when {tab.describe({k: v for k, v in a.items() if k not in ('self.code', 'self.verb', '__effects__')})[:200]}: verdict `{r}` with calls {list(a['__effects__'])[:3]} (an RP/W 1F09 has a table lifetime of zero, stored as False = 'cannot expire')")
        else:
            r6.ok({"verb": vb.strip(), "code": "1F09", "lifetime": "payload countdown (remaining_seconds) in every un-latched row", "rows": len(rows_v)})
    r6.info = {"decision_table_rows": len(tab.rows), "flags": tab.atoms}
    out.append(r6)

    # ---- R7 ---------------------------------------------------------------------------
    r7 = RuleResult("R7", "properties report payload data only through the expiry-aware accessor", "no entity property reads <Message>.payload (or an attribute caching a payload) without an _expired test; _msg_value* is the accessor", min_instances=40)
    cached: dict[str, list] = {}  # attribute name -> writer functions, for attributes assigned from <msg>.payload
    never_truthy: dict[str, bool] = {}  # attribute name -> every writer in the repository assigns a falsy constant
    for g in repo.funcs.values():
        for n in own_nodes(g.node):
            if isinstance(n, (ast.Assign, ast.AnnAssign)) and n.value is not None:
                for t in n.targets if isinstance(n, ast.Assign) else [n.target]:
                    if isinstance(t, ast.Attribute):
                        falsy = isinstance(n.value, ast.Constant) and not n.value.value
                        never_truthy[t.attr] = never_truthy.get(t.attr, True) and falsy
            elif isinstance(n, ast.AugAssign) and isinstance(n.target, ast.Attribute):
                never_truthy[n.target.attr] = False
        if not g.module.name.startswith("ramses_rf."):
            continue
        for n in own_nodes(g.node):
            if isinstance(n, ast.Assign) and isinstance(n.value, ast.Attribute) and n.value.attr == "payload":
                at = ctx.cg.atoms(g, n.value.value) or ()
                if any(a.endswith("message.Message") for a in at):
                    for t in n.targets:
                        if isinstance(t, ast.Attribute) and isinstance(t.value, ast.Name) and t.value.id == "self":
                            cached.setdefault(t.attr, []).append(g)
    dead_attrs = {a for a, v in never_truthy.items() if v}

    def in_dead_branch(n: ast.AST) -> str | None:
        """The read sits in the body of `if <x>.<attr>:` where no writer in the repository ever makes <attr> truthy."""
        child, p = n, getattr(n, "parent", None)
        while p is not None and not isinstance(p, (ast.FunctionDef, ast.AsyncFunctionDef)):
            if isinstance(p, ast.If) and child in p.body and isinstance(p.test, ast.Attribute) and p.test.attr in dead_attrs:
                return p.test.attr
            child, p = p, getattr(p, "parent", None)
        return None

    def related(c1, c2) -> bool:
        return c1 is not None and c2 is not None and (c1 in c2.mro or c2 in c1.mro)

    def dead_filter(g, n: ast.AST) -> str | None:
        """Named exception, premise re-checked: a comprehension filter `self.<D>.get(<k>)` that can never hold because every key
        stored into <D> is an f-string with a literal '|' while <k> iterates the keys of a dict filled with `_to_msg_id(...)` ids."""
        p = getattr(n, "parent", None)
        while p is not None and not isinstance(p, (ast.DictComp, ast.ListComp, ast.SetComp, ast.GeneratorExp)):
            if isinstance(p, (ast.FunctionDef, ast.AsyncFunctionDef)):
                return None
            p = getattr(p, "parent", None)
        if p is None:
            return None
        for gen in p.generators:
            for cond in gen.ifs:
                for c in ast.walk(cond):
                    if isinstance(c, ast.Call) and isinstance(c.func, ast.Attribute) and c.func.attr == "get" and isinstance(c.func.value, ast.Attribute) and len(c.args) == 1 and isinstance(c.args[0], ast.Name):
                        dname = c.func.value.attr
                        # reader key: first element of the loop target over <self.X>.items()
                        if not (isinstance(gen.target, ast.Tuple) and isinstance(gen.target.elts[0], ast.Name) and gen.target.elts[0].id == c.args[0].id):
                            continue
                        if not (isinstance(gen.iter, ast.Call) and isinstance(gen.iter.func, ast.Attribute) and gen.iter.func.attr == "items" and isinstance(gen.iter.func.value, ast.Attribute)):
                            continue
                        src_attr = gen.iter.func.value.attr
                        # every store into <dname>: key is an f-string containing '|'
                        key_exprs = []
                        for h in repo.funcs.values():
                            if not h.module.name.startswith("ramses_rf."):
                                continue
                            aliases = {a.targets[0].id for a in own_nodes(h.node) if isinstance(a, ast.Assign) and len(a.targets) == 1 and isinstance(a.targets[0], ast.Name) and isinstance(a.value, ast.Attribute) and a.value.attr == dname}
                            for x in own_nodes(h.node):
                                if isinstance(x, ast.Subscript) and isinstance(x.ctx, ast.Store) and isinstance(x.value, ast.Attribute) and x.value.attr == dname:
                                    key_exprs.append((h, x.slice))
                                if aliases and isinstance(x, ast.Call) and any(isinstance(a, ast.Name) and a.id in aliases for a in x.args):
                                    # the dict is handed to a helper together with its key: (f)(supported_cmds, idx)
                                    for a in x.args:
                                        if isinstance(a, ast.Name) and a.id not in aliases:
                                            key_exprs += [(h, d.value) for d in own_nodes(h.node) if isinstance(d, (ast.Assign, ast.AnnAssign)) and d.value is not None and any(isinstance(t, ast.Name) and t.id == a.id for t in (d.targets if isinstance(d, ast.Assign) else [d.target]))]
                        ctx_keys = [k for _h, k in key_exprs if isinstance(k, ast.JoinedStr)]
                        piped = [k for k in ctx_keys if any(isinstance(v, ast.Constant) and "|" in str(v.value) for v in k.values)]
                        src_ok = False
                        for h in repo.funcs.values():
                            for x in own_nodes(h.node):
                                if isinstance(x, ast.Assign) and isinstance(x.targets[0], ast.Subscript) and isinstance(x.targets[0].value, ast.Attribute) and x.targets[0].value.attr == src_attr:
                                    k = x.targets[0].slice
                                    d = None
                                    if isinstance(k, ast.Name):
                                        ds = [a.value for a in own_nodes(h.node) if isinstance(a, ast.Assign) and len(a.targets) == 1 and isinstance(a.targets[0], ast.Name) and a.targets[0].id == k.id]
                                        d = ds[0] if len(ds) == 1 else None
                                    src_ok = d is not None and isinstance(d, ast.Call) and norm(d.func) == "_to_msg_id"
                        if piped and len(piped) == len(ctx_keys) and src_ok:
                            return f"the filter `{norm(c)}` never holds: every key stored into {dname} is '<code>|<ctx>' ({len(piped)} store(s)) while {c.args[0].id} is a bare message id"
        return None

    n_props = 0
    exempt: dict[str, str] = {}
    for g in sorted(repo.funcs.values(), key=lambda x: x.qualname):
        if not (g.module.name.startswith("ramses_rf.") and g.is_property and g.cls is not None and g.parent is None and not any(d.endswith(".setter") for d in g.decorators)):
            continue
        if not any(c.name == "_MessageDB" for c in g.cls.mro):
            continue
        n_props += 1
        r7.instances += 1
        sites = []
        for n in own_nodes(g.node):
            what = None
            if isinstance(n, ast.Attribute) and n.attr == "payload" and isinstance(n.ctx, ast.Load):
                at = ctx.cg.atoms(g, n.value) or ("Any",)
                if any(a.endswith("message.Message") or a == "Any" for a in at) and not _expiry_guarded(n):
                    what = f"{norm(n.value)[:40]}.payload"
            elif isinstance(n, ast.Attribute) and isinstance(n.value, ast.Name) and n.value.id == "self" and n.attr in cached and isinstance(n.ctx, ast.Load):
                ws = [w for w in cached[n.attr] if related(w.cls, g.cls)]
                if ws:
                    what = f"self.{n.attr} (a payload cached by {', '.join(sorted({w.short for w in ws}))})"
            if what is None:
                continue
            dead = in_dead_branch(n)
            if dead:
                exempt[f"{g.short}:{what}"] = f"under `if ...{dead}:` and no writer in the repository ever makes .{dead} truthy"
                continue
            why = dead_filter(g, n)
            if why:
                exempt[f"{g.short}:{what}"] = why
                continue
            sites.append((n, what))
        if not sites:
            r7.ok({"property": g.short})
            continue
        r7.nontrivial += 1
        n0, what = sites[0]
        r7.fail(f"{g.qualname}:direct-payload-read", g.loc(n0), f"{g.short} reports data from {what} without consulting the message's _expired: the value never ages out (it is not read through _msg_value*)", [f"{len(sites)} read(s): " + "; ".join(sorted({w for _n, w in sites}))[:200]])
    r7.info["sites_exempt_with_reason"] = exempt
    r7.info["entity_properties_scanned"] = n_props
    r7.info["payload_caching_attributes"] = {k: sorted({w.short for w in v}) for k, v in cached.items()}
    out.append(r7)

    # ---- R8 ---------------------------------------------------------------------------
    # An expired message is removed from every entity it was filed with: the clean-up loop over the fan-out list must not be
    # abandoned because one entity does not hold the message (a KeyError escaping one iteration ends the loop: later zones linger).
    r8 = RuleResult("R8", "the expiry clean-up reaches every entity", "in _delete_msg each deletion inside the fan-out loop is KeyError-safe within its own iteration, and both stores are cleaned", min_instances=3)
    dm = repo.func(f"{EB}._MessageDB._delete_msg")
    loops = [n for n in own_nodes(dm.node) if isinstance(n, ast.For)]
    dels = []
    for lp in loops:
        inside = {id(x) for st in lp.body for x in ast.walk(st)}
        for n in own_nodes(dm.node):
            if id(n) in inside and isinstance(n, ast.Delete) and any(isinstance(t, ast.Subscript) for t in n.targets):
                dels.append((lp, n))
            elif id(n) in inside and isinstance(n, ast.Call) and isinstance(n.func, ast.Attribute) and n.func.attr == "pop" and any(a in norm(n.func.value) for a in ("_msgs_", "_msgz_")):
                dels.append((lp, n))
    if not dels:
        raise AnalysisError("_MessageDB._delete_msg: no deletion inside a loop over the entities")
    cleaned = set()
    for lp, n in dels:
        r8.instances += 1
        r8.nontrivial += 1
        txt = norm(n)
        for a in ("_msgs_", "_msgz_"):
            if a in txt:
                cleaned.add(a)
        # the per-code store holds the *latest* message of a code, whoever it was about: the entry may only be removed when it is
        # this very message - a sibling zone's (or the system's) newer message of the same code must survive the expiry of this one
        if "_msgs_" in txt:
            tgt0 = n.targets[0] if isinstance(n, ast.Delete) else n.func.value
            cont = tgt0
            while isinstance(cont, ast.Subscript):
                cont = cont.value
            ident = False
            cur0 = getattr(n, "parent", None)
            while cur0 is not None and cur0 is not lp:
                if isinstance(cur0, ast.If) and any(id(n) == id(x) for st in cur0.body for x in ast.walk(st)):
                    tt = cur0.test
                    reads_msg = any(isinstance(x, ast.Name) and x.id == "msg" and not isinstance(getattr(x, "parent", None), ast.Attribute) for x in ast.walk(tt))
                    if reads_msg and norm(cont) in norm(tt):
                        ident = True
                cur0 = getattr(cur0, "parent", None)
            r8.instances += 1
            r8.nontrivial += 1
            if ident:
                r8.ok({"deletion": txt[:70], "only_if_the_entry_is_this_message": True})
            else:
                r8.fail(f"{dm.short}:per-code-entry-removed-by-key", dm.loc(n), f"`{txt[:70]}` removes the entity's latest message of the code whatever message it is: when one zone's reading expires, a sibling's (or the system's) newer, live message of the same code is deleted with it and its attribute reads as unknown")
        if isinstance(n, ast.Call):  # .pop(key, default) cannot raise
            if len(n.args) >= 2:
                r8.ok({"deletion": txt[:70], "safe_because": "pop() with a default"})
                continue
        safe = None
        cur = getattr(n, "parent", None)
        while cur is not None and cur is not lp:
            if isinstance(cur, ast.With) and any("suppress" in norm(i.context_expr) and any(e in norm(i.context_expr) for e in ("KeyError", "LookupError", "Exception")) for i in cur.items):
                safe = "contextlib.suppress inside the iteration"
            if isinstance(cur, ast.Try) and any(h.type is None or any(e in norm(h.type) for e in ("KeyError", "LookupError", "Exception")) for h in cur.handlers) and any(id(n) == id(x) for st in cur.body for x in ast.walk(st)):
                safe = "try/except inside the iteration"
            if isinstance(cur, ast.If) and any(id(n) == id(x) for st in cur.body for x in ast.walk(st)) and any(isinstance(c, ast.Compare) and any(isinstance(o, ast.In) for o in c.ops) for c in ast.walk(cur.test)):
                # one membership test covers one subscript level of the same container
                tgt = n.targets[0] if isinstance(n, ast.Delete) else n.func.value
                depth = 0
                t2 = tgt
                while isinstance(t2, ast.Subscript):
                    depth += 1
                    t2 = t2.value
                if depth <= 1 and norm(t2) in norm(cur.test):
                    safe = f"membership test `{norm(cur.test)[:50]}`"
            cur = getattr(cur, "parent", None)
        if safe:
            r8.ok({"deletion": txt[:70], "safe_because": safe})
        else:
            r8.fail(f"{dm.short}:{txt[:50]}:may-abort-loop", dm.loc(n), f"`{txt[:80]}` inside the loop over the entities can raise KeyError out of the iteration (any handler is outside the loop): the first entity that does not hold the message ends the clean-up, so the expired value lingers in the entities after it")
    r8.instances += 1
    r8.nontrivial += 1
    if cleaned >= {"_msgs_", "_msgz_"}:
        r8.ok({"stores_cleaned": sorted(cleaned)})
    else:
        r8.fail(f"{dm.short}:store-not-cleaned", dm.loc(), f"_delete_msg no longer removes the message from {sorted({'_msgs_', '_msgz_'} - cleaned)}: readers of that store keep reporting the expired value")
    out.append(r8)

    # ---- R9 ---------------------------------------------------------------------------
    # "regardless of what traffic for other zones is interleaved": an array message is filed only with the zones it has an element
    # for - the routing of a list payload is driven by the payload's elements, not by the system's list of zones (a zone the array
    # does not mention would have its own, newer per-zone message displaced by an array that says nothing about it)
    r9 = RuleResult("R9", "array messages are routed by their elements", "in MultiZone._handle_msg every delivery under `isinstance(msg.payload, list)` selects the zone from an element of msg.payload", min_instances=1)
    mz = repo.func("ramses_rf.system.heat.MultiZone._handle_msg")
    n9 = 0
    for n in own_nodes(mz.node):
        if not (isinstance(n, ast.If) and any(isinstance(c, ast.Call) and norm(c.func) == "isinstance" and len(c.args) == 2 and norm(c.args[0]) == "msg.payload" and "list" in norm(c.args[1]) for c in ast.walk(n.test))):
            continue
        for st in n.body:
            for c in ast.walk(st):
                if not isinstance(c, ast.Call):
                    continue
                routed = (isinstance(c.func, ast.Attribute) and c.func.attr == "_handle_msg") or (isinstance(c.func, ast.Name) and c.func.id in mz.nested and any(isinstance(x, ast.Attribute) and x.attr == "_handle_msg" for x in ast.walk(mz.nested[c.func.id].node)))
                if not routed or not any(isinstance(a, ast.Name) and a.id == "msg" for a in c.args):
                    continue
                n9 += 1
                r9.instances += 1
                r9.nontrivial += 1
                sel = [a for a in c.args if not (isinstance(a, ast.Name) and a.id == "msg")] + ([c.func.value] if isinstance(c.func, ast.Attribute) else [])
                d: set[str] = set()

                def from_payload(e: ast.AST) -> bool:
                    """The expression reads msg.payload, or a variable of an enclosing loop (inside this branch) that iterates it."""
                    if "msg.payload" in norm(e):
                        return True
                    for x in ast.walk(e):
                        if isinstance(x, ast.Name):
                            # bound by a walrus/assignment inside the branch: what it was bound from
                            for b9 in ast.walk(n):
                                if isinstance(b9, ast.NamedExpr) and b9.target.id == x.id and b9.value is not e and not any(y is e for y in ast.walk(b9.value)):
                                    if from_payload(b9.value):
                                        return True
                                elif isinstance(b9, ast.Assign) and any(isinstance(t, ast.Name) and t.id == x.id for t in b9.targets) and not any(y is e for y in ast.walk(b9.value)):
                                    if from_payload(b9.value):
                                        return True
                            p9 = getattr(c, "parent", None)
                            while p9 is not None and p9 is not n:
                                if isinstance(p9, (ast.For, ast.AsyncFor)) and any(isinstance(t, ast.Name) and t.id == x.id for t in ast.walk(p9.target)):
                                    d.add(norm(p9.iter))
                                    if "msg.payload" in norm(p9.iter):
                                        return True
                                    break
                                if isinstance(p9, (ast.ListComp, ast.GeneratorExp, ast.SetComp, ast.DictComp)):
                                    for g9 in p9.generators:
                                        if any(isinstance(t, ast.Name) and t.id == x.id for t in ast.walk(g9.target)):
                                            d.add(norm(g9.iter))
                                            if "msg.payload" in norm(g9.iter):
                                                return True
                                p9 = getattr(p9, "parent", None)
                    return False

                if any(from_payload(e) for e in sel):
                    r9.ok({"delivery": norm(c)[:70], "zone_selected_from": "an element of msg.payload"})
                else:
                    r9.fail(f"{mz.short}:array-routed-to-unlisted-zones", mz.loc(c), f"`{norm(c)[:70]}` files an array message with zones chosen from {sorted(d)[:4] or [norm(e)[:30] for e in sel]}, not from the array's own elements: a zone the array does not list has its newer per-zone message displaced and reads as unknown")
    if n9 < 1:
        raise AnalysisError("MultiZone._handle_msg: no delivery of a list payload found")
    out.append(r9)
    return out


def _expiry_guarded(n: ast.AST) -> bool:
    """The read sits under a test that mentions `_expired` (comprehension filter, if/elif, conditional expression, and/or)."""
    child: ast.AST = n
    p = getattr(n, "parent", None)
    while p is not None and not isinstance(p, (ast.FunctionDef, ast.AsyncFunctionDef)):
        tests: list[ast.AST] = []
        if isinstance(p, (ast.If, ast.IfExp, ast.While)):
            tests.append(p.test)
        if isinstance(p, ast.BoolOp):
            tests.extend(p.values)
        if isinstance(p, (ast.ListComp, ast.SetComp, ast.DictComp, ast.GeneratorExp)):
            for gen in p.generators:
                tests.extend(gen.ifs)
                for sub in ast.walk(gen.iter):  # for x in [c for c in ... if not ...[c]._expired]
                    if isinstance(sub, ast.comprehension):
                        tests.extend(sub.ifs)
        # an earlier sibling `if ... ._expired ...: return/raise/continue`
        for fld in ("body", "orelse", "finalbody"):
            blk = getattr(p, fld, None)
            if isinstance(blk, list) and child in blk:
                for st in blk[: blk.index(child)]:
                    if isinstance(st, ast.If) and st.body and isinstance(st.body[-1], (ast.Return, ast.Raise, ast.Continue)):
                        tests.append(st.test)
        if any(isinstance(x, ast.Attribute) and x.attr == "_expired" for t in tests for x in ast.walk(t)):
            return True
        child = p
        p = getattr(p, "parent", None)
    if isinstance(p, (ast.FunctionDef, ast.AsyncFunctionDef)) and child in p.body:
        for st in p.body[: p.body.index(child)]:
            if isinstance(st, ast.If) and st.body and isinstance(st.body[-1], (ast.Return, ast.Raise)) and any(isinstance(x, ast.Attribute) and x.attr == "_expired" for x in ast.walk(st.test)):
                return True
    return False


def _selection_kind(ctx: Ctx, f, v: ast.expr, depth: int = 0) -> str | None:
    """How a message is chosen: None (absent), keyed lookup, or max() over the candidates. Anything else -> None (undecided/bad)."""
    if isinstance(v, ast.Constant) and v.value is None:
        return "None"
    if isinstance(v, ast.IfExp):
        a, b = _selection_kind(ctx, f, v.body, depth), _selection_kind(ctx, f, v.orelse, depth)
        return f"{a} | {b}" if a and b else None
    if isinstance(v, ast.Call) and isinstance(v.func, ast.Attribute) and v.func.attr == "get" and len(v.args) >= 1 and not isinstance(v.args[0], (ast.Tuple, ast.List)):
        return "keyed lookup (.get)"
    if isinstance(v, ast.Subscript) and not isinstance(v.slice, ast.Slice):
        # sorted(xs)[-1] is the newest; xs[0]/xs[-1] of an unsorted collection is not a selection by time
        if isinstance(v.value, ast.Call) and norm(v.value.func) == "sorted":
            idx = v.slice
            rev = any(k.arg == "reverse" and isinstance(k.value, ast.Constant) and k.value.value is True for k in v.value.keywords)
            last = isinstance(idx, ast.UnaryOp) and isinstance(idx.op, ast.USub) and isinstance(idx.operand, ast.Constant) and idx.operand.value == 1
            first = isinstance(idx, ast.Constant) and idx.value == 0
            if (last and not rev) or (first and rev):
                return "sorted()[newest]"
            return None
        at = ctx.cg.atoms(f, v.value) or ()
        if any(a in ("I:builtins.dict", "I:typing.Mapping", "I:collections.OrderedDict") for a in at):
            return "keyed lookup ([])"
        return None
    if isinstance(v, ast.Call) and norm(v.func) == "max" and len(v.args) == 1 and not any(k.arg == "key" for k in v.keywords):
        return "max() over the candidates"
    if isinstance(v, ast.Call) and depth < 2:
        site = ctx.cg.site_of.get(id(v))
        if site is not None and site.callees and not site.external:
            kinds = []
            for c in site.callees:
                rets = [r for r in own_nodes(c.node) if isinstance(r, ast.Return) and r.value is not None]
                if not rets:
                    return None
                for r in rets:
                    k = _selection_kind(ctx, c, r.value, depth + 1)
                    if not k:
                        return None
                    kinds.append(k)
            return " | ".join(sorted(set(kinds)))
    return None


def _store_paths(f) -> "list[tuple[str, list[str], ast.AST]]":
    """[(root attribute text, [key texts...], node)] for every `... = msg` store in f."""
    aliases: dict[str, tuple[str, list[str]]] = {}

    def chain(e: ast.expr) -> "tuple[str, list[str]] | None":
        """X[k1][k2] / X.setdefault(k1, {}).setdefault(k2, {}) / alias -> (root, [k1, k2])."""
        if isinstance(e, ast.Name) and e.id in aliases:
            r, ks = aliases[e.id]
            return r, list(ks)
        if isinstance(e, ast.Attribute) and isinstance(e.value, ast.Name) and e.value.id == "self":
            return norm(e), []
        if isinstance(e, ast.Subscript) and not isinstance(e.slice, ast.Slice):
            b = chain(e.value)
            return (b[0], b[1] + [xnorm(f.node, e.slice)]) if b else None
        if isinstance(e, ast.Call) and isinstance(e.func, ast.Attribute) and e.func.attr == "setdefault" and len(e.args) == 2 and isinstance(e.args[1], ast.Dict) and not e.args[1].keys:
            b = chain(e.func.value)
            return (b[0], b[1] + [xnorm(f.node, e.args[0])]) if b else None
        return None

    def leaves(v: ast.expr, keys: list[str]) -> "list[list[str]]":
        if isinstance(v, ast.Name) and v.id == "msg":
            return [keys]
        if isinstance(v, ast.Dict):
            out = []
            for k, x in zip(v.keys, v.values):
                if k is not None:
                    out += leaves(x, keys + [xnorm(f.node, k)])
            return out
        return []

    out: list[tuple[str, list[str], ast.AST]] = []
    for st in ast.walk(f.node):
        if isinstance(st, ast.Assign) and len(st.targets) == 1:
            t = st.targets[0]
            if isinstance(t, ast.Name):
                c = chain(st.value)
                if c is not None and c[1]:
                    aliases[t.id] = c
                continue
            c = chain(t)
            if c is None:
                continue
            for ks in leaves(st.value, c[1]):
                out.append((c[0], ks, st))
    return out


def _keys(t: ast.Subscript) -> list[str]:
    out = []
    cur: ast.AST = t
    while isinstance(cur, ast.Subscript):
        out.append(norm(cur.slice))
        cur = cur.value
    return out
