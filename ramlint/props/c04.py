"""C04 - Wire value codecs are exact inverses on their grid (temps, %, dates, ids)."""

from __future__ import annotations

import ast
import re
from typing import Any

from ..consteval import TOP
from ..context import Ctx
from ..loader import AnalysisError, FuncInfo, norm, own_nodes
from ..report import RuleResult
from .common import inline_calls

META = {
    "explanation": (
        "The full statement (identity on 65,536 words, 2^24 ids) is about values; enumerating them by running the helpers is testing, not "
        "this family. Decided clauses: C04.R1 no truncating float scaling in encoders - int(<float> * k) must go through round()/an integer "
        "idiom (int() truncates toward zero and k/100*100 is not exact in binary floating point, so the idiom MUST mis-encode some grid "
        "points: a theorem about IEEE-754, not a heuristic). C04.R2 sentinel tables of each encoder/decoder pair are mutual inverses. "
        "C04.R3 bit/column layouts agree inside codec pairs (dts shifts/masks; dtm format order vs slices; device-id shift/masks/widths). "
        "C04.R4 sibling implementations agree (Address.convert_to_hex ≡ dev_id_to_hex_id, convert_from_hex ≡ hex_id_to_dev_id). "
        "C04.R5 no silent wrap: every fixed-width hex format in an encoder is range-bounded by a dominating raising guard, a mask, or by "
        "construction. C04.R6 a paired decoder's raw/K quotient reaches the return without a coarser round()/int()/floor division. Not decided: exactness on the whole grid; text round-trip; flag8 bit order (values)."
    ),
}
META["explanation"] += ' C04.R3 also: the DST flag is or-ed into the seconds octet on every path through hex_from_dtm (flow-sensitive column tracking) and the decoder masks it.'

H = "ramses_tx.helpers"
A = "ramses_tx.address"


def float_scaling_sites(ctx: Ctx, funcs: list[FuncInfo]) -> list[tuple[FuncInfo, ast.Call, str]]:
    """int(<expr> * <k>) / int(<expr> / <k>) where <expr> may be a float: truncation toward zero."""
    out = []
    for f in funcs:
        for n in own_nodes(f.node):
            if isinstance(n, ast.Call) and isinstance(n.func, ast.Name) and n.func.id == "int" and len(n.args) == 1:
                a = n.args[0]
                if isinstance(a, ast.BinOp) and isinstance(a.op, ast.Mult):
                    ops = [a.left, a.right]
                    kinds = []
                    for o in ops:
                        at = ctx.cg.atoms(f, o) or ("Any",)
                        kinds.append(at)
                    floaty = any(any(x in ("I:builtins.float", "Any") for x in k) for k in kinds)
                    both_int = all(all(x in ("I:builtins.int", "I:builtins.bool") for x in k) for k in kinds)
                    if floaty and not both_int:
                        out.append((f, n, norm(n)))
    return out


def _guarded_returns(f: FuncInfo):
    """[(test, returned expression)] for every `if <test>: ... return <expr>` whose body is a lone return, plus conditional
    expressions `return A if <test> else B` (as (test, A))."""
    out = []
    for st in own_nodes(f.node):
        if isinstance(st, ast.If) and st.body and isinstance(st.body[-1], ast.Return) and st.body[-1].value is not None and len(st.body) == 1:
            out.append((st.test, st.body[-1].value))
        elif isinstance(st, ast.Return) and isinstance(st.value, ast.IfExp):
            out.append((st.value.test, st.value.body))
    return out


def _sentinels_enc(f: FuncInfo) -> dict[str, str]:
    """{python-constant-text: wire literal} from `if value is None: return "7FFF"` / `if value is False:` / `== None` / `in (None,)`."""
    out = {}
    for test, ret in _guarded_returns(f):
        if isinstance(test, ast.Compare) and len(test.ops) == 1 and isinstance(test.ops[0], (ast.Is, ast.Eq)) and isinstance(test.comparators[0], ast.Constant) and test.comparators[0].value in (None, False, True):
            out[norm(test.comparators[0])] = norm(ret)
    return out


def _sentinels_dec(f: FuncInfo) -> dict[str, str]:
    """{wire literal: python-constant-text} from `if value == "7FFF": return None` / `if value in ("31FF", "7FFF"): return None`."""
    out = {}
    flat = []
    for test, ret in _guarded_returns(f):
        # `value == A or value == B or <something else>`: each disjunct that is a comparison is a way into the return
        for t in (test.values if isinstance(test, ast.BoolOp) and isinstance(test.op, ast.Or) else [test]):
            flat.append((t, ret))
    # a lookup table of sentinels: `if value in TABLE: return TABLE[value]` / `TABLE.get(value)` with a module-level dict display
    for st in own_nodes(f.node):
        if isinstance(st, ast.If) and isinstance(st.test, ast.Compare) and len(st.test.ops) == 1 and isinstance(st.test.ops[0], ast.In) and isinstance(st.test.comparators[0], ast.Name) and st.body and isinstance(st.body[-1], ast.Return):
            tbl = f.module.tree and next((n.value for n in f.module.tree.body if isinstance(n, (ast.Assign, ast.AnnAssign)) and (n.targets[0] if isinstance(n, ast.Assign) else n.target) is not None and norm(n.targets[0] if isinstance(n, ast.Assign) else n.target) == st.test.comparators[0].id and n.value is not None), None)
            if isinstance(tbl, ast.Dict):
                for k, v in zip(tbl.keys, tbl.values):
                    if isinstance(k, ast.Constant) and isinstance(k.value, str):
                        out[norm(k)] = norm(v)
    params_d = {a.arg for a in f.node.args.args}
    for st in own_nodes(f.node):
        if isinstance(st, ast.Return) and st.value is not None:
            v = st.value
            tname = None
            if isinstance(v, ast.Subscript) and isinstance(v.value, ast.Name) and isinstance(v.slice, ast.Name) and v.slice.id in params_d:
                tname = v.value.id
            elif isinstance(v, ast.Call) and isinstance(v.func, ast.Attribute) and v.func.attr == "get" and isinstance(v.func.value, ast.Name) and v.args and isinstance(v.args[0], ast.Name) and v.args[0].id in params_d:
                tname = v.func.value.id
            if tname:
                tbl = next((n.value for n in f.module.tree.body if isinstance(n, (ast.Assign, ast.AnnAssign)) and n.value is not None and norm(n.targets[0] if isinstance(n, ast.Assign) else n.target) == tname), None)
                if isinstance(tbl, ast.Dict):
                    for k, vv in zip(tbl.keys, tbl.values):
                        # a pure lookup table holds proper values too (00 -> False, C8 -> True): only its None entry is a sentinel
                        if isinstance(k, ast.Constant) and isinstance(k.value, str) and isinstance(vv, ast.Constant) and vv.value is None:
                            out[norm(k)] = norm(vv)
    for test, ret in flat:
        if not (isinstance(test, ast.Compare) and len(test.ops) == 1):
            continue
        op, rhs = test.ops[0], test.comparators[0]
        if isinstance(op, ast.Eq) and isinstance(rhs, ast.Constant) and isinstance(rhs.value, str):
            out[norm(rhs)] = norm(ret)
        elif isinstance(op, ast.In) and isinstance(rhs, (ast.Tuple, ast.List, ast.Set)):
            for el in rhs.elts:
                if isinstance(el, ast.Constant) and isinstance(el.value, str):
                    out[norm(el)] = norm(ret)
    return out


# decoder-only sentinels confirmed by reading (one line of reason each)
DECODER_ONLY_SENTINELS = {
    ("temp", "'31FF'"): "31FF is the wire's second not-available word (named as a sentinel in the property's anchor); 127.99 is outside any sensor's range",
}


def _numeric_image(ctx: Ctx, fe: FuncInfo) -> "tuple[int, int] | None":
    """Unsigned interval of the words the encoder can write for numbers, from its raising range guard and constant scale factors
    (`not lo <= value <= hi` -> raise; `round(value * K)`); None = unknown (treated as: every word of the width)."""
    scales: list[float] = []
    for n in own_nodes(fe.node):
        if isinstance(n, ast.BinOp) and isinstance(n.op, ast.Mult):
            for o in (n.left, n.right):
                ks = [o.body, o.orelse] if isinstance(o, ast.IfExp) else [o]
                vals = [k.value for k in ks if isinstance(k, ast.Constant) and isinstance(k.value, (int, float)) and not isinstance(k.value, bool)]
                if len(vals) == len(ks):
                    scales += vals
    params = {a.arg for a in fe.node.args.args}
    for st in fe.node.body:
        if isinstance(st, ast.If) and any(isinstance(b, ast.Raise) for b in st.body):
            for c in ast.walk(st.test):
                if isinstance(c, ast.Compare) and len(c.ops) == 2 and all(isinstance(o, (ast.Lt, ast.LtE)) for o in c.ops) and isinstance(c.comparators[0], ast.Name):
                    lo, hi = ctx.consts.eval_in(fe, c.left), ctx.consts.eval_in(fe, c.comparators[1])
                    if not (isinstance(lo, (int, float)) and isinstance(hi, (int, float))):
                        continue
                    if c.comparators[0].id in params:  # guard on the unscaled value
                        if lo < 0 or not scales:
                            return None
                        return int(lo * min(scales)), int(hi * max(scales)) + 1
                    if lo < 0:
                        return None  # two's complement: the whole width
                    return int(lo), int(hi)
    return None


def _exclusive_upper_bounds(ctx: Ctx, f: FuncInfo, at: ast.stmt) -> "dict[str, int]":
    """{copy-propagated expression text: K} for every `expr < K` known at `at` from raising/leaving guards around and before it
    (`if not (0 <= e < K and ..): raise`, `if e < 0 or e >= K: raise`, nested ifs)."""
    from .c05 import _implied_atoms
    from .common import expand, facts_at

    out: dict[str, int] = {}

    def put(e: ast.expr, k: object, strict: bool) -> None:
        if isinstance(k, int) and not isinstance(k, bool):
            b = k if strict else k + 1
            key = norm(e)
            out[key] = min(out.get(key, b), b)

    for test, val in facts_at(at):
        t = expand(f.node, test, pure_only=False)
        for a, holds in _implied_atoms(t, val):  # type: ignore[arg-type]
            if not isinstance(a, ast.Compare):
                continue
            terms = [a.left] + list(a.comparators)
            if holds:
                for l, op, r in zip(terms, a.ops, terms[1:]):
                    if isinstance(op, (ast.Lt, ast.LtE)):
                        put(l, ctx.consts.eval_in(f, r) if not isinstance(r, ast.Constant) else r.value, isinstance(op, ast.Lt))
                    elif isinstance(op, (ast.Gt, ast.GtE)):
                        put(r, ctx.consts.eval_in(f, l) if not isinstance(l, ast.Constant) else l.value, isinstance(op, ast.Gt))
            elif len(a.ops) == 1:
                l, op, r = a.left, a.ops[0], a.comparators[0]
                if isinstance(op, (ast.GtE, ast.Gt)):  # not (l >= K)  ->  l < K
                    put(l, ctx.consts.eval_in(f, r) if not isinstance(r, ast.Constant) else r.value, isinstance(op, ast.GtE))
                elif isinstance(op, (ast.LtE, ast.Lt)):  # not (K <= r)  ->  r < K
                    put(r, ctx.consts.eval_in(f, l) if not isinstance(l, ast.Constant) else l.value, isinstance(op, ast.LtE))
    return out


def check(ctx: Ctx) -> list[RuleResult]:
    repo = ctx.repo
    out: list[RuleResult] = []

    # ---- R1 ---------------------------------------------------------------------------
    r1 = RuleResult("R1", "no truncating float scaling in encoders", "int(<float> * k) must round, not truncate", min_instances=4)
    enc = [f for f in repo.functions_in(f"{H}.") if f.name.startswith("hex_from_")]
    enc.append(repo.func("ramses_rf.system.schedule._struct_pack"))
    enc += [f for f in repo.functions_in("ramses_tx.command.Command.") if f.name.startswith(("set_", "put_", "get_", "_put_"))]
    sites = float_scaling_sites(ctx, enc)
    scaled = 0
    for f in enc:
        # every scaling site (rounded or not) is an instance
        for n in own_nodes(f.node):
            if isinstance(n, ast.BinOp) and isinstance(n.op, ast.Mult) and any(isinstance(x, ast.Constant) and x.value in (100, 200, 2, 10) or (isinstance(x, ast.IfExp)) or (isinstance(x, ast.Name) and x.id == "factor") for x in (n.left, n.right)):
                par = getattr(n, "parent", None)
                if isinstance(par, ast.Call) and isinstance(par.func, ast.Name) and par.func.id in ("int", "round"):
                    scaled += 1
    for f, n, txt in sites:
        r1.instances += 1
        r1.nontrivial += 1
        r1.fail(f"{f.short}:{txt[:60]}", f.loc(n), f"`{txt}` truncates toward zero: e.g. 0.29 * 100 is 28.999999999999996 in binary floating point, so the encoded wire value is one LSB low for such grid points", ["use round(...) (or integer arithmetic)"])
    ok_sites = max(scaled - len(sites), 0)
    r1.instances += ok_sites
    r1.nontrivial += ok_sites
    r1.obligations += ok_sites
    r1.discharged += ok_sites
    if ok_sites:
        r1.samples.append({"rounded_scaling_sites": ok_sites})
    r1.info = {"encoders_examined": len(enc), "scaling_sites": scaled}
    out.append(r1)

    # ---- R2 ---------------------------------------------------------------------------
    r2 = RuleResult("R2", "sentinel tables are mutual inverses", "every encoder sentinel decodes to the value it encodes", min_instances=5)
    pairs = [("temp", "temp"), ("bool", "bool"), ("double", "double"), ("percent", "percent"), ("dts", "dts")]
    for e, d in pairs:
        fe, fd = repo.func(f"{H}.hex_from_{e}"), repo.func(f"{H}.hex_to_{d}")
        se, sd = _sentinels_enc(fe), _sentinels_dec(fd)
        if not se:
            raise AnalysisError(f"hex_from_{e}: no sentinel guards found")
        for py, wire in se.items():
            r2.instances += 1
            r2.nontrivial += 1
            if sd.get(wire) == py:
                r2.ok({"pair": e, "sentinel": f"{py} <-> {wire}"})
            else:
                r2.fail(f"hex_from_{e}:{py}->{wire}", fe.loc(), f"hex_from_{e}({py}) = {wire}, but hex_to_{d}({wire}) returns {sd.get(wire, 'a number')}: the sentinel does not survive the round trip")
    # the other direction: a wire word the decoder maps to a sentinel, which the encoder does not produce for that sentinel, swallows the
    # number the encoder writes as that word - unless the word lies outside the encoder's numeric image
    for e, d in pairs:
        fe, fd = repo.func(f"{H}.hex_from_{e}"), repo.func(f"{H}.hex_to_{d}")
        se, sd = _sentinels_enc(fe), _sentinels_dec(fd)
        lo_hi = _numeric_image(ctx, fe)
        for wire, py in sd.items():
            if se.get(py) == wire:
                continue
            r2.instances += 1
            r2.nontrivial += 1
            try:
                w = int(ast.literal_eval(wire), 16)
            except Exception:
                w = None
            if (e, wire) in DECODER_ONLY_SENTINELS:
                r2.ok({"pair": e, "decoder_only_sentinel": wire, "accepted_because": DECODER_ONLY_SENTINELS[(e, wire)]})
            elif w is not None and lo_hi is not None and not (lo_hi[0] <= w <= lo_hi[1]):
                r2.ok({"pair": e, "decoder_only_sentinel": wire, "outside_encoder_image": f"{lo_hi[0]:X}..{lo_hi[1]:X}"})
            else:
                r2.fail(f"hex_to_{d}:{wire}->{py}", fd.loc(), f"hex_to_{d}({wire}) returns {py}, but hex_from_{e}({py}) = {se.get(py, 'a different word')} and {wire} is a word hex_from_{e} writes for a number: that number no longer survives the round trip")
    # dtm: "FF" * 6/7 <-> None
    fe, fd = repo.func(f"{H}.hex_from_dtm"), repo.func(f"{H}.hex_to_dtm")
    r2.instances += 1
    r2.nontrivial += 1
    enc_none = [n for n in own_nodes(fe.node) if isinstance(n, ast.If) and norm(n.test) == "dtm is None" and isinstance(n.body[0], ast.Return) and norm(n.body[0].value).startswith("'FF' *")]
    dec_none = [n for n in own_nodes(fd.node) if isinstance(n, ast.If) and "== 'FF' * 6" in norm(n.test) and isinstance(n.body[0], ast.Return) and norm(n.body[0].value) == "None"]
    if enc_none and dec_none:
        r2.ok({"pair": "dtm", "sentinel": "None <-> 'FF' * 6|7"})
    else:
        r2.fail("hex_from_dtm:None", fe.loc(), "the not-available datetime sentinel ('FF' * 6/7 <-> None) is no longer symmetric")
    out.append(r2)

    # ---- R3 ---------------------------------------------------------------------------
    r3 = RuleResult("R3", "bit/column layout agreement inside codec pairs", "dts shifts/masks; dtm format order vs slices; device-id masks", min_instances=10)
    # dts: decoder fields {name: (mask_bits, shift)} vs encoder shifts
    fd, fe = repo.func(f"{H}.hex_to_dts"), repo.func(f"{H}.hex_from_dts")
    dec_fields: dict[str, tuple[int, int]] = {}
    for n in own_nodes(fd.node):
        if isinstance(n, ast.Call) and norm(n.func) == "dt":
            for k in n.keywords:
                v = inline_calls(ctx, fd, k.value)  # (_seqx & MASK << S) >> S, possibly via a one-line helper
                if isinstance(v, ast.BinOp) and isinstance(v.op, ast.RShift) and isinstance(v.left, ast.BinOp) and isinstance(v.left.op, ast.BitAnd):
                    m = v.left.right
                    s_out = ctx.consts.eval_in(fd, v.right)
                    mask = ctx.consts.eval_in(fd, m)
                    if isinstance(mask, int) and isinstance(s_out, int):
                        dec_fields[k.arg] = (mask, s_out)  # type: ignore[index]
    enc_shifts: dict[str, int] = {}
    names = {"tm_year": "year", "tm_mon": "month", "tm_mday": "day", "tm_hour": "hour", "tm_min": "minute", "tm_sec": "second"}
    for n in own_nodes(fe.node):
        if isinstance(n, ast.BinOp) and isinstance(n.op, ast.LShift):
            for nm in ast.walk(n.left):
                if isinstance(nm, ast.Name) and nm.id in names:
                    s = ctx.consts.eval_in(fe, n.right)
                    if isinstance(s, int):
                        enc_shifts[names[nm.id]] = s
    if len(dec_fields) != 6 or len(enc_shifts) != 6:
        raise AnalysisError(f"dts codec: found {len(dec_fields)} decoder fields / {len(enc_shifts)} encoder shifts")
    limits = {"year": 99, "month": 12, "day": 31, "hour": 23, "minute": 59, "second": 59}
    # the encoder's image per field: the value shifted into place, as an interval over the calendar ranges of timetuple(); it has
    # to stay on the field's grid (a 2-digit year, a month, ...) - a mask that is wider than the grid lets off-grid values through
    cal = {"tm_year": (1, 9999), "tm_mon": (1, 12), "tm_mday": (1, 31), "tm_hour": (0, 23), "tm_min": (0, 59), "tm_sec": (0, 61)}

    def _ival(e: ast.expr) -> "tuple[int, int] | None":
        if isinstance(e, ast.Name) and e.id in cal:
            return cal[e.id]
        if isinstance(e, ast.Constant) and isinstance(e.value, int) and not isinstance(e.value, bool):
            return e.value, e.value
        if isinstance(e, ast.BinOp):
            k = ctx.consts.eval_in(fe, e.right) if not isinstance(e.right, ast.Constant) else e.right.value
            a = _ival(e.left)
            if isinstance(e.op, ast.Mod) and isinstance(k, int) and k > 0:
                return (a[0], a[1]) if a is not None and 0 <= a[0] and a[1] < k else (0, k - 1)
            if isinstance(e.op, ast.BitAnd) and isinstance(k, int) and k >= 0:
                return (a[0], a[1]) if a is not None and 0 <= a[0] and a[1] <= k and (k & (k + 1)) == 0 else (0, k)
            if a is None or not isinstance(k, int):
                return None
            if isinstance(e.op, ast.Sub):
                return a[0] - k, a[1] - k
            if isinstance(e.op, ast.Add):
                return a[0] + k, a[1] + k
        return None

    for n in own_nodes(fe.node):
        if isinstance(n, ast.BinOp) and isinstance(n.op, ast.LShift):
            nm = [x.id for x in ast.walk(n.left) if isinstance(x, ast.Name) and x.id in names]
            if len(nm) != 1:
                continue
            fld = names[nm[0]]
            r3.instances += 1
            r3.nontrivial += 1
            iv = _ival(n.left)
            lim = limits[fld] if fld != "second" else 61
            if iv is None:
                r3.notes.append(f"hex_from_dts: the image of `{norm(n.left)}` is not an interval the rule can compute (undecided)")
                r3.ok({"dts_encoder_field": fld, "image": "undecided"})
            elif iv[0] < 0 or iv[1] > lim:
                r3.fail(f"hex_from_dts:{fld}:image", fe.loc(n), f"hex_from_dts shifts `{norm(n.left)}` into the {fld} field: its values range over {iv[0]}..{iv[1]}, but the {fld} grid is 0..{lim} - an out-of-range date is wrapped into a different, valid-looking timestamp instead of being reduced to (or refused as) a value on the grid")
            else:
                r3.ok({"dts_encoder_field": fld, "image": list(iv), "grid": [0, lim]})
    used = 0
    for fld, (mask, shift) in sorted(dec_fields.items()):
        r3.instances += 1
        r3.nontrivial += 1
        low = mask >> shift
        problems = []
        if mask & ((1 << shift) - 1):
            problems.append("mask is not aligned to its shift")
        if enc_shifts.get(fld) != shift:
            problems.append(f"encoder shifts by {enc_shifts.get(fld)}, decoder by {shift}")
        if low < limits[fld]:
            problems.append(f"field is {low.bit_length()} bits wide: too narrow for 0..{limits[fld]}")
        if used & mask:
            problems.append("overlaps another field")
        used |= mask
        if problems:
            r3.fail(f"hex_*_dts:{fld}", fd.loc(), f"packed timestamp field '{fld}': " + "; ".join(problems))
        else:
            r3.ok({"dts_field": fld, "shift": shift, "width": low.bit_length()})
    r3.instances += 1
    r3.nontrivial += 1
    if used.bit_length() <= 48 and any("012X" in norm(n) for n in own_nodes(fe.node) if isinstance(n, ast.JoinedStr)):
        r3.ok({"dts_total_bits": used.bit_length(), "format": "012X"})
    else:
        r3.fail("hex_from_dts:width", fe.loc(), f"the packed timestamp needs {used.bit_length()} bits but is formatted as 12 hex digits (48 bits)")
    # dtm: encoder format order vs decoder slices
    fd, fe = repo.func(f"{H}.hex_to_dtm"), repo.func(f"{H}.hex_from_dtm")
    from .common import expand, str_template

    # the function that lays the fields out: the callee fed with `*<x>.timetuple()` (a closure or a module-level helper)
    inner = None
    for site in ctx.cg.calls_in(fe):
        c0 = site.node
        if isinstance(c0, ast.Call) and len(c0.args) == 1 and isinstance(c0.args[0], ast.Starred) and norm(c0.args[0].value).endswith(".timetuple()") and site.callees:
            inner = site.callees[0]
    if inner is None:
        raise AnalysisError("hex_from_dtm: the helper fed with *dtm.timetuple() was not found")
    rets = [n for n in own_nodes(inner.node) if isinstance(n, ast.Return) and n.value is not None]
    if len(rets) != 1:
        raise AnalysisError(f"{inner.short}: expected a single return expression")
    order = []
    pos = 0
    for kind, txt in str_template(inner.node, rets[0].value):
        if kind == "lit":
            pos += len(txt)
            continue
        m = re.fullmatch(r"(\w+):0(\d)X", txt)
        if not m:
            raise AnalysisError(f"{inner.short}: field `{txt}` is not formatted as fixed-width hex")
        order.append((m.group(1), pos, pos + int(m.group(2))))
        pos += int(m.group(2))
    slices: dict[str, tuple[int, int]] = {}
    for n in own_nodes(fd.node):
        if isinstance(n, ast.Call) and norm(n.func) == "dt":
            for k in n.keywords:
                for s in ast.walk(k.value):
                    if isinstance(s, ast.Subscript) and isinstance(s.slice, ast.Slice) and norm(s.value) == "value":
                        lo = s.slice.lower.value if s.slice.lower is not None else 0  # type: ignore[union-attr]
                        hi = s.slice.upper.value  # type: ignore[union-attr]
                        slices[k.arg] = (lo, hi)  # type: ignore[index]
    alias = {"sec": "second", "min": "minute", "hour": "hour", "mday": "day", "mon": "month", "year": "year"}
    if len(order) != 6 or len(slices) != 6:
        raise AnalysisError("dtm codec: format fields / slices not found")
    for nm, lo, hi in order:
        r3.instances += 1
        r3.nontrivial += 1
        if slices.get(alias[nm]) == (lo, hi):
            r3.ok({"dtm_field": alias[nm], "columns": [lo, hi]})
        else:
            r3.fail(f"hex_*_dtm:{alias[nm]}", fd.loc(), f"datetime field '{alias[nm]}' is written at columns {lo}:{hi} but read from {slices.get(alias[nm])}")
    # dtm: the DST flag must be or-ed into the *seconds* octet, the one the decoder masks with 0b1111111.
    # Flow-sensitive column tracking of the encoder's string variable: {columns already cut off its front} per program point.
    r3.instances += 1
    r3.nontrivial += 1
    flag_sites = _dst_flag_sites(fe)
    sec_cols = next(((lo, hi) for nm, lo, hi in order if nm == "sec"), None)
    dec_mask_ok = any(
        isinstance(n, ast.BinOp) and isinstance(n.op, ast.BitAnd) and isinstance(n.right, ast.Constant) and n.right.value == 0x7F and "value[:2]" in norm(n.left)
        for n in own_nodes(fd.node)
    )
    if not flag_sites:
        r3.ok({"dtm_dst_flag": "no flag site in the encoder"})
    else:
        bad = [(n, offs, cols) for n, offs, cols in flag_sites if sec_cols is None or any((cols[0] + o, cols[1] + o) != sec_cols for o in offs) or not offs]
        if bad or not dec_mask_ok:
            n, offs, cols = (bad[0] if bad else flag_sites[0])
            r3.fail(
                "hex_from_dtm:dst-flag-column",
                fe.loc(n),
                f"the DST flag (| 0x80) is applied to columns {cols[0]}:{cols[1]} of a string whose first {sorted(offs)} columns may already have been cut off: "
                f"it must land on the seconds octet (columns {sec_cols}), the only one the decoder masks with 0b1111111" if bad else "the decoder no longer masks the seconds octet with 0b1111111 although the encoder sets the DST flag there",
            )
        else:
            r3.ok({"dtm_dst_flag": f"or-ed into columns {sec_cols} (seconds) on every path; decoder masks 0b1111111"})
    # device ids: the bit layout is read off the expressions (constant-folded masks/shifts), whatever the operands are called
    from .common import expand as _expand

    def _fold(f, e):
        try:
            return ctx.consts.eval_in(f, e)
        except Exception:
            return None

    dec_layouts = []
    dec_fields: dict = {}
    enc_fields: dict = {}
    for qn in (f"{A}.hex_id_to_dev_id", f"{A}.Address.convert_from_hex"):
        f = repo.func(qn)
        r3.instances += 1
        r3.nontrivial += 1
        type_fields, id_masks = [], []
        for n in ast.walk(f.node):
            if isinstance(n, ast.BinOp) and isinstance(n.op, ast.RShift) and isinstance(n.left, ast.BinOp) and isinstance(n.left.op, ast.BitAnd):
                mk, sh = _fold(f, n.left.right), _fold(f, n.right)
                if isinstance(mk, int) and isinstance(sh, int):
                    type_fields.append((mk, sh))
            elif isinstance(n, ast.BinOp) and isinstance(n.op, ast.BitAnd) and not isinstance(getattr(n, "parent", None), ast.BinOp):
                mk = _fold(f, n.right)
                if isinstance(mk, int):
                    id_masks.append(mk)
        # an `x & M` that is the left operand of `>>` was counted as a type field; the remaining plain masks are the id masks
        id_masks = [m for m in id_masks if not any(m == tm for tm, _s in type_fields)] or [m for m in {_fold(f, n.right) for n in ast.walk(f.node) if isinstance(n, ast.BinOp) and isinstance(n.op, ast.BitAnd)} if isinstance(m, int) and not any(m == tm for tm, _s in type_fields)]
        ok = bool(type_fields) and bool(id_masks) and all(tm == (0xFFFFFF ^ ((1 << sh) - 1)) for tm, sh in type_fields) and all(im == (1 << type_fields[0][1]) - 1 for im in id_masks) and len({sh for _tm, sh in type_fields}) == 1
        dec_fields[qn] = (sorted(set(type_fields)), sorted(set(id_masks)))
        if ok:
            dec_layouts.append(type_fields[0][1])
            r3.ok({"decoder": f.short, "type_field": f"(x & {type_fields[0][0]:#08X}) >> {type_fields[0][1]}", "id_mask": f"{id_masks[0]:#08X}", "complementary_over": "24 bits"})
        else:
            r3.fail(f"{f.short}:masks", f.loc(), f"the device-id decoder's fields are not (x & M) >> s and x & ~M with complementary masks over 24 bits: type fields {type_fields}, id masks {id_masks}")
    for qn in (f"{A}.dev_id_to_hex_id", f"{A}.Address.convert_to_hex"):
        f = repo.func(qn)
        r3.instances += 1
        r3.nontrivial += 1
        shifts, widths = [], []
        for n in own_nodes(f.node):
            if isinstance(n, ast.Return) and n.value is not None:
                v = _expand(f.node, n.value, pure_only=False)
                for x in ast.walk(v):
                    if isinstance(x, ast.BinOp) and isinstance(x.op, ast.LShift):
                        sh = _fold(f, x.right)
                        if isinstance(sh, int):
                            shifts.append(sh)
                    if isinstance(x, ast.FormattedValue) and x.format_spec is not None:
                        m = re.search(r"(\d+)X", norm(x.format_spec))
                        if m:
                            widths.append(int(m.group(1)))
        # every field must be bounded by a dominating raising guard to its own width: a guard on the packed word alone lets a too-large
        # number spill into the type bits (a different valid id)
        for n in own_nodes(f.node):
            if not (isinstance(n, ast.Return) and n.value is not None):
                continue
            v = _expand(f.node, n.value, pure_only=False)
            for x in ast.walk(v):
                if isinstance(x, ast.BinOp) and isinstance(x.op, (ast.Add, ast.BitOr)) and isinstance(x.left, ast.BinOp) and isinstance(x.left.op, ast.LShift):
                    sh = _fold(f, x.left.right)
                    if not isinstance(sh, int):
                        continue
                    ub = _exclusive_upper_bounds(ctx, f, n)
                    for fld, expr, limit in (("type", x.left.left, 1 << (24 - sh)), ("number", x.right, 1 << sh)):
                        r3.instances += 1
                        r3.nontrivial += 1
                        got = ub.get(norm(expr))
                        if got is not None and got <= limit:
                            r3.ok({"encoder": f.short, "field": fld, "expr": norm(expr), "guarded_below": got, "field_capacity": limit})
                        else:
                            r3.fail(f"{f.short}:{fld}-unbounded", f.loc(n), f"the {fld} field `{norm(expr)}` of the packed id is not bounded below {limit} by a raising guard (bound found: {got}): an out-of-range {fld} spills into the neighbouring field and becomes a different valid id")
        enc_fields[qn] = sorted({norm(_expand(f.node, n.value, pure_only=False)) for n in own_nodes(f.node) if isinstance(n, ast.Return) and n.value is not None and any(isinstance(x, ast.LShift) for x in ast.walk(_expand(f.node, n.value, pure_only=False)))})
        if shifts and widths and set(shifts) == {dec_layouts[0] if dec_layouts else 18} and set(widths) == {6}:
            r3.ok({"encoder": f.short, "type_shift": shifts[0], "hex_width": 6})
        else:
            r3.fail(f"{f.short}:shift", f.loc(), f"the device-id encoder does not place the type at bit {dec_layouts[0] if dec_layouts else 18} (where the decoder reads it) in a 6-hex-digit word: shifts {shifts}, widths {widths}")
    out.append(r3)

    # ---- R4 ---------------------------------------------------------------------------
    r4 = RuleResult("R4", "sibling implementations agree", "the two device-id encoders (and the two decoders) share their core expression", min_instances=2)
    # compared after copy propagation (a hoisted `n = int(dev_type)` is the same expression) and on folded masks/shifts
    r4.instances += 1
    r4.nontrivial += 1
    e1, e2 = enc_fields.get(f"{A}.dev_id_to_hex_id"), enc_fields.get(f"{A}.Address.convert_to_hex")
    if e1 and e1 == e2:
        r4.ok({"encoders": e1})
    else:
        r4.fail("dev-id-encoders:disagree", repo.mod(A).rel, f"dev_id_to_hex_id returns {e1} but Address.convert_to_hex returns {e2}")
    r4.instances += 1
    r4.nontrivial += 1
    d1, d2 = dec_fields.get(f"{A}.hex_id_to_dev_id"), dec_fields.get(f"{A}.Address.convert_from_hex")
    if d1 and d1[0] and d1 == d2:
        r4.ok({"decoders": {"type_fields(mask,shift)": d1[0], "id_masks": d1[1]}})
    else:
        r4.fail("dev-id-decoders:disagree", repo.mod(A).rel, f"hex_id_to_dev_id uses (type fields, id masks) {d1} but Address.convert_from_hex uses {d2}")
    out.append(r4)

    # ---- R5 ---------------------------------------------------------------------------
    r5 = RuleResult("R5", "no silent wrap", "every fixed-width hex format in an encoder is range-bounded (raising guard, mask, or by construction)", min_instances=8)
    targets = [f for f in repo.functions_in(f"{H}.") if f.name.startswith("hex_from_")] + [repo.func(f"{A}.dev_id_to_hex_id"), repo.func(f"{A}.Address.convert_to_hex")]
    for f in targets:
        for g in [f] + list(f.nested.values()):
            for n in own_nodes(g.node):
                if isinstance(n, ast.FormattedValue) and n.format_spec is not None:
                    spec = ctx.consts.eval_in(g, n.format_spec)
                    m = re.fullmatch(r"0?>?(\d+)X", spec) if isinstance(spec, str) else None
                    if not m:
                        continue
                    width = int(m.group(1))
                    r5.instances += 1
                    r5.nontrivial += 1
                    why = _bounded(ctx, g, f, n.value, width)
                    if why:
                        r5.ok({"site": f"{g.short}: {{{norm(n.value)[:40]}:{spec}}}", "bounded_by": why})
                    else:
                        r5.fail(f"{g.short}:{norm(n.value)[:40]}:{spec}", g.loc(n), f"`{{{norm(n.value)[:50]}:{spec}}}` in {g.short} has no range guard: a value that does not fit {width} hex digits is silently widened/wrapped into a different valid wire value")
    # (ii) the other side of "no silent wrap": a raising range guard must not refuse a word the decoder reads as a number. For a
    # two's-complement encoder (`x if x >= 0 else x + 2**N`) whose decoder never raises, the decoder's numeric domain is every N-bit
    # word except its sentinel words, so the guard's interval has to cover the whole signed range bar those words
    for e in ("temp",):
        fe, fd = repo.func(f"{H}.hex_from_{e}"), repo.func(f"{H}.hex_to_{e}")
        bits = None
        for n in own_nodes(fe.node):
            if isinstance(n, ast.BinOp) and isinstance(n.op, ast.Add):
                k = ctx.consts.eval_in(fe, n.right)
                if isinstance(k, int) and k > 0 and (k & (k - 1)) == 0 and k.bit_length() - 1 in (8, 16, 24, 32):
                    bits = k.bit_length() - 1
        if bits is None:
            continue
        # the decoder's own refusals narrow its numeric domain: structural checks (isinstance/len) do not; `q < C` / `q > C` on the
        # quotient q = raw / K do; anything else leaves the domain unknown and this clause undecided
        dom_lo, dom_hi = -(1 << (bits - 1)), (1 << (bits - 1)) - 1
        ks = [ctx.consts.eval_in(fd, n.right) for n in own_nodes(fd.node) if isinstance(n, ast.BinOp) and isinstance(n.op, ast.Div)]
        K = ks[0] if len(ks) == 1 and isinstance(ks[0], int) else None
        unknown = False
        for st in own_nodes(fd.node):
            if isinstance(st, ast.If) and any(isinstance(b, ast.Raise) for b in st.body):
                t = st.test
                if all(isinstance(c, ast.Call) and norm(c.func) in ("isinstance", "len") or not isinstance(c, ast.Call) for c in ast.walk(t)) and any(isinstance(c, ast.Call) for c in ast.walk(t)):
                    continue
                if isinstance(t, ast.Compare) and len(t.ops) == 1 and isinstance(t.left, ast.Name) and K:
                    c = ctx.consts.eval_in(fd, t.comparators[0])
                    if isinstance(c, (int, float)):
                        import math

                        if isinstance(t.ops[0], ast.Lt):
                            dom_lo = max(dom_lo, math.ceil(c * K - 1e-9))
                            continue
                        if isinstance(t.ops[0], ast.LtE):
                            dom_lo = max(dom_lo, math.floor(c * K + 1e-9) + 1)
                            continue
                        if isinstance(t.ops[0], ast.Gt):
                            dom_hi = min(dom_hi, math.floor(c * K + 1e-9))
                            continue
                        if isinstance(t.ops[0], ast.GtE):
                            dom_hi = min(dom_hi, math.ceil(c * K - 1e-9) - 1)
                            continue
                unknown = True
        if unknown:
            r5.notes.append(f"hex_to_{e}: a refusal of the decoder is not an interval test; whether hex_from_{e}'s guard covers the decoder's numeric domain is undecided")
            continue
        sent = set()
        for wire in _sentinels_dec(fd):
            try:
                w = int(ast.literal_eval(wire), 16)
                sent.add(w - (1 << bits) if w >= 1 << (bits - 1) else w)
            except Exception:  # noqa: BLE001
                pass
        for st in fe.node.body:
            if isinstance(st, ast.If) and any(isinstance(b, ast.Raise) for b in st.body):
                for c in ast.walk(st.test):
                    if isinstance(c, ast.Compare) and len(c.ops) == 2 and all(isinstance(o, (ast.Lt, ast.LtE)) for o in c.ops) and isinstance(c.comparators[0], ast.Name):
                        lo, hi = ctx.consts.eval_in(fe, c.left), ctx.consts.eval_in(fe, c.comparators[1])
                        if not (isinstance(lo, int) and isinstance(hi, int)):
                            continue
                        lo_i = lo if isinstance(c.ops[0], ast.LtE) else lo + 1
                        hi_i = hi if isinstance(c.ops[1], ast.LtE) else hi - 1
                        r5.instances += 1
                        r5.nontrivial += 1
                        R_lo, R_hi = dom_lo, dom_hi
                        refused = [v for v in list(range(R_lo, min(lo_i, R_hi + 1))) + list(range(max(hi_i + 1, R_lo), R_hi + 1)) if v not in sent]
                        if refused:
                            r5.fail(f"hex_from_{e}:guard-refuses-representable", fe.loc(st), f"hex_from_{e}'s range guard `{norm(st.test)[:60]}` admits {lo_i}..{hi_i}, but hex_to_{e} reads every {bits}-bit word in {dom_lo}..{dom_hi} except its sentinels as a number: {len(refused)} wire values (e.g. word {refused[0] & ((1 << bits) - 1):0{bits // 4}X}) decode to a number that can no longer be re-encoded")
                        else:
                            r5.ok({"encoder": f"hex_from_{e}", "guard": norm(st.test)[:60], "covers": f"the decoder's numeric domain {dom_lo}..{dom_hi} bar its sentinels"})
    out.append(r5)

    # ---- R6 ---------------------------------------------------------------------------
    r6 = RuleResult("R6", "decoders keep the wire grid", "a paired decoder's `raw / K` reaches its return without a coarser round()/int()/floor-division", min_instances=4)
    sched = repo.func("ramses_rf.system.schedule.fragz_to_full_sched")
    from .common import module_scope

    # the schedule decoder's part: whichever function in its scope (nested closure or extracted helper) does the division
    unpack_side = [g for g in module_scope(ctx, sched) if g is not sched or True]
    decoders = [repo.func(f"{H}.hex_to_{d}") for d in ("temp", "percent", "double")] + unpack_side
    for f in decoders:
        divs = [n for n in own_nodes(f.node) if isinstance(n, ast.BinOp) and isinstance(n.op, (ast.Div, ast.FloorDiv))]
        if not divs:
            continue
        ks: set[int] = set()
        unknown_k = False
        for dv in divs:
            cand = [dv.right.body, dv.right.orelse] if isinstance(dv.right, ast.IfExp) else [dv.right]
            for c in cand:
                k = _fold(f, c) if not isinstance(c, ast.Constant) else c.value
                if isinstance(k, int) and not isinstance(k, bool):
                    ks.add(k)
                else:
                    unknown_k = True
        # names that carry the quotient
        tainted: set[str] = set()
        changed = True
        def _carries(e: ast.AST) -> bool:
            return any(x in divs or (isinstance(x, ast.Name) and x.id in tainted) for x in ast.walk(e))
        while changed:
            changed = False
            for n in own_nodes(f.node):
                tgt = None
                if isinstance(n, (ast.Assign, ast.AnnAssign, ast.AugAssign)) and n.value is not None and _carries(n.value):
                    tg = n.targets[0] if isinstance(n, ast.Assign) else n.target
                    tgt = tg.id if isinstance(tg, ast.Name) else None
                elif isinstance(n, ast.NamedExpr) and _carries(n.value):
                    tgt = n.target.id
                if tgt and tgt not in tainted:
                    tainted.add(tgt)
                    changed = True
        r6.instances += 1
        r6.nontrivial += 1
        bad = []
        for n in own_nodes(f.node):
            if isinstance(n, ast.BinOp) and isinstance(n.op, ast.FloorDiv) and (n in divs or _carries(n.left)):
                bad.append((n, "floor division"))
            if isinstance(n, ast.Call) and isinstance(n.func, ast.Name) and n.func.id in ("int", "round") and n.args and _carries(n.args[0]) and n.func.id == "int":
                bad.append((n, "int() truncates the quotient"))
            if isinstance(n, ast.Call) and isinstance(n.func, ast.Name) and n.func.id == "round" and n.args and _carries(n.args[0]):
                nd = 0 if len(n.args) < 2 else (n.args[1].value if isinstance(n.args[1], ast.Constant) else None)
                if isinstance(nd, int) and not unknown_k and any((10 ** nd) % k for k in ks):
                    bad.append((n, f"round(.., {nd}) is coarser than the 1/{max(ks)} wire grid"))
        # a clamp: the quotient re-assigned to a numeric constant under a test of itself - the constant is then the image of two words
        for n in own_nodes(f.node):
            if isinstance(n, ast.Assign) and len(n.targets) == 1 and isinstance(n.targets[0], ast.Name) and n.targets[0].id in tainted and isinstance(n.value, ast.Constant) and isinstance(n.value.value, (int, float)) and not isinstance(n.value.value, bool):
                par = getattr(n, "parent", None)
                if isinstance(par, ast.If) and _carries(par.test):
                    bad.append((n, f"clamp: a wire word is decoded as the constant {n.value.value}, which is also what another word decodes to"))
            if isinstance(n, ast.Call) and isinstance(n.func, ast.Name) and n.func.id in ("min", "max") and len(n.args) == 2 and any(_carries(a) for a in n.args) and any(isinstance(a, ast.Constant) for a in n.args):
                bad.append((n, "clamp: min()/max() with a constant folds every word beyond it onto one value"))
        if bad:
            for n, why in bad:
                r6.fail(f"{f.short}:{why.split()[0]}", f.loc(n), f"`{norm(n)[:70]}` in {f.short}: {why}: distinct wire words decode to the same value, so a value on the wire grid does not survive the round trip")
        else:
            r6.ok({"decoder": f.short, "divisors": sorted(ks) + (["<parameter>"] if unknown_k else []), "quotient_carried_by": sorted(tainted)})
    # the sign fold of a two's-complement decoder: the word K = 2**(n-1) is the most negative value, so the fold-down by 2**n happens
    # for exactly the words >= K. A test that is off by one (`> K`) decodes the word K as +K/scale - outside the wire range
    from .common import Unfoldable as _Unf6
    from .common import fold_expr as _fold6

    for f in [g for g in repo.functions_in(f"{H}.") if g.name.startswith("hex_to_") and g.parent is None]:
        subs = []
        for n in own_nodes(f.node):
            m = None
            if isinstance(n, ast.BinOp) and isinstance(n.op, ast.Sub):
                m = _fold(f, n.right) if not isinstance(n.right, ast.Constant) else n.right.value
            elif isinstance(n, ast.AugAssign) and isinstance(n.op, ast.Sub):
                m = _fold(f, n.value) if not isinstance(n.value, ast.Constant) else n.value.value
            if isinstance(m, int) and m >= 256 and (m & (m - 1)) == 0:
                subs.append((n, m))
        for n, m in subs:
            K = m // 2
            # the test that selects this subtraction: the enclosing conditional expression / if statement
            p6 = getattr(n, "parent", None)
            test = None
            in_true = None
            c6 = n
            while p6 is not None and p6 is not f.node:
                if isinstance(p6, ast.IfExp) and c6 is not p6.test:
                    test, in_true = p6.test, c6 is p6.body
                    break
                if isinstance(p6, ast.If) and c6 is not p6.test:
                    test, in_true = p6.test, c6 in p6.body
                    break
                c6, p6 = p6, getattr(p6, "parent", None)
            if test is None:
                continue
            names6 = sorted({x.id for x in ast.walk(test) if isinstance(x, ast.Name)})
            if len(names6) != 1:
                continue
            r6.instances += 1
            r6.nontrivial += 1
            try:
                at_k = bool(_fold6(None, test, {names6[0]: K}, ctx.consts, f))
                below = bool(_fold6(None, test, {names6[0]: K - 1}, ctx.consts, f))
            except (_Unf6, TypeError):
                r6.ok({"decoder": f.short, "sign_fold": "test not foldable (undecided)"})
                continue
            folds_at_k = at_k if in_true else not at_k
            folds_below = below if in_true else not below
            if folds_at_k and not folds_below:
                r6.ok({"decoder": f.short, "sign_fold": f"words >= {K:#x} are folded down by {m:#x}"})
            else:
                r6.fail(f"{f.short}:sign-fold-boundary", f.loc(test), f"in {f.short} the fold-down by {m:#x} is selected by `{norm(test)[:40]}`: the word {K:#x} is {'not ' if not folds_at_k else ''}folded and {K - 1:#x} is {'' if folds_below else 'not '}folded - the boundary word decodes to a value on the wrong side of the range (e.g. 0x8000 as +327.68 instead of -327.68)")
    out.append(r6)

    # ---- R7 ---------------------------------------------------------------------------
    # hex text is a sequence of 2-character bytes: looking for a byte pattern with str.partition/split/find/replace/strip or `in`
    # also matches across a byte boundary ("50" "00" contains "00" at offset 1 - and at offset 2), so the cut can land inside a byte
    r7 = RuleResult("R7", "decoders treat hex text byte-wise", "no unaligned search for a byte pattern in the hex text of a decoder", min_instances=1)
    SEARCH = {"partition", "rpartition", "split", "rsplit", "find", "rfind", "index", "rindex", "replace", "strip", "rstrip", "lstrip", "count"}
    decs = [f for f in repo.functions_in(f"{H}.") if f.name.startswith("hex_to_")]
    if len(decs) < 8:
        raise AnalysisError(f"only {len(decs)} hex_to_* decoders found")
    for f in decs:
        params = {a.arg for a in f.node.args.args}
        r7.instances += 1
        r7.nontrivial += 1
        hits = []
        for n in own_nodes(f.node):
            base = pat = None
            if isinstance(n, ast.Call) and isinstance(n.func, ast.Attribute) and n.func.attr in SEARCH and n.args and isinstance(n.args[0], ast.Constant) and isinstance(n.args[0].value, str):
                base, pat = n.func.value, n.args[0].value
            elif isinstance(n, ast.Compare) and len(n.ops) == 1 and isinstance(n.ops[0], (ast.In, ast.NotIn)) and isinstance(n.left, ast.Constant) and isinstance(n.left.value, str):
                base, pat = n.comparators[0], n.left.value
            if base is None or pat is None or len(pat) < 2 or not re.fullmatch(r"[0-9A-Fa-f]+", pat):
                continue
            root = base
            while isinstance(root, ast.Subscript):
                root = root.value
            if isinstance(root, ast.Name) and root.id in params:
                hits.append(n)
        if hits:
            for n in hits:
                r7.fail(f"{f.short}:unaligned-search", f.loc(n), f"`{norm(n)[:70]}` in {f.short} searches the hex text for a byte pattern without regard to byte alignment: the match can straddle two bytes (e.g. '50'+'00' matches '00' at offset 1), so some values on the grid are cut mid-byte and no longer decode")
        else:
            r7.ok({"decoder": f.short, "unaligned_pattern_searches": 0})
    out.append(r7)

    # ---- R8 ---------------------------------------------------------------------------
    # a codec is a function of its arguments: (i) it does not read the environment - the wall clock, the host's timezone/DST rules -
    # or the same value would encode differently on another host or another day; (ii) an argument that is only known to be iterable
    # is consumed once - a second pass over a one-shot iterator sees nothing and silently encodes zeros
    r8 = RuleResult("R8", "codecs are functions of their arguments", "no clock/timezone read in a hex_* codec; an argument not pinned to a re-iterable type is iterated at most once", min_instances=10)
    ENV = {"time.localtime", "time.mktime", "time.time", "time.tzname", "time.timezone", "time.altzone", "time.daylight", "dt.now", "datetime.now", "dt.today", "date.today", "dt.utcnow", "time.gmtime"}
    ENV_ATTR = {"astimezone", "timestamp", "fromtimestamp", "utcoffset", "dst"}
    CONSUMERS = {"list", "tuple", "sum", "enumerate", "reversed", "sorted", "any", "all", "set", "max", "min", "zip", "map", "iter"}
    codecs = [f for f in repo.functions_in(f"{H}.") if f.name.startswith(("hex_to_", "hex_from_")) and f.parent is None]
    for f in codecs:
        r8.instances += 1
        r8.nontrivial += 1
        bad8 = []
        scope8 = [f] + list(f.nested.values())
        for g in scope8:
            for n in own_nodes(g.node):
                if isinstance(n, ast.Call) and (norm(n.func) in ENV or (isinstance(n.func, ast.Attribute) and n.func.attr in ENV_ATTR)):
                    bad8.append((n, f"reads the environment (`{norm(n)[:50]}`): the result depends on the host's clock/timezone, not only on the value"))
                elif isinstance(n, ast.Attribute) and norm(n) in ENV and not isinstance(getattr(n, "parent", None), ast.Call):
                    bad8.append((n, f"reads the environment (`{norm(n)}`)"))
        params8 = [a.arg for a in f.node.args.args]
        for prm in params8:
            pinned = any(isinstance(st, ast.If) and any(isinstance(b, ast.Raise) for b in st.body) and any(isinstance(c, ast.Call) and norm(c.func) == "isinstance" and len(c.args) == 2 and norm(c.args[0]) == prm and any(t in norm(c.args[1]) for t in ("list", "tuple", "Sequence")) and isinstance(getattr(c, "parent", None), ast.UnaryOp) and isinstance(c.parent.op, ast.Not) for c in ast.walk(st.test)) for st in f.node.body)  # type: ignore[attr-defined]
            if pinned:
                continue
            uses = []
            for n in own_nodes(f.node):
                if isinstance(n, ast.Call) and isinstance(n.func, ast.Name) and n.func.id in CONSUMERS and any(isinstance(a, ast.Name) and a.id == prm for a in n.args):
                    uses.append(n)
                elif isinstance(n, (ast.For, ast.comprehension)) and isinstance(n.iter, ast.Name) and n.iter.id == prm:
                    uses.append(n)
            if len(uses) >= 2:
                # an unconditional re-binding of the name between the two passes makes the second pass run over something else
                lines = sorted(getattr(u, "lineno", getattr(getattr(u, "iter", None), "lineno", 0)) for u in uses)
                rebound = any(isinstance(st, ast.Assign) and any(isinstance(t, ast.Name) and t.id == prm for t in st.targets) and lines[0] < st.lineno <= lines[-1] for st in f.node.body)
                if not rebound:
                    bad8.append((uses[-1], f"iterates its `{prm}` argument more than once although it is not pinned to a list/tuple: a one-shot iterator is empty on the second pass and encodes as zeros"))
        if bad8:
            for n, why in bad8[:2]:
                r8.fail(f"{f.short}:{'env' if 'environment' in why else 'iterated-twice'}", f.loc(n), f"{f.short} {why}")
        else:
            r8.ok({"codec": f.short, "pure": True})
    out.append(r8)
    return out


def _dst_flag_sites(fe: FuncInfo) -> "list[tuple[ast.AST, set[int], tuple[int, int]]]":
    """[(site, possible front offsets of the string at that point, (lo, hi) columns the flag is or-ed into)]."""
    sites: list[tuple[ast.AST, set[int], tuple[int, int]]] = []

    def cut_of(value: ast.expr, var: str) -> int | None:
        """`var[k:]` -> k ; `<anything> + var[k:]` (rebuild keeping the tail) -> 0 ; the variable itself -> 0."""
        if isinstance(value, ast.Name) and value.id == var:
            return 0
        if isinstance(value, ast.Subscript) and isinstance(value.value, ast.Name) and value.value.id == var and isinstance(value.slice, ast.Slice):
            lo = value.slice.lower
            if value.slice.upper is None and (lo is None or (isinstance(lo, ast.Constant) and isinstance(lo.value, int) and lo.value >= 0)):
                return 0 if lo is None else lo.value
            return None
        if isinstance(value, ast.BinOp) and isinstance(value.op, ast.Add):
            # f"{...:02X}" + var[2:]  - a 2-column head replaced in place
            head, tail = value.left, value.right
            k = cut_of(tail, var)
            if k is not None:
                from .common import str_template

                w = 0
                for kind, txt in str_template(fe.node, head):
                    if kind == "lit":
                        w += len(txt)
                    else:
                        m = re.search(r":0(\d+)X$", txt)
                        w += int(m.group(1)) if m else 99
                return 0 if w == k else None
        return None

    def scan_flag(e: ast.AST, var: str, offs: set[int]) -> None:
        for n in ast.walk(e):
            if isinstance(n, ast.BinOp) and isinstance(n.op, ast.BitOr) and isinstance(n.right, ast.Constant) and n.right.value == 0x80:
                for sub in ast.walk(n.left):
                    if isinstance(sub, ast.Subscript) and isinstance(sub.value, ast.Name) and sub.value.id == var and isinstance(sub.slice, ast.Slice):
                        lo = 0 if sub.slice.lower is None else getattr(sub.slice.lower, "value", None)
                        hi = getattr(sub.slice.upper, "value", None)
                        if isinstance(lo, int) and isinstance(hi, int):
                            sites.append((n, set(offs), (lo, hi)))

    def run(stmts: list[ast.stmt], var: str | None, offs: set[int]) -> "tuple[str | None, set[int]]":
        for st in stmts:
            if isinstance(st, ast.Assign) and len(st.targets) == 1 and isinstance(st.targets[0], ast.Name):
                tgt = st.targets[0].id
                if var is None and isinstance(st.value, ast.Call) and norm(st.value.func) == "_dtm_to_hex":
                    var, offs = tgt, {0}
                    continue
                if var is not None and tgt == var:
                    from .common import expand

                    val = expand(fe.node, st.value)  # `secs = dtm_str[:2]` hoisted into a local
                    scan_flag(val, var, offs)
                    k = cut_of(val, var)
                    offs = {o + k for o in offs} if k is not None else set()
            elif isinstance(st, ast.If) and var is not None:
                scan_flag(st.test, var, offs)
                _v1, o1 = run(st.body, var, set(offs))
                _v2, o2 = run(st.orelse, var, set(offs))
                offs = o1 | o2
            elif isinstance(st, ast.If):
                v1, o1 = run(st.body, var, set(offs))
                v2, o2 = run(st.orelse, var, set(offs))
                var = v1 or v2
                offs = o1 | o2
            elif var is not None:
                scan_flag(st, var, offs)
        return var, offs

    run(list(fe.node.body), None, set())
    return sites


def _bounded(ctx: Ctx, g: FuncInfo, top: FuncInfo, v: ast.expr, width: int) -> str | None:
    txt = norm(v)
    # masks / modulo / ord() / bool sums / or-ing a byte
    if isinstance(v, ast.BinOp) and isinstance(v.op, (ast.BitAnd, ast.Mod)):
        return "mask/modulo"
    if isinstance(v, ast.BinOp) and isinstance(v.op, ast.BitOr) and "int(dtm_str[:2], 16)" in txt:
        return "byte | flag"
    if isinstance(v, ast.Call) and norm(v.func) == "ord":
        return "ord() of a character (checked by the caller's regex for ASCII)" if width >= 2 else None
    def _len_guard(bits: int) -> bool:
        """a raising guard that pins the number of flags (`len(x) != 8` -> raise)"""
        for st in top.node.body:
            if isinstance(st, ast.If) and any(isinstance(b, ast.Raise) for b in st.body):
                for c in ast.walk(st.test):
                    if isinstance(c, ast.Compare) and isinstance(c.left, ast.Call) and norm(c.left.func) == "len" and any(isinstance(k, ast.Constant) and k.value == bits for k in c.comparators):
                        return True
        return False

    def _elem_guard() -> bool:
        """a raising guard that pins every flag to {0, 1}: `any(x not in (0, 1) for x in flags)` / `not all(x in (0, 1) ...)` -> raise"""
        for st in top.node.body:
            if isinstance(st, ast.If) and any(isinstance(b, ast.Raise) for b in st.body):
                for c in ast.walk(st.test):
                    if isinstance(c, ast.Call) and norm(c.func) in ("any", "all") and c.args and isinstance(c.args[0], (ast.GeneratorExp, ast.ListComp)):
                        elt = c.args[0].elt
                        if isinstance(elt, ast.Compare) and len(elt.ops) == 1 and isinstance(elt.ops[0], (ast.In, ast.NotIn)) and isinstance(elt.comparators[0], (ast.Tuple, ast.Set, ast.List)):
                            vals = [k.value for k in elt.comparators[0].elts if isinstance(k, ast.Constant)]
                            if len(vals) == len(elt.comparators[0].elts) and set(vals) <= {0, 1, True, False} and (norm(c.func) == "any") == isinstance(elt.ops[0], ast.NotIn):
                                return True
        return False

    def _shifted_enum(e: ast.expr, idx_names: set[str]) -> bool:
        return isinstance(e, ast.BinOp) and isinstance(e.op, ast.LShift) and isinstance(e.right, ast.Name) and e.right.id in idx_names

    if isinstance(v, ast.Call) and norm(v.func) == "sum" and v.args and isinstance(v.args[0], (ast.GeneratorExp, ast.ListComp)):
        comp = v.args[0]
        gen = comp.generators[0]
        if isinstance(gen.iter, ast.Call) and norm(gen.iter.func) == "enumerate" and isinstance(gen.target, ast.Tuple) and isinstance(gen.target.elts[0], ast.Name) and _shifted_enum(comp.elt, {gen.target.elts[0].id}) and _len_guard(width * 4) and _elem_guard():
            return f"sum of {width * 4} shifted flags (length and element range pinned by raising guards)"
    if isinstance(v, ast.Name):
        # the loop form of the same sum: acc = 0; for idx, x in enumerate(..): acc = acc + (x << idx)  /  acc += x << idx  /  acc |= x << idx
        defs = [n for n in own_nodes(g.node) if (isinstance(n, ast.Assign) and any(isinstance(t, ast.Name) and t.id == v.id for t in n.targets)) or (isinstance(n, ast.AugAssign) and isinstance(n.target, ast.Name) and n.target.id == v.id)]
        inits = [d for d in defs if isinstance(d, ast.Assign) and isinstance(d.value, ast.Constant) and d.value.value == 0]
        steps = [d for d in defs if d not in inits]
        def _step_ok(d: ast.stmt) -> bool:
            loop = getattr(d, "parent", None)
            if not (isinstance(loop, ast.For) and isinstance(loop.iter, ast.Call) and norm(loop.iter.func) == "enumerate" and isinstance(loop.target, ast.Tuple) and isinstance(loop.target.elts[0], ast.Name)):
                return False
            idx = {loop.target.elts[0].id}
            if isinstance(d, ast.AugAssign):
                return isinstance(d.op, (ast.Add, ast.BitOr)) and _shifted_enum(d.value, idx)
            val = d.value
            return isinstance(val, ast.BinOp) and isinstance(val.op, (ast.Add, ast.BitOr)) and ((norm(val.left) == v.id and _shifted_enum(val.right, idx)) or (norm(val.right) == v.id and _shifted_enum(val.left, idx)))
        if len(inits) == 1 and steps and all(_step_ok(d) for d in steps) and _len_guard(width * 4) and _elem_guard():
            return f"loop-accumulated sum of {width * 4} shifted flags (length and element range pinned by raising guards)"
    # calendar fields by construction
    if isinstance(v, ast.Name) and v.id in ("sec", "min", "hour", "mday", "mon", "year") and g.name == "_dtm_to_hex":
        return "calendar field (timetuple)"
    if isinstance(v, ast.Name) and v.id == "result" and top.name == "hex_from_dts":
        return "sum of calendar fields within 48 bits (R3)"
    # a dominating raising guard on the source variable
    names = {n.id for n in ast.walk(v) if isinstance(n, ast.Name)}
    src: set[str] = set(names)
    for n in own_nodes(top.node):
        if isinstance(n, ast.Assign) and any(isinstance(t, ast.Name) and t.id in names for t in n.targets):
            src |= {x.id for x in ast.walk(n.value) if isinstance(x, ast.Name)}
    for st in list(top.node.body) + (list(g.node.body) if g is not top else []):
        if isinstance(st, ast.If) and any(isinstance(b, ast.Raise) for b in st.body):
            for c in ast.walk(st.test):
                if isinstance(c, ast.Compare):
                    operands = [c.left] + c.comparators
                    ranged = [o for o in operands if {x.id for x in ast.walk(o) if isinstance(x, ast.Name)} & src]
                    consts_ = [o for o in operands if not {x.id for x in ast.walk(o) if isinstance(x, ast.Name)}]
                    if ranged and consts_ and all(isinstance(o, (ast.Lt, ast.LtE, ast.Gt, ast.GtE)) for o in c.ops) and "isinstance" not in norm(c):
                        if len(c.ops) == 2 or any(isinstance(o, (ast.Lt, ast.LtE, ast.Gt, ast.GtE)) for o in c.ops):
                            return f"raising guard `{norm(st.test)[:70]}`"
    return None
