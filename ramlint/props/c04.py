"""C04 - Wire value codecs are exact inverses on their grid (temps, %, dates, ids)."""

from __future__ import annotations

import ast
import re
from typing import Any

from ..consteval import TOP
from ..context import Ctx
from ..loader import AnalysisError, FuncInfo, norm, own_nodes
from ..report import RuleResult
from .common import inline_calls

META = {
    "explanation": (
        "The full statement (identity on 65,536 words, 2^24 ids) is about values; enumerating them by running the helpers is testing, not "
        "this family. Decided clauses: C04.R1 no truncating float scaling in encoders - int(<float> * k) must go through round()/an integer "
        "idiom (int() truncates toward zero and k/100*100 is not exact in binary floating point, so the idiom MUST mis-encode some grid "
        "points: a theorem about IEEE-754, not a heuristic). C04.R2 sentinel tables of each encoder/decoder pair are mutual inverses. "
        "C04.R3 bit/column layouts agree inside codec pairs (dts shifts/masks; dtm format order vs slices; device-id shift/masks/widths). "
        "C04.R4 sibling implementations agree (Address.convert_to_hex ≡ dev_id_to_hex_id, convert_from_hex ≡ hex_id_to_dev_id). "
        "C04.R5 no silent wrap: every fixed-width hex format in an encoder is range-bounded by a dominating raising guard, a mask, or by "
        "construction. Not decided: exactness on the whole grid; text round-trip; flag8 bit order (values)."
    ),
}
META["explanation"] += ' C04.R3 also: the DST flag is or-ed into the seconds octet on every path through hex_from_dtm (flow-sensitive column tracking) and the decoder masks it.'

H = "ramses_tx.helpers"
A = "ramses_tx.address"


def float_scaling_sites(ctx: Ctx, funcs: list[FuncInfo]) -> list[tuple[FuncInfo, ast.Call, str]]:
    """int(<expr> * <k>) / int(<expr> / <k>) where <expr> may be a float: truncation toward zero."""
    out = []
    for f in funcs:
        for n in own_nodes(f.node):
            if isinstance(n, ast.Call) and isinstance(n.func, ast.Name) and n.func.id == "int" and len(n.args) == 1:
                a = n.args[0]
                if isinstance(a, ast.BinOp) and isinstance(a.op, ast.Mult):
                    ops = [a.left, a.right]
                    kinds = []
                    for o in ops:
                        at = ctx.cg.atoms(f, o) or ("Any",)
                        kinds.append(at)
                    floaty = any(any(x in ("I:builtins.float", "Any") for x in k) for k in kinds)
                    both_int = all(all(x in ("I:builtins.int", "I:builtins.bool") for x in k) for k in kinds)
                    if floaty and not both_int:
                        out.append((f, n, norm(n)))
    return out


def _guarded_returns(f: FuncInfo):
    """[(test, returned expression)] for every `if <test>: ... return <expr>` whose body is a lone return, plus conditional
    expressions `return A if <test> else B` (as (test, A))."""
    out = []
    for st in own_nodes(f.node):
        if isinstance(st, ast.If) and st.body and isinstance(st.body[-1], ast.Return) and st.body[-1].value is not None and len(st.body) == 1:
            out.append((st.test, st.body[-1].value))
        elif isinstance(st, ast.Return) and isinstance(st.value, ast.IfExp):
            out.append((st.value.test, st.value.body))
    return out


def _sentinels_enc(f: FuncInfo) -> dict[str, str]:
    """{python-constant-text: wire literal} from `if value is None: return "7FFF"` / `if value is False:` / `== None` / `in (None,)`."""
    out = {}
    for test, ret in _guarded_returns(f):
        if isinstance(test, ast.Compare) and len(test.ops) == 1 and isinstance(test.ops[0], (ast.Is, ast.Eq)) and isinstance(test.comparators[0], ast.Constant) and test.comparators[0].value in (None, False, True):
            out[norm(test.comparators[0])] = norm(ret)
    return out


def _sentinels_dec(f: FuncInfo) -> dict[str, str]:
    """{wire literal: python-constant-text} from `if value == "7FFF": return None` / `if value in ("31FF", "7FFF"): return None`."""
    out = {}
    for test, ret in _guarded_returns(f):
        if not (isinstance(test, ast.Compare) and len(test.ops) == 1):
            continue
        op, rhs = test.ops[0], test.comparators[0]
        if isinstance(op, ast.Eq) and isinstance(rhs, ast.Constant) and isinstance(rhs.value, str):
            out[norm(rhs)] = norm(ret)
        elif isinstance(op, ast.In) and isinstance(rhs, (ast.Tuple, ast.List, ast.Set)):
            for el in rhs.elts:
                if isinstance(el, ast.Constant) and isinstance(el.value, str):
                    out[norm(el)] = norm(ret)
    return out


def check(ctx: Ctx) -> list[RuleResult]:
    repo = ctx.repo
    out: list[RuleResult] = []

    # ---- R1 ---------------------------------------------------------------------------
    r1 = RuleResult("R1", "no truncating float scaling in encoders", "int(<float> * k) must round, not truncate", min_instances=4)
    enc = [f for f in repo.functions_in(f"{H}.") if f.name.startswith("hex_from_")]
    enc.append(repo.func("ramses_rf.system.schedule._struct_pack"))
    enc += [f for f in repo.functions_in("ramses_tx.command.Command.") if f.name.startswith(("set_", "put_", "get_", "_put_"))]
    sites = float_scaling_sites(ctx, enc)
    scaled = 0
    for f in enc:
        # every scaling site (rounded or not) is an instance
        for n in own_nodes(f.node):
            if isinstance(n, ast.BinOp) and isinstance(n.op, ast.Mult) and any(isinstance(x, ast.Constant) and x.value in (100, 200, 2, 10) or (isinstance(x, ast.IfExp)) or (isinstance(x, ast.Name) and x.id == "factor") for x in (n.left, n.right)):
                par = getattr(n, "parent", None)
                if isinstance(par, ast.Call) and isinstance(par.func, ast.Name) and par.func.id in ("int", "round"):
                    scaled += 1
    for f, n, txt in sites:
        r1.instances += 1
        r1.nontrivial += 1
        r1.fail(f"{f.short}:{txt[:60]}", f.loc(n), f"`{txt}` truncates toward zero: e.g. 0.29 * 100 is 28.999999999999996 in binary floating point, so the encoded wire value is one LSB low for such grid points", ["use round(...) (or integer arithmetic)"])
    ok_sites = max(scaled - len(sites), 0)
    r1.instances += ok_sites
    r1.nontrivial += ok_sites
    r1.obligations += ok_sites
    r1.discharged += ok_sites
    if ok_sites:
        r1.samples.append({"rounded_scaling_sites": ok_sites})
    r1.info = {"encoders_examined": len(enc), "scaling_sites": scaled}
    out.append(r1)

    # ---- R2 ---------------------------------------------------------------------------
    r2 = RuleResult("R2", "sentinel tables are mutual inverses", "every encoder sentinel decodes to the value it encodes", min_instances=5)
    pairs = [("temp", "temp"), ("bool", "bool"), ("double", "double"), ("percent", "percent"), ("dts", "dts")]
    for e, d in pairs:
        fe, fd = repo.func(f"{H}.hex_from_{e}"), repo.func(f"{H}.hex_to_{d}")
        se, sd = _sentinels_enc(fe), _sentinels_dec(fd)
        if not se:
            raise AnalysisError(f"hex_from_{e}: no sentinel guards found")
        for py, wire in se.items():
            r2.instances += 1
            r2.nontrivial += 1
            if sd.get(wire) == py:
                r2.ok({"pair": e, "sentinel": f"{py} <-> {wire}"})
            else:
                r2.fail(f"hex_from_{e}:{py}->{wire}", fe.loc(), f"hex_from_{e}({py}) = {wire}, but hex_to_{d}({wire}) returns {sd.get(wire, 'a number')}: the sentinel does not survive the round trip")
    # dtm: "FF" * 6/7 <-> None
    fe, fd = repo.func(f"{H}.hex_from_dtm"), repo.func(f"{H}.hex_to_dtm")
    r2.instances += 1
    r2.nontrivial += 1
    enc_none = [n for n in own_nodes(fe.node) if isinstance(n, ast.If) and norm(n.test) == "dtm is None" and isinstance(n.body[0], ast.Return) and norm(n.body[0].value).startswith("'FF' *")]
    dec_none = [n for n in own_nodes(fd.node) if isinstance(n, ast.If) and "== 'FF' * 6" in norm(n.test) and isinstance(n.body[0], ast.Return) and norm(n.body[0].value) == "None"]
    if enc_none and dec_none:
        r2.ok({"pair": "dtm", "sentinel": "None <-> 'FF' * 6|7"})
    else:
        r2.fail("hex_from_dtm:None", fe.loc(), "the not-available datetime sentinel ('FF' * 6/7 <-> None) is no longer symmetric")
    out.append(r2)

    # ---- R3 ---------------------------------------------------------------------------
    r3 = RuleResult("R3", "bit/column layout agreement inside codec pairs", "dts shifts/masks; dtm format order vs slices; device-id masks", min_instances=10)
    # dts: decoder fields {name: (mask_bits, shift)} vs encoder shifts
    fd, fe = repo.func(f"{H}.hex_to_dts"), repo.func(f"{H}.hex_from_dts")
    dec_fields: dict[str, tuple[int, int]] = {}
    for n in own_nodes(fd.node):
        if isinstance(n, ast.Call) and norm(n.func) == "dt":
            for k in n.keywords:
                v = inline_calls(ctx, fd, k.value)  # (_seqx & MASK << S) >> S, possibly via a one-line helper
                if isinstance(v, ast.BinOp) and isinstance(v.op, ast.RShift) and isinstance(v.left, ast.BinOp) and isinstance(v.left.op, ast.BitAnd):
                    m = v.left.right
                    s_out = ctx.consts.eval_in(fd, v.right)
                    mask = ctx.consts.eval_in(fd, m)
                    if isinstance(mask, int) and isinstance(s_out, int):
                        dec_fields[k.arg] = (mask, s_out)  # type: ignore[index]
    enc_shifts: dict[str, int] = {}
    names = {"tm_year": "year", "tm_mon": "month", "tm_mday": "day", "tm_hour": "hour", "tm_min": "minute", "tm_sec": "second"}
    for n in own_nodes(fe.node):
        if isinstance(n, ast.BinOp) and isinstance(n.op, ast.LShift):
            for nm in ast.walk(n.left):
                if isinstance(nm, ast.Name) and nm.id in names:
                    s = ctx.consts.eval_in(fe, n.right)
                    if isinstance(s, int):
                        enc_shifts[names[nm.id]] = s
    if len(dec_fields) != 6 or len(enc_shifts) != 6:
        raise AnalysisError(f"dts codec: found {len(dec_fields)} decoder fields / {len(enc_shifts)} encoder shifts")
    limits = {"year": 99, "month": 12, "day": 31, "hour": 23, "minute": 59, "second": 59}
    used = 0
    for fld, (mask, shift) in sorted(dec_fields.items()):
        r3.instances += 1
        r3.nontrivial += 1
        low = mask >> shift
        problems = []
        if mask & ((1 << shift) - 1):
            problems.append("mask is not aligned to its shift")
        if enc_shifts.get(fld) != shift:
            problems.append(f"encoder shifts by {enc_shifts.get(fld)}, decoder by {shift}")
        if low < limits[fld]:
            problems.append(f"field is {low.bit_length()} bits wide: too narrow for 0..{limits[fld]}")
        if used & mask:
            problems.append("overlaps another field")
        used |= mask
        if problems:
            r3.fail(f"hex_*_dts:{fld}", fd.loc(), f"packed timestamp field '{fld}': " + "; ".join(problems))
        else:
            r3.ok({"dts_field": fld, "shift": shift, "width": low.bit_length()})
    r3.instances += 1
    r3.nontrivial += 1
    if used.bit_length() <= 48 and any("012X" in norm(n) for n in own_nodes(fe.node) if isinstance(n, ast.JoinedStr)):
        r3.ok({"dts_total_bits": used.bit_length(), "format": "012X"})
    else:
        r3.fail("hex_from_dts:width", fe.loc(), f"the packed timestamp needs {used.bit_length()} bits but is formatted as 12 hex digits (48 bits)")
    # dtm: encoder format order vs decoder slices
    fd, fe = repo.func(f"{H}.hex_to_dtm"), repo.func(f"{H}.hex_from_dtm")
    from .common import expand, str_template

    # the function that lays the fields out: the callee fed with `*<x>.timetuple()` (a closure or a module-level helper)
    inner = None
    for site in ctx.cg.calls_in(fe):
        c0 = site.node
        if isinstance(c0, ast.Call) and len(c0.args) == 1 and isinstance(c0.args[0], ast.Starred) and norm(c0.args[0].value).endswith(".timetuple()") and site.callees:
            inner = site.callees[0]
    if inner is None:
        raise AnalysisError("hex_from_dtm: the helper fed with *dtm.timetuple() was not found")
    rets = [n for n in own_nodes(inner.node) if isinstance(n, ast.Return) and n.value is not None]
    if len(rets) != 1:
        raise AnalysisError(f"{inner.short}: expected a single return expression")
    order = []
    pos = 0
    for kind, txt in str_template(inner.node, rets[0].value):
        if kind == "lit":
            pos += len(txt)
            continue
        m = re.fullmatch(r"(\w+):0(\d)X", txt)
        if not m:
            raise AnalysisError(f"{inner.short}: field `{txt}` is not formatted as fixed-width hex")
        order.append((m.group(1), pos, pos + int(m.group(2))))
        pos += int(m.group(2))
    slices: dict[str, tuple[int, int]] = {}
    for n in own_nodes(fd.node):
        if isinstance(n, ast.Call) and norm(n.func) == "dt":
            for k in n.keywords:
                for s in ast.walk(k.value):
                    if isinstance(s, ast.Subscript) and isinstance(s.slice, ast.Slice) and norm(s.value) == "value":
                        lo = s.slice.lower.value if s.slice.lower is not None else 0  # type: ignore[union-attr]
                        hi = s.slice.upper.value  # type: ignore[union-attr]
                        slices[k.arg] = (lo, hi)  # type: ignore[index]
    alias = {"sec": "second", "min": "minute", "hour": "hour", "mday": "day", "mon": "month", "year": "year"}
    if len(order) != 6 or len(slices) != 6:
        raise AnalysisError("dtm codec: format fields / slices not found")
    for nm, lo, hi in order:
        r3.instances += 1
        r3.nontrivial += 1
        if slices.get(alias[nm]) == (lo, hi):
            r3.ok({"dtm_field": alias[nm], "columns": [lo, hi]})
        else:
            r3.fail(f"hex_*_dtm:{alias[nm]}", fd.loc(), f"datetime field '{alias[nm]}' is written at columns {lo}:{hi} but read from {slices.get(alias[nm])}")
    # dtm: the DST flag must be or-ed into the *seconds* octet, the one the decoder masks with 0b1111111.
    # Flow-sensitive column tracking of the encoder's string variable: {columns already cut off its front} per program point.
    r3.instances += 1
    r3.nontrivial += 1
    flag_sites = _dst_flag_sites(fe)
    sec_cols = next(((lo, hi) for nm, lo, hi in order if nm == "sec"), None)
    dec_mask_ok = any(
        isinstance(n, ast.BinOp) and isinstance(n.op, ast.BitAnd) and isinstance(n.right, ast.Constant) and n.right.value == 0x7F and "value[:2]" in norm(n.left)
        for n in own_nodes(fd.node)
    )
    if not flag_sites:
        r3.ok({"dtm_dst_flag": "no flag site in the encoder"})
    else:
        bad = [(n, offs, cols) for n, offs, cols in flag_sites if sec_cols is None or any((cols[0] + o, cols[1] + o) != sec_cols for o in offs) or not offs]
        if bad or not dec_mask_ok:
            n, offs, cols = (bad[0] if bad else flag_sites[0])
            r3.fail(
                "hex_from_dtm:dst-flag-column",
                fe.loc(n),
                f"the DST flag (| 0x80) is applied to columns {cols[0]}:{cols[1]} of a string whose first {sorted(offs)} columns may already have been cut off: "
                f"it must land on the seconds octet (columns {sec_cols}), the only one the decoder masks with 0b1111111" if bad else "the decoder no longer masks the seconds octet with 0b1111111 although the encoder sets the DST flag there",
            )
        else:
            r3.ok({"dtm_dst_flag": f"or-ed into columns {sec_cols} (seconds) on every path; decoder masks 0b1111111"})
    # device ids
    for qn in (f"{A}.hex_id_to_dev_id", f"{A}.Address.convert_from_hex"):
        f = repo.func(qn)
        r3.instances += 1
        r3.nontrivial += 1
        txt = norm(f.node)
        m1 = re.search(r"_tmp & (\d+)\) >> (\d+)", txt)
        m2 = re.search(r"_tmp & (\d+)", txt.split(">>")[-1])
        if m1 and m2 and int(m1.group(1)) == 0xFC0000 and int(m1.group(2)) == 18 and int(m2.group(1)) == 0x03FFFF and (0xFC0000 ^ 0x03FFFF) == 0xFFFFFF:
            r3.ok({"decoder": f.short, "type_mask": "0xFC0000 >> 18", "id_mask": "0x03FFFF"})
        else:
            r3.fail(f"{f.short}:masks", f.loc(), "the device-id decoder's masks are no longer (x & 0xFC0000) >> 18 and x & 0x03FFFF (complementary over 24 bits)")
    for qn in (f"{A}.dev_id_to_hex_id", f"{A}.Address.convert_to_hex"):
        f = repo.func(qn)
        r3.instances += 1
        r3.nontrivial += 1
        rets = [norm(n.value) for n in own_nodes(f.node) if isinstance(n, ast.Return) and n.value is not None and "<<" in norm(n.value)]
        if rets and all("(int(dev_type) << 18) + int(device_id[-6:])" in r and ":0>6X" in r for r in rets):
            r3.ok({"encoder": f.short, "expr": rets[0][:70]})
        else:
            r3.fail(f"{f.short}:shift", f.loc(), f"the device-id encoder is no longer (type << 18) + number formatted as 6 hex digits: {rets}")
    out.append(r3)

    # ---- R4 ---------------------------------------------------------------------------
    r4 = RuleResult("R4", "sibling implementations agree", "the two device-id encoders (and the two decoders) share their core expression", min_instances=2)
    def core_returns(qn: str, marker: str) -> list[str]:
        f = repo.func(qn)
        return sorted({re.sub(r"\s*# .*", "", norm(n.value)) for n in own_nodes(f.node) if isinstance(n, ast.Return) and n.value is not None and marker in norm(n.value)})
    r4.instances += 1
    r4.nontrivial += 1
    e1, e2 = core_returns(f"{A}.dev_id_to_hex_id", "<<"), core_returns(f"{A}.Address.convert_to_hex", "<<")
    if e1 and e1 == e2:
        r4.ok({"encoders": e1})
    else:
        r4.fail("dev-id-encoders:disagree", repo.mod(A).rel, f"dev_id_to_hex_id returns {e1} but Address.convert_to_hex returns {e2}")
    r4.instances += 1
    r4.nontrivial += 1
    d1 = sorted(set(re.findall(r"_tmp & \d+(?:\) >> \d+)?", norm(repo.func(f"{A}.hex_id_to_dev_id").node))))
    d2 = sorted(set(re.findall(r"_tmp & \d+(?:\) >> \d+)?", norm(repo.func(f"{A}.Address.convert_from_hex").node))))
    if d1 and d1 == d2:
        r4.ok({"decoders": d1})
    else:
        r4.fail("dev-id-decoders:disagree", repo.mod(A).rel, f"hex_id_to_dev_id uses {d1} but Address.convert_from_hex uses {d2}")
    out.append(r4)

    # ---- R5 ---------------------------------------------------------------------------
    r5 = RuleResult("R5", "no silent wrap", "every fixed-width hex format in an encoder is range-bounded (raising guard, mask, or by construction)", min_instances=8)
    targets = [f for f in repo.functions_in(f"{H}.") if f.name.startswith("hex_from_")] + [repo.func(f"{A}.dev_id_to_hex_id"), repo.func(f"{A}.Address.convert_to_hex")]
    for f in targets:
        for g in [f] + list(f.nested.values()):
            for n in own_nodes(g.node):
                if isinstance(n, ast.FormattedValue) and n.format_spec is not None:
                    spec = ctx.consts.eval_in(g, n.format_spec)
                    m = re.fullmatch(r"0?>?(\d+)X", spec) if isinstance(spec, str) else None
                    if not m:
                        continue
                    width = int(m.group(1))
                    r5.instances += 1
                    r5.nontrivial += 1
                    why = _bounded(ctx, g, f, n.value, width)
                    if why:
                        r5.ok({"site": f"{g.short}: {{{norm(n.value)[:40]}:{spec}}}", "bounded_by": why})
                    else:
                        r5.fail(f"{g.short}:{norm(n.value)[:40]}:{spec}", g.loc(n), f"`{{{norm(n.value)[:50]}:{spec}}}` in {g.short} has no range guard: a value that does not fit {width} hex digits is silently widened/wrapped into a different valid wire value")
    out.append(r5)
    return out


def _dst_flag_sites(fe: FuncInfo) -> "list[tuple[ast.AST, set[int], tuple[int, int]]]":
    """[(site, possible front offsets of the string at that point, (lo, hi) columns the flag is or-ed into)]."""
    sites: list[tuple[ast.AST, set[int], tuple[int, int]]] = []

    def cut_of(value: ast.expr, var: str) -> int | None:
        """`var[k:]` -> k ; `<anything> + var[k:]` (rebuild keeping the tail) -> 0 ; the variable itself -> 0."""
        if isinstance(value, ast.Name) and value.id == var:
            return 0
        if isinstance(value, ast.Subscript) and isinstance(value.value, ast.Name) and value.value.id == var and isinstance(value.slice, ast.Slice):
            lo = value.slice.lower
            if value.slice.upper is None and (lo is None or (isinstance(lo, ast.Constant) and isinstance(lo.value, int) and lo.value >= 0)):
                return 0 if lo is None else lo.value
            return None
        if isinstance(value, ast.BinOp) and isinstance(value.op, ast.Add):
            # f"{...:02X}" + var[2:]  - a 2-column head replaced in place
            head, tail = value.left, value.right
            k = cut_of(tail, var)
            if k is not None:
                from .common import str_template

                w = 0
                for kind, txt in str_template(fe.node, head):
                    if kind == "lit":
                        w += len(txt)
                    else:
                        m = re.search(r":0(\d+)X$", txt)
                        w += int(m.group(1)) if m else 99
                return 0 if w == k else None
        return None

    def scan_flag(e: ast.AST, var: str, offs: set[int]) -> None:
        for n in ast.walk(e):
            if isinstance(n, ast.BinOp) and isinstance(n.op, ast.BitOr) and isinstance(n.right, ast.Constant) and n.right.value == 0x80:
                for sub in ast.walk(n.left):
                    if isinstance(sub, ast.Subscript) and isinstance(sub.value, ast.Name) and sub.value.id == var and isinstance(sub.slice, ast.Slice):
                        lo = 0 if sub.slice.lower is None else getattr(sub.slice.lower, "value", None)
                        hi = getattr(sub.slice.upper, "value", None)
                        if isinstance(lo, int) and isinstance(hi, int):
                            sites.append((n, set(offs), (lo, hi)))

    def run(stmts: list[ast.stmt], var: str | None, offs: set[int]) -> "tuple[str | None, set[int]]":
        for st in stmts:
            if isinstance(st, ast.Assign) and len(st.targets) == 1 and isinstance(st.targets[0], ast.Name):
                tgt = st.targets[0].id
                if var is None and isinstance(st.value, ast.Call) and norm(st.value.func) == "_dtm_to_hex":
                    var, offs = tgt, {0}
                    continue
                if var is not None and tgt == var:
                    from .common import expand

                    val = expand(fe.node, st.value)  # `secs = dtm_str[:2]` hoisted into a local
                    scan_flag(val, var, offs)
                    k = cut_of(val, var)
                    offs = {o + k for o in offs} if k is not None else set()
            elif isinstance(st, ast.If) and var is not None:
                scan_flag(st.test, var, offs)
                _v1, o1 = run(st.body, var, set(offs))
                _v2, o2 = run(st.orelse, var, set(offs))
                offs = o1 | o2
            elif isinstance(st, ast.If):
                v1, o1 = run(st.body, var, set(offs))
                v2, o2 = run(st.orelse, var, set(offs))
                var = v1 or v2
                offs = o1 | o2
            elif var is not None:
                scan_flag(st, var, offs)
        return var, offs

    run(list(fe.node.body), None, set())
    return sites


def _bounded(ctx: Ctx, g: FuncInfo, top: FuncInfo, v: ast.expr, width: int) -> str | None:
    txt = norm(v)
    # masks / modulo / ord() / bool sums / or-ing a byte
    if isinstance(v, ast.BinOp) and isinstance(v.op, (ast.BitAnd, ast.Mod)):
        return "mask/modulo"
    if isinstance(v, ast.BinOp) and isinstance(v.op, ast.BitOr) and "int(dtm_str[:2], 16)" in txt:
        return "byte | flag"
    if isinstance(v, ast.Call) and norm(v.func) == "ord":
        return "ord() of a character (checked by the caller's regex for ASCII)" if width >= 2 else None
    if isinstance(v, ast.Call) and norm(v.func) == "sum" and "<<" in txt and "enumerate" in txt:
        return "sum of 8 shifted bits"
    # calendar fields by construction
    if isinstance(v, ast.Name) and v.id in ("sec", "min", "hour", "mday", "mon", "year") and g.name == "_dtm_to_hex":
        return "calendar field (timetuple)"
    if isinstance(v, ast.Name) and v.id == "result" and top.name == "hex_from_dts":
        return "sum of calendar fields within 48 bits (R3)"
    # a dominating raising guard on the source variable
    names = {n.id for n in ast.walk(v) if isinstance(n, ast.Name)}
    src: set[str] = set(names)
    for n in own_nodes(top.node):
        if isinstance(n, ast.Assign) and any(isinstance(t, ast.Name) and t.id in names for t in n.targets):
            src |= {x.id for x in ast.walk(n.value) if isinstance(x, ast.Name)}
    for st in list(top.node.body) + (list(g.node.body) if g is not top else []):
        if isinstance(st, ast.If) and any(isinstance(b, ast.Raise) for b in st.body):
            for c in ast.walk(st.test):
                if isinstance(c, ast.Compare):
                    operands = [c.left] + c.comparators
                    ranged = [o for o in operands if {x.id for x in ast.walk(o) if isinstance(x, ast.Name)} & src]
                    consts_ = [o for o in operands if not {x.id for x in ast.walk(o) if isinstance(x, ast.Name)}]
                    if ranged and consts_ and all(isinstance(o, (ast.Lt, ast.LtE, ast.Gt, ast.GtE)) for o in c.ops) and "isinstance" not in norm(c):
                        if len(c.ops) == 2 or any(isinstance(o, (ast.Lt, ast.LtE, ast.Gt, ast.GtE)) for o in c.ops):
                            return f"raising guard `{norm(st.test)[:70]}`"
    return None
