"""C08 - Transmission discipline: exact retry budget, one in flight, priority then FIFO."""

from __future__ import annotations

import ast

from ..context import Ctx
from ..loader import AnalysisError, norm, own_nodes
from ..report import RuleResult
from .common import is_que, private_parts

META = {
    "explanation": (
        "Necessary conditions: C08.R1 a (re)transmission is issued only through ProtocolContext._send_cmd, whose only callers are the "
        "dequeue (first transmission, after tx_count=0 and tx_limit=min(qos.max_retries, max_retry_limit)+1) and effect_state under "
        "timed_out; timed_out=True is passed at one site, on the true edge of `tx_count < tx_limit`; tx_count is incremented only there; "
        "max_retry_limit=min(arg, MAX_RETRY_LIMIT) with MAX_RETRY_LIMIT folding to 3; the write function is invoked only by the wrapper "
        "created in _send_cmd. C08.R2 set_state cancels the expiry timer before anything else and clears the command when leaving the "
        "sending states. C08.R3 the back-off exponent stays in 0..3 (writers: 0, max(0, m-1), min(3, m+1)) and both delays are "
        "timeout * 2**multiplier. C08.R4 one dequeue site, reached only when no future is pending; resolved entries are skipped. "
        "C08.R5 queue entries order by (priority, ..., unique counter) before any unorderable element, and smaller priority = more urgent. "
        "Not decided: 'exactly 1+min(r,3), and no fewer if the timeout allows'; FIFO as observed; back-off as observed time."
    ),
}
META["explanation"] += ' C08.R3 also: net effect of one wait on the exponent over its 0..3 domain (unanswered -> min(3, m+1); answered -> never higher).'

F = "ramses_tx.protocol_fsm"


def _stmt_node(cfg, n):
    p = n
    while p is not None and not cfg.nodes_of(p):
        p = getattr(p, "parent", None)
    return cfg.nodes_of(p)[0] if p is not None else None


def check(ctx: Ctx) -> list[RuleResult]:
    repo = ctx.repo
    out: list[RuleResult] = []
    PC = f"{F}.ProtocolContext"
    set_state = repo.func(f"{PC}.set_state")
    send_cmd_i = repo.func(f"{PC}._send_cmd")
    check_buf = repo.func(f"{PC}._check_buffer_for_cmd")
    from .common import fsm_roles

    effect, expire = fsm_roles(ctx)

    # ---- R1 ---------------------------------------------------------------------------
    r1 = RuleResult("R1", "the retry budget is the only gate to a retransmission", "who may call _send_cmd / pass timed_out / write tx_count, and under which guards", min_instances=8)
    # (a) callers of _send_cmd
    callers = ctx.cg.callers_of(send_cmd_i)
    if not callers:
        raise AnalysisError("ProtocolContext._send_cmd has no callers")
    for s in callers:
        r1.instances += 1
        r1.nontrivial += 1
        if s.caller is check_buf:
            cfg = ctx.plain_cfg(check_buf)
            node = _stmt_node(cfg, s.node)
            resets = cfg.dominated_by(node, lambda x: x.kind == "stmt" and norm(x.ast) == "self._cmd_tx_count = 0")
            limits = cfg.dominated_by(node, lambda x: x.kind == "stmt" and norm(x.ast).startswith("self._cmd_tx_limit ="))
            ok = bool(resets) and bool(limits)
            lim_ok = False
            for l in limits:
                v = l.ast.value  # type: ignore[union-attr]
                if isinstance(v, ast.BinOp) and isinstance(v.op, ast.Add) and isinstance(v.right, ast.Constant) and v.right.value == 1 and isinstance(v.left, ast.Call) and norm(v.left.func) == "min":
                    args = {norm(a) for a in v.left.args}
                    qos_names = {"self._qos"} | {norm(a0.value) for a0 in own_nodes(check_buf.node) if isinstance(a0, ast.Assign) and any(norm(t0) == "self._qos" for t0 in a0.targets) and isinstance(a0.value, ast.Name)}
                    if any(args == {f"{q}.max_retries", "self.max_retry_limit"} for q in qos_names):  # the dequeued qos, by either name
                        lim_ok = True
            if ok and lim_ok:
                r1.ok({"caller": "first transmission", "dominated_by": ["tx_count = 0", norm(limits[0].ast)]})
            else:
                r1.fail(f"{check_buf.short}:first-send-budget", check_buf.loc(s.node), "the first transmission is not preceded by tx_count = 0 and tx_limit = min(qos.max_retries, max_retry_limit) + 1", [norm(l.ast) for l in limits])
        elif s.caller is effect:
            cfg = ctx.plain_cfg(effect)
            node = _stmt_node(cfg, s.node)
            g = [t for t in cfg.nodes if t.kind == "test" and norm(t.ast) == "timed_out" and cfg.edge_dominates(t, "true", node)]
            retry_kw = any(k.arg == "is_retry" and isinstance(k.value, ast.Constant) and k.value.value is True for k in s.node.keywords)  # type: ignore[union-attr]
            if g and retry_kw:
                r1.ok({"caller": "effect_state", "guard": "timed_out", "is_retry": True})
            else:
                r1.fail(f"{effect.short}:retransmit-unguarded", effect.loc(s.node), "effect_state retransmits without the `timed_out` guard")
        else:
            r1.fail(f"{s.caller.short}:calls-_send_cmd", s.caller.loc(s.node), f"{s.caller.short} transmits via ProtocolContext._send_cmd outside the dequeue/retry gates")
    # (b) timed_out=True sites
    sites = []
    for g2 in repo.funcs.values():
        if g2.module.name.startswith("ramses_tx"):
            for n in own_nodes(g2.node):
                if isinstance(n, ast.Call) and isinstance(n.func, ast.Attribute) and n.func.attr == "set_state" and any(k.arg == "timed_out" for k in n.keywords):
                    sites.append((g2, n))
    if not sites:
        raise AnalysisError("no set_state(..., timed_out=...) site")
    for g2, n in sites:
        r1.instances += 1
        r1.nontrivial += 1
        cfg = ctx.plain_cfg(g2)
        node = _stmt_node(cfg, n)
        guards = [t for t in cfg.nodes if t.kind == "test" and _is_budget_test(t.ast) and cfg.edge_dominates(t, "true", node)]
        if not guards:
            # however the budget test is spelled (negated with the arms swapped, an early return): is `count < limit` known here?
            from .common import edge_implies as _ei1
            from .common import expand as _ex1
            from .common import facts_at as _fa1
            from .common import inline_calls as _il1

            st1 = n
            while not isinstance(st1, ast.stmt):
                st1 = st1.parent  # type: ignore[attr-defined]
            goal1 = ast.parse("self._cmd_tx_count < self._cmd_tx_limit", mode="eval").body
            hit1 = [t for t, v in _fa1(st1) if _ei1(_ex1(g2.node, _il1(ctx, g2, t), pure_only=False), v, goal1)]
            guards = [type("G", (), {"ast": hit1[0]})()] if hit1 else []
        if g2 is expire and guards and len(sites) == 1:
            r1.ok({"timed_out_site": g2.short, "guard": norm(guards[0].ast)})
        else:
            r1.fail(f"{g2.short}:timed_out-site", g2.loc(n), "a retransmission is requested (timed_out=True) outside the true edge of `tx_count < tx_limit` in expire_state_on_timeout, or from more than one site")
    # (b') "...and - if its timeout allows - no fewer": inside the expiry callback the command is given up (expired=True) only where
    # the budget is known to be used up. A give-up that is also reached with transmissions left (an extra "is it still worth it?"
    # condition on the retry) sends the command fewer times than 1 + min(max_retries, 3)
    from .common import edge_implies as _eib
    from .common import expand as _exb
    from .common import facts_at as _fab
    from .common import inline_calls as _ilb

    giveups = [n for n in own_nodes(expire.node) if isinstance(n, ast.Call) and isinstance(n.func, ast.Attribute) and n.func.attr == "set_state" and any(k.arg == "expired" and not (isinstance(k.value, ast.Constant) and k.value.value is False) for k in n.keywords)]
    if not giveups:
        raise AnalysisError("expire_state_on_timeout: no set_state(..., expired=True) site")
    goal_b = ast.parse("not (self._cmd_tx_count < self._cmd_tx_limit)", mode="eval").body
    for n in giveups:
        r1.instances += 1
        r1.nontrivial += 1
        stb = n
        while not isinstance(stb, ast.stmt):
            stb = stb.parent  # type: ignore[attr-defined]
        if any(_eib(_exb(expire.node, _ilb(ctx, expire, t), pure_only=False), v, goal_b) for t, v in _fab(stb)):
            r1.ok({"give_up_site": norm(n)[:50], "only_when": "tx_count >= tx_limit"})
        else:
            r1.fail(f"{expire.short}:gives-up-with-budget-left", expire.loc(n), f"`{norm(n)[:60]}` in the expiry callback is reachable while `tx_count < tx_limit` still holds (the retry is subject to an extra condition): a command whose timeout would still allow it is transmitted fewer than 1 + min(max_retries, 3) times")
    # (c) tx_count writers
    for g2 in repo.funcs.values():
        if g2.module.name != F:
            continue
        for n in own_nodes(g2.node):
            tgt = None
            if isinstance(n, ast.AugAssign):
                tgt = n.target
            elif isinstance(n, (ast.Assign, ast.AnnAssign)):
                tgt = (n.targets[0] if isinstance(n, ast.Assign) else n.target)
            if tgt is not None and norm(tgt) == "self._cmd_tx_count":
                r1.instances += 1
                r1.nontrivial += 1
                txt = norm(n)
                from .common import known_at

                # `x += 1` and `x = x + 1` are the same increment
                is_inc = (isinstance(n, ast.AugAssign) and isinstance(n.op, ast.Add)) or (isinstance(n, (ast.Assign, ast.AnnAssign)) and isinstance(n.value, ast.BinOp) and isinstance(n.value.op, ast.Add) and norm(n.value.left) == "self._cmd_tx_count")
                if is_inc:
                    step = n.value if isinstance(n, ast.AugAssign) else n.value.right  # type: ignore[union-attr]
                    # in set_state under `timed_out`, or in a private part of it under the parameter that receives timed_out
                    ss_parts = private_parts(ctx, set_state)
                    flag = "timed_out" if g2 is set_state else next((pn for g3, m3 in ss_parts if g3 is g2 for pn, av in m3.items() if av == "timed_out"), None)
                    if flag is not None and known_at(n, flag) and isinstance(step, ast.Constant) and step.value == 1:
                        r1.ok({"tx_count_write": txt, "under": "timed_out"})
                    else:
                        r1.fail(f"{g2.short}:tx_count-increment", g2.loc(n), "tx_count is incremented outside set_state's timed_out branch (or not by exactly 1)")
                elif isinstance(n, ast.AugAssign):
                    r1.fail(f"{g2.short}:{txt}", g2.loc(n), "tx_count is updated by something other than +1")
                else:
                    v = n.value
                    if isinstance(v, ast.Constant) and v.value in (0, 1):
                        r1.ok({"tx_count_write": txt})
                    else:
                        r1.fail(f"{g2.short}:{txt}", g2.loc(n), "tx_count is assigned something other than 0 (reset) or 1 (first send)")
    # (d) max_retry_limit
    init = repo.func(f"{PC}.__init__")
    r1.instances += 1
    r1.nontrivial += 1
    mrl = [n for n in own_nodes(init.node) if isinstance(n, ast.Assign) and norm(n.targets[0]) == "self.max_retry_limit"]
    cap = ctx.consts.need("ramses_tx.const", "MAX_RETRY_LIMIT")
    okd = len(mrl) == 1 and isinstance(mrl[0].value, ast.Call) and norm(mrl[0].value.func) == "min" and {norm(a) for a in mrl[0].value.args} == {"max_retry_limit", "MAX_RETRY_LIMIT"} and cap == 3
    if okd:
        r1.ok({"max_retry_limit": norm(mrl[0].value), "MAX_RETRY_LIMIT": cap})
    else:
        r1.fail(f"{init.short}:max_retry_limit", init.loc(), f"max_retry_limit is not min(arg, MAX_RETRY_LIMIT) with MAX_RETRY_LIMIT == 3 (folds to {cap!r})")
    # (e) the transport write function is invoked only from a coroutine that _send_cmd schedules as a task (so it runs after the
    #     FSM accepted the command, once per _send_cmd) - the wrapper is found by the call graph, not by its name
    scheduled = {c for s2 in ctx.cg.calls_in(send_cmd_i) if s2.kind == "deferred" for c in s2.callees}
    for g2 in repo.funcs.values():
        for n in own_nodes(g2.node):
            if isinstance(n, ast.Call) and isinstance(n.func, ast.Attribute) and n.func.attr == "_send_fnc":
                r1.instances += 1
                r1.nontrivial += 1
                if g2 in scheduled:
                    r1.ok({"write_fn_called_from": g2.short, "scheduled_by": "_send_cmd (create_task)"})
                else:
                    r1.fail(f"{g2.short}:calls-_send_fnc", g2.loc(n), "the transport write function is invoked outside the task that _send_cmd schedules")
    out.append(r1)

    # ---- R2 ---------------------------------------------------------------------------
    r2 = RuleResult("R2", "no transmission after the caller is answered", "set_state cancels the expiry timer first; leaving the sending states clears the command", min_instances=2)
    body = [s for s in set_state.node.body if not isinstance(s, (ast.FunctionDef, ast.AsyncFunctionDef, ast.Expr))]
    r2.instances += 1
    r2.nontrivial += 1
    first = body[0] if body else None
    def _contains(stmt: ast.AST, pred, depth: int = 2) -> bool:
        """the statement itself, or a same-object private method it calls, does `pred`"""
        for x in ast.walk(stmt):
            if pred(x):
                return True
            if depth and isinstance(x, ast.Call) and isinstance(x.func, ast.Attribute) and isinstance(x.func.value, ast.Name) and x.func.value.id == "self" and set_state.cls is not None:
                h = next((k.methods[x.func.attr] for k in set_state.cls.mro if x.func.attr in k.methods), None)
                if h is not None and not h.is_async and any(_contains(b, pred, depth - 1) for b in h.node.body):
                    return True
        return False

    cfg2 = ctx.plain_cfg(set_state)
    cancels = [x for x in cfg2.nodes if x.ast is not None and x.kind == "stmt" and _contains(x.ast, lambda y: isinstance(y, ast.Call) and norm(y.func) == "self._expiry_timer.cancel")]
    changes = [x for x in cfg2.nodes if x.ast is not None and x.kind == "stmt" and _contains(x.ast, lambda y: isinstance(y, ast.Assign) and any(norm(t) == "self._state" for t in y.targets))]
    dom2 = cfg2.dominators()
    # the cancel sits under `if self._expiry_timer is not None` (there may be nothing to cancel): the *test* (or the helper call
    # that holds it) dominates the state change
    cancel_pts = set()
    for c2 in cancels:
        cancel_pts.add(c2.id)
        for t2 in cfg2.nodes:
            if t2.kind == "test" and t2.ast is not None and "_expiry_timer" in norm(t2.ast) and c2.id in cfg2.reachable_from(t2.id):
                cancel_pts.add(t2.id)
    if isinstance(first, ast.If) and "self._expiry_timer is not None" in norm(first.test) and any("self._expiry_timer.cancel()" in norm(b) for b in first.body):
        r2.ok({"first_statement": norm(first)[:80]})
    elif cancels and changes and all(cancel_pts & dom2[ch.id] for ch in changes):
        r2.ok({"timer_cancel": norm(cancels[0].ast)[:60], "dominates": "the state change"})
    else:
        r2.fail(f"{set_state.short}:timer-cancel-first", set_state.loc(), "set_state no longer starts by cancelling the pending expiry timer: a stale timer could retransmit after the state changed")
    r2.instances += 1
    r2.nontrivial += 1
    from .common import expand, known_at

    ss_fns = [set_state] + [g3 for g3, _m in private_parts(ctx, set_state)]
    clears = [(g3, n) for g3 in ss_fns for n in own_nodes(g3.node) if isinstance(n, ast.Assign) and "self._cmd" in [norm(t) for t in n.targets] and isinstance(n.value, ast.Constant) and n.value.value is None]
    # the command is cleared exactly where the new state is known to be neither WantEcho nor WantRply
    okc = any(known_at(c, "not isinstance(self._state, WantRply)", g3.node) and known_at(c, "not isinstance(self._state, WantEcho)", g3.node) for g3, c in clears)
    if okc:
        r2.ok({"clears_cmd_when": "state is neither WantEcho nor WantRply"})
    else:
        r2.fail(f"{set_state.short}:cmd-not-cleared", set_state.loc(), "set_state does not clear _cmd/_qos when it leaves the sending states")
    # expire_state_on_timeout: after the sleep the only continuation is the guarded branch
    r2.instances += 1
    r2.nontrivial += 1
    calls_after = [n for n in own_nodes(expire.node) if isinstance(n, ast.Call) and isinstance(n.func, ast.Attribute) and n.func.attr in ("set_state", "_send_cmd")]
    if len(calls_after) == 2 and all(n.func.attr == "set_state" for n in calls_after):  # type: ignore[union-attr]
        r2.ok({"expire_state_on_timeout": [norm(n) for n in calls_after]})
    else:
        r2.fail(f"{expire.short}:continuations", expire.loc(), f"expire_state_on_timeout has continuations other than the two guarded set_state calls: {[norm(n) for n in calls_after]}")
    out.append(r2)

    # ---- R3 ---------------------------------------------------------------------------
    r3 = RuleResult("R3", "back-off exponent stays in 0..3", "writers of _multiplier: 0, max(0, m-1), min(3, m+1); delay = timeout * 2**multiplier", min_instances=4)
    lo, hi = 0, 0
    for g2 in repo.funcs.values():
        if g2.module.name != F:
            continue
        for n in own_nodes(g2.node):
            if isinstance(n, ast.Assign):
                for t, v in _pairs(n):
                    if norm(t) == "self._multiplier":
                        r3.instances += 1
                        r3.nontrivial += 1
                        iv = _interval(v)
                        if iv is None:
                            r3.fail(f"{g2.short}:{norm(t)} = {norm(v)[:40]}", g2.loc(n), f"_multiplier is assigned `{norm(v)}`, which is not provably within 0..3")
                        else:
                            lo, hi = min(lo, iv[0]), max(hi, iv[1])
                            r3.ok({"write": f"self._multiplier = {norm(v)}", "interval": iv})
    if (lo, hi) != (0, 3):
        r3.fail("multiplier-range", repo.mod(F).rel, f"the back-off exponent ranges over {lo}..{hi}, expected 0..3 (factor 1..8)")
    sleeps = [n for n in own_nodes(expire.node) if isinstance(n, ast.Await) and isinstance(n.value, ast.Call) and norm(n.value.func).endswith("sleep") and n.value.args]
    if len(sleeps) != 1:
        raise AnalysisError("expire_state_on_timeout: the timer sleep was not found")
    # net effect of one wait on the exponent, evaluated over the finite domain 0..3 established above (set-valued abstract
    # interpretation of the coroutine's own statements; nothing is executed): if the sleep completes (= the attempt went
    # unanswered) the exponent must end at min(3, m+1) - the *next* wait is twice as long, capped at 8x; if the sleep is
    # cancelled (= answered in time) it must not have grown
    r3.instances += 1
    r3.nontrivial += 1
    net = _net_effect(expire.node, sleeps[0])
    # the wait itself: the value slept for, evaluated with stand-ins E/R for echo_timeout/reply_timeout, is {E, R} * 2**m
    r3.instances += 1
    r3.nontrivial += 1
    dl = _net_effect(expire.node, sleeps[0], want_delay=True)
    if dl is None:
        r3.fail(f"{expire.short}:delay-undecided", expire.loc(sleeps[0]), "the retry wait is not an expression the evaluator understands (timeouts, 2**exponent, * + - min max)")
    else:
        badd = [f"m={m0}: waits {sorted(v)} (expected {sorted({_E * 2**m0, _R * 2**m0})} with echo_timeout={_E}, reply_timeout={_R})" for m0, v in sorted(dl.items()) if v != {_E * 2**m0, _R * 2**m0}]
        if badd:
            r3.fail(f"{expire.short}:delay", expire.loc(sleeps[0]), "the retry wait is not <echo|reply timeout> * 2**exponent", badd[:4])
        else:
            r3.ok({"delay": "echo_timeout|reply_timeout * 2**exponent for every exponent 0..3"})
    if net is None:
        r3.fail(f"{expire.short}:net-effect-undecided", expire.loc(), "the exponent's updates around the sleep are not in a shape the evaluator understands (assignments of min/max/+/- expressions)")
    else:
        bad = []
        for m0, (at_sleep, after) in sorted(net.items()):
            if any(v > m0 for v in at_sleep):
                bad.append(f"m={m0}: an answered wait leaves the exponent at {sorted(at_sleep)} (> {m0})")
            if after != {min(3, m0 + 1)}:
                bad.append(f"m={m0}: an unanswered wait leaves the exponent at {sorted(after)}, expected {min(3, m0 + 1)}")
        if bad:
            r3.fail(f"{expire.short}:net-effect", expire.loc(sleeps[0]), "the wait does not double after each unanswered attempt (or grows after an answered one)", bad)
        else:
            r3.ok({"net_effect": {str(m0): {"answered": sorted(a), "unanswered": sorted(b)} for m0, (a, b) in sorted(net.items())}})
    out.append(r3)

    # ---- R4 ---------------------------------------------------------------------------
    r4 = RuleResult("R4", "one in flight", "one dequeue site, reached only when no future is pending; resolved entries are skipped", min_instances=2)
    gets = []
    for g2 in repo.funcs.values():
        if g2.module.name.startswith("ramses_tx"):
            for n in own_nodes(g2.node):
                if isinstance(n, ast.Call) and isinstance(n.func, ast.Attribute) and n.func.attr in ("get_nowait", "get") and is_que(g2.node, n.func.value):
                    gets.append((g2, n))
    if not gets:
        raise AnalysisError("no dequeue site found")
    for g2, n in gets:
        r4.instances += 1
        r4.nontrivial += 1
        if g2 is not check_buf or len(gets) != 1:
            r4.fail(f"{g2.short}:dequeue-site", g2.loc(n), "the send queue is dequeued from more than one place / outside _check_buffer_for_cmd")
            continue
        cfg = ctx.plain_cfg(g2)
        node = _stmt_node(cfg, n)
        guards = [t for t in cfg.nodes if t.kind == "test" and any(cfg.edge_dominates(t, lab, node) for lab in _no_pending_edges(t.ast))]
        if guards:
            r4.ok({"dequeue": norm(n), "only_when": "self._fut is None or self._fut.done()"})
        else:
            r4.fail(f"{g2.short}:dequeue-unguarded", g2.loc(n), "the next command is dequeued while the current future may still be pending (two commands in flight)")
    r4.instances += 1
    r4.nontrivial += 1
    # entries whose caller already gave up are skipped: every way out of the dequeue loop towards the transmission is taken only
    # when the dequeued future is known not to be done, and task_done() is called for the skipped ones
    from .common import known_at

    loops = [x for x in own_nodes(check_buf.node) if isinstance(x, ast.While) and any(isinstance(c, ast.Call) and isinstance(c.func, ast.Attribute) and c.func.attr in ("get_nowait", "get") for c in ast.walk(x))]
    breaks = [b for lp in loops for b in ast.walk(lp) if isinstance(b, ast.Break)]
    has_task_done = any(isinstance(c, ast.Call) and isinstance(c.func, ast.Attribute) and c.func.attr == "task_done" for lp in loops for c in ast.walk(lp))
    fut_names = {"self._fut"} | {norm(a.value) for a in own_nodes(check_buf.node) if isinstance(a, ast.Assign) and any(norm(t) == "self._fut" for t in a.targets) and isinstance(a.value, ast.Name)}
    if loops and breaks and has_task_done and all(any(known_at(b, f"not {fn_}.done()") for fn_ in sorted(fut_names)) for b in breaks):
        r4.ok({"skips_finished_entries": "the dequeue loop is only left with a future that is not done; task_done() for the others"})
    else:
        r4.fail(f"{check_buf.short}:skip-finished", check_buf.loc(), "entries whose caller already gave up (future done) are no longer skipped: a command could be transmitted after its caller was answered")
    # the dequeue is only ever *scheduled* from the idle state (both sites today: a new command arriving while idle, and the effect of
    # having gone idle). A dequeue scheduled while a command is in flight runs later, when that command may just have been failed by
    # its caller's timeout: the next command is then started in a state object that still carries the old command's headers, and is
    # resolved with the old command's late echo
    from .common import edge_implies as _ei8
    from .common import expand as _ex8
    from .common import facts_at as _fa8

    sched = [(g2, n) for g2 in repo.funcs.values() if g2.module.name == F for n in own_nodes(g2.node) if isinstance(n, ast.Call) and isinstance(n.func, ast.Attribute) and n.func.attr in ("call_soon", "call_soon_threadsafe", "call_later", "create_task") and any(isinstance(a, ast.Attribute) and a.attr == check_buf.name for a in n.args)]
    if not sched:
        raise AnalysisError("no scheduling of _check_buffer_for_cmd found")
    idle_goal = ast.parse("isinstance(self._state, IsInIdle)", mode="eval").body
    for g2, n in sched:
        r4.instances += 1
        r4.nontrivial += 1
        st8 = n
        while not isinstance(st8, ast.stmt):
            st8 = st8.parent  # type: ignore[attr-defined]
        if any(_ei8(_ex8(g2.node, t, pure_only=False), v, idle_goal) for t, v in _fa8(st8)):
            r4.ok({"dequeue_scheduled": f"{g2.short}: {norm(n)[:60]}", "only_when": "the state is IsInIdle"})
        else:
            r4.fail(f"{g2.short}:dequeue-scheduled-while-not-idle", g2.loc(n), f"`{norm(n)[:70]}` schedules the dequeue without the state being known to be IsInIdle: run after the in-flight command has been failed by its caller's timeout, it starts the next command in a state that still matches the old command's headers, so the new caller can be handed the old command's late echo")
    out.append(r4)

    # ---- R5 ---------------------------------------------------------------------------
    r5 = RuleResult("R5", "queue order key", "(priority, ..., unique counter) precede any unorderable element; smaller priority = more urgent", min_instances=2)
    sc = repo.func(f"{PC}.send_cmd")
    # the enqueue may sit in send_cmd itself or in a private method of the context that send_cmd calls
    from .common import module_scope

    sc_scope = [g for g in module_scope(ctx, sc) if g is sc or (g.cls is sc.cls and any(cs.caller is sc and g in cs.callees for cs in ctx.cg.calls_in(sc)))]
    puts_in = [(g, n) for g in sc_scope for n in own_nodes(g.node) if isinstance(n, ast.Call) and isinstance(n.func, ast.Attribute) and n.func.attr in ("put_nowait", "put") and is_que(g.node, n.func.value)]
    if not puts_in:
        raise AnalysisError("no queue put in send_cmd")
    for put_fn, pcall in puts_in:
        r5.instances += 1
        r5.nontrivial += 1
        arg0 = expand(put_fn.node, pcall.args[0], pure_only=False) if pcall.args else None  # only the display's shape is inspected  # the entry may be built as a named local first
        tup = arg0 if isinstance(arg0, ast.Tuple) else None
        if tup is None:
            r5.fail(f"{sc.short}:entry-not-tuple", sc.loc(pcall), "the queue entry is not a tuple display")
            continue
        elts = [norm(e) for e in tup.elts]
        problems = []
        if elts[0] != "priority":
            problems.append("priority is not the first element")
        uniq = [i for i, e in enumerate(tup.elts) if isinstance(e, ast.Call) and norm(e.func) == "next" and "_que_seq" in norm(e)]
        first_unorderable = next((i for i, e in enumerate(tup.elts) if norm(e) in ("cmd", "qos", "fut")), len(elts))
        if not uniq or uniq[0] > first_unorderable:
            problems.append("no unique orderable tie-break before the Command (equal keys would compare unorderable Commands: TypeError)")
        else:
            seq_init = [n for n in own_nodes(init.node) if isinstance(n, ast.Assign) and norm(n.targets[0]) == "self._que_seq"]
            if not (seq_init and norm(seq_init[0].value) in ("count()", "itertools.count()")):
                problems.append("_que_seq is not an itertools.count()")
        # first-come-first-served within a priority: whatever sits between the priority and the unique counter is a sort key that
        # outranks arrival order, so it may only be a clock read (non-decreasing in arrival order) - not a value computed from the
        # caller's arguments (a deadline, a retry budget ...)
        CLOCKS = {"dt.now", "datetime.now", "self._loop.time", "time.monotonic", "time.time", "time.perf_counter", "perf_counter", "monotonic", "loop.time", "asyncio.get_running_loop().time"}
        if uniq:
            for e in tup.elts[1 : uniq[0]]:
                ex = expand(put_fn.node, e, pure_only=False)
                if isinstance(ex, ast.Call) and norm(ex.func) in CLOCKS and not ex.args:
                    continue
                if isinstance(ex, ast.Constant):
                    continue
                problems.append(f"the key `{norm(e)}` (= {norm(ex)[:60]}) is compared before the arrival counter and is not a plain clock read: equal-priority commands start in the order of that value, not first-come-first-served")
        if problems:
            r5.fail(f"{sc.short}:queue-entry-key", sc.loc(pcall), "; ".join(problems), [f"entry: ({', '.join(elts)})"])
        else:
            r5.ok({"entry": elts})
    r5.instances += 1
    r5.nontrivial += 1
    from ..consteval import EnumClass

    pr = ctx.consts.get("ramses_tx.const", "Priority")
    if isinstance(pr, EnumClass) and pr.kind == "IntEnum":
        m = pr.members
        if m["HIGHEST"] < m["HIGH"] < m["DEFAULT"] < m["LOW"] < m["LOWEST"]:
            r5.ok({"Priority": m})
        else:
            r5.fail("Priority:order", repo.mod("ramses_tx.const").rel, f"Priority values are not ordered most-urgent-smallest: {m}")
    else:
        raise AnalysisError("ramses_tx.const.Priority is not a foldable IntEnum")
    # the heap behind the PriorityQueue is only touched through the queue API: reaching into `.queue` (remove/pop/insert/sort/del)
    # breaks the heap invariant, so later entries come out in the wrong order
    API = {"put_nowait", "get_nowait", "put", "get", "task_done", "qsize", "empty", "full", "join"}
    for g2 in repo.funcs.values():
        if g2.module.name != F:
            continue
        for n in own_nodes(g2.node):
            if isinstance(n, ast.Attribute) and isinstance(n.value, ast.Attribute) and n.value.attr == "_que" and n.attr not in API and not n.attr.startswith("__"):
                r5.instances += 1
                r5.nontrivial += 1
                r5.fail(f"{g2.short}:reaches-into-queue:{n.attr}", g2.loc(n), f"{g2.short} reaches into the send queue's internals (`{norm(n)}`): removing or re-ordering entries of the underlying heap list breaks the priority/FIFO order of the remaining commands")
    out.append(r5)

    # ---- R6 ---------------------------------------------------------------------------
    r6 = RuleResult("R6", "the caller's retry budget reaches the state machine", "on every hop from the public send APIs down to ProtocolContext.send_cmd the QosParams handed on is the one received, or a rebuild that carries max_retries over", min_instances=3)
    qp = repo.classes.get("ramses_tx.typing.QosParams") if hasattr(repo, "classes") else None
    hops: list[tuple[FuncInfo, ast.Call, ast.expr]] = []
    seen_f: set[str] = set()
    todo = [sc]
    while todo:
        tgt = todo.pop()
        if tgt.qualname in seen_f:
            continue
        seen_f.add(tgt.qualname)
        params = [a.arg for a in tgt.node.args.posonlyargs + tgt.node.args.args]
        fwd = tgt.node.args.kwarg.arg if tgt.node.args.kwarg else None  # a `**kwargs` pass-through hop
        if "qos" not in params and "qos" not in [a.arg for a in tgt.node.args.kwonlyargs] and fwd is None:
            continue
        for site in ctx.cg.callers_of(tgt):
            c = site.node
            if not isinstance(c, ast.Call):
                continue
            arg = next((k.value for k in c.keywords if k.arg == "qos"), None)
            if arg is None and "qos" in params:
                i = params.index("qos") - (1 if params and params[0] in ("self", "cls") else 0)
                arg = c.args[i] if 0 <= i < len(c.args) else None
            if arg is None:
                star = next((k.value for k in c.keywords if k.arg is None), None)
                # `**local` where the local is a dict display holding the qos: the value under "qos" is the argument
                if isinstance(star, ast.Name):
                    dd = [d.value for d in own_nodes(site.caller.node) if isinstance(d, (ast.Assign, ast.AnnAssign)) and d.value is not None and norm(d.targets[0] if isinstance(d, ast.Assign) else d.target) == star.id]
                    if len(dd) == 1 and isinstance(dd[0], ast.Dict):
                        arg = next((v for k, v in zip(dd[0].keys, dd[0].values) if isinstance(k, ast.Constant) and k.value == "qos"), None)
                        if arg is not None:
                            hops.append((site.caller, c, arg))
                            todo.append(site.caller)
                            continue
                ck = site.caller.node.args.kwarg
                if star is not None and ck is not None and isinstance(star, ast.Name) and star.id == ck.arg:
                    # forwarded wholesale: fine unless the hop edits the mapping's qos entry
                    edits = [n for n in own_nodes(site.caller.node) if isinstance(n, (ast.Subscript, ast.Call)) and "qos" in norm(n) and norm(n).startswith(ck.arg) and (isinstance(getattr(n, "ctx", None), (ast.Store, ast.Del)) or (isinstance(n, ast.Call) and isinstance(n.func, ast.Attribute) and n.func.attr in ("pop", "update", "setdefault", "clear")))]
                    r6.instances += 1
                    r6.nontrivial += 1
                    if edits:
                        r6.fail(f"{site.caller.short}:kwargs-qos-edited", site.caller.loc(edits[0]), f"{site.caller.short} forwards **{ck.arg} but edits its qos entry first (`{norm(edits[0])[:60]}`)")
                    else:
                        r6.ok({"hop": f"{site.caller.short} -> {norm(c.func)}", "qos_argument": f"**{ck.arg} (forwarded untouched)"})
                    todo.append(site.caller)
                continue  # otherwise the callee's default applies: nothing of the caller's to lose
            hops.append((site.caller, c, arg))
            todo.append(site.caller)
    if not hops:
        raise AnalysisError("no call passes a qos down to ProtocolContext.send_cmd")

    def _carried(g: FuncInfo, e: ast.expr, depth: int = 0, fld: str = "max_retries") -> "str | None":
        """why `e` still holds the retry budget g was given (None = it does not)"""
        gparams = {a.arg for a in g.node.args.posonlyargs + g.node.args.args + g.node.args.kwonlyargs}
        if isinstance(e, ast.BoolOp) and isinstance(e.op, ast.Or):
            return _carried(g, e.values[0], depth, fld)
        if isinstance(e, ast.Call) and norm(e.func).split(".")[-1] == "QosParams":
            kw = next((k.value for k in e.keywords if k.arg == fld), None)
            if kw is None:
                reads = [x for a in list(e.args) + [k.value for k in e.keywords] for x in ast.walk(a) if isinstance(x, ast.Attribute) and x.attr.lstrip("_") in ("timeout", "wait_for_reply", "max_retries")]
                given = [k.arg for k in e.keywords if k.arg in gparams or any(isinstance(x, ast.Name) and x.id in gparams for x in ast.walk(k.value))]
                if reads or (fld in gparams and given):
                    return None  # rebuilt from what the caller gave, without its max_retries
                return "a fresh QosParams (nothing of the caller's is involved)"
            names = {x.id for x in ast.walk(kw) if isinstance(x, ast.Name)} | {x.attr.lstrip("_") for x in ast.walk(kw) if isinstance(x, ast.Attribute)}
            return f"rebuilt with {fld} carried over" if fld in names else None
        if isinstance(e, ast.Name):
            defs = [n for n in own_nodes(g.node) if isinstance(n, (ast.Assign, ast.AnnAssign)) and n.value is not None and any(isinstance(t, ast.Name) and t.id == e.id for t in (n.targets if isinstance(n, ast.Assign) else [n.target]))]
            if not defs:
                return "the parameter itself" if e.id in gparams else "a non-local name"
            if depth > 3:
                return None
            whys = []
            for d in defs:
                # `qos = qos or DEFAULT` / `qos = QosParams(max_retries=qos.max_retries, ..)` refer to the previous binding
                w = "the parameter itself" if (isinstance(d.value, ast.Name) and d.value.id == e.id) else _carried_value(g, d.value, e.id, depth, fld)
                if w is None:
                    return None
                whys.append(w)
            return "; ".join(sorted(set(whys)))
        return "an expression that is not a QosParams rebuild"

    def _carried_value(g: FuncInfo, v: ast.expr, self_name: str, depth: int, fld: str = "max_retries") -> "str | None":
        if isinstance(v, ast.BoolOp) and isinstance(v.op, ast.Or) and isinstance(v.values[0], ast.Name) and v.values[0].id == self_name:
            return "the parameter itself (or the default when none was given)"
        if isinstance(v, ast.IfExp):
            a, b = _carried_value(g, v.body, self_name, depth, fld), _carried_value(g, v.orelse, self_name, depth, fld)
            return None if a is None or b is None else f"{a} | {b}"
        if isinstance(v, ast.Name) and v.id == self_name:
            return "the parameter itself"
        return _carried(g, v, depth + 1, fld)

    for g, c, arg in hops:
        r6.instances += 1
        r6.nontrivial += 1
        why = _carried(g, arg)
        # a direct overwrite of the budget on the object handed on
        over = [n for n in own_nodes(g.node) if isinstance(n, (ast.Assign, ast.AugAssign)) and any(isinstance(t, ast.Attribute) and t.attr in ("_max_retries", "max_retries") and norm(t.value) == norm(arg) for t in (n.targets if isinstance(n, ast.Assign) else [n.target]))]
        if why is None:
            r6.fail(f"{g.short}:qos-rebuilt-without-max_retries", g.loc(c), f"{g.short} hands `{norm(arg)}` on to {norm(c.func)}(), but on some path that object is a QosParams rebuilt from the caller's values without max_retries: the caller's retry budget silently reverts to the default, so the command is sent a different number of times than 1 + min(max_retries, 3)")
        elif over:
            r6.fail(f"{g.short}:max_retries-overwritten", g.loc(over[0]), f"{g.short} overwrites max_retries on the QosParams it hands on (`{norm(over[0])[:70]}`)")
        else:
            r6.ok({"hop": f"{g.short} -> {norm(c.func)}", "qos_argument": norm(arg), "carried_because": why})
        # the caller's timeout travels the same way (C07: a send ends within the caller's timeout): a rebuild that leaves it out
        # silently gives the send the 20 s default
        r6.instances += 1
        r6.nontrivial += 1
        why_t = _carried(g, arg, 0, "timeout")
        if why_t is None:
            r6.fail(f"{g.short}:qos-rebuilt-without-timeout", g.loc(c), f"{g.short} hands `{norm(arg)}` on to {norm(c.func)}(), but on some path that object is a QosParams rebuilt from the caller's values without its timeout: the send then runs against the default (20 s) instead of the caller's timeout, so it completes - or keeps retransmitting - long after the caller asked it to give up")
        else:
            r6.ok({"hop": f"{g.short} -> {norm(c.func)}", "timeout": why_t})
    out.append(r6)

    # ---- R7 ---------------------------------------------------------------------------
    # "once its caller has been given a result or an error it is never transmitted again": the dequeue loop tells a live entry from
    # a dead one by `fut.done()` alone (R4), so the sender's wait must leave the entry's future done whenever the sender stops
    # waiting - wait_for() on the bare future does that (it cancels the future on timeout and on cancellation of the sender); a
    # shield()/asyncio.wait() in between does not, and then needs an explicit cancel on every way out
    r7 = RuleResult("R7", "a sender that stops waiting retires its queue entry", "the queue entry's future is awaited through wait_for() unshielded, or cancelled in handlers for both TimeoutError and CancelledError", min_instances=1)
    futs = set()
    for put_fn, pcall in puts_in:
        from .common import single_defs

        arg0 = pcall.args[0] if pcall.args else None
        if isinstance(arg0, ast.Name):
            arg0 = single_defs(put_fn.node).get(arg0.id)
        if isinstance(arg0, ast.Tuple):
            sd = single_defs(put_fn.node)
            for el in arg0.elts:  # the element that is a future created here (wherever it sits in the entry)
                if isinstance(el, ast.Name) and isinstance(sd.get(el.id), ast.Call) and norm(sd[el.id].func).endswith("create_future"):
                    futs.add(el.id)
            if not futs and arg0.elts and isinstance(arg0.elts[-1], ast.Name):
                futs.add(arg0.elts[-1].id)
    if not futs:
        raise AnalysisError("send_cmd: the queue entry's future was not identified")
    waits = [n for n in own_nodes(sc.node) if isinstance(n, ast.Await) and any(isinstance(x, ast.Name) and x.id in futs for x in ast.walk(n.value))]
    if not waits:
        raise AnalysisError("send_cmd: no await on the queue entry's future")
    for w in waits:
        r7.instances += 1
        r7.nontrivial += 1
        v = w.value
        direct = isinstance(v, ast.Name) and v.id in futs
        via_wait_for = isinstance(v, ast.Call) and norm(v.func).endswith("wait_for") and v.args and isinstance(v.args[0], ast.Name) and v.args[0].id in futs
        if direct or via_wait_for:
            r7.ok({"await": norm(w)[:70], "future_is_done_when_the_wait_ends": "cancelled by wait_for()/by the task's cancellation"})
            continue
        # shielded / asyncio.wait: both TimeoutError and CancelledError ways out have to cancel the future
        tr = getattr(_stmt_of(w), "parent", None)
        cancelled_in: set[str] = set()
        if isinstance(tr, ast.Try):
            for h in tr.handlers:
                names_h = {norm(x) for x in ([h.type] if h.type is not None and not isinstance(h.type, ast.Tuple) else (h.type.elts if h.type is not None else []))}
                cancels = any(isinstance(c, ast.Call) and isinstance(c.func, ast.Attribute) and c.func.attr == "cancel" and isinstance(c.func.value, ast.Name) and c.func.value.id in futs and getattr(c, "parent", None) is not None and isinstance(getattr(c, "parent", None), ast.Expr) and getattr(getattr(c, "parent", None), "parent", None) is h for c in ast.walk(h))
                if cancels:
                    cancelled_in |= {x.rsplit(".", 1)[-1] for x in names_h} or {"BaseException"}
            if tr.finalbody and any(isinstance(c, ast.Call) and isinstance(c.func, ast.Attribute) and c.func.attr == "cancel" and isinstance(c.func.value, ast.Name) and c.func.value.id in futs for st in tr.finalbody for c in ast.walk(st)):
                cancelled_in |= {"TimeoutError", "CancelledError"}
        if {"TimeoutError", "CancelledError"} <= cancelled_in or "BaseException" in cancelled_in:
            r7.ok({"await": norm(w)[:70], "future_cancelled_in_handlers": sorted(cancelled_in)})
        else:
            r7.fail(f"{sc.short}:entry-outlives-its-sender", sc.loc(w), f"`{norm(w)[:80]}` does not cancel the queue entry's future when the sender stops waiting (timeout while still queued, or cancellation): the dequeue loop skips only entries whose future is done, so the command is transmitted - and retried - after its caller was already given an error")
    out.append(r7)
    return out


def _stmt_of(n: ast.AST) -> ast.AST:
    while n is not None and not isinstance(n, ast.stmt):
        n = getattr(n, "parent", None)  # type: ignore[assignment]
    return n


def _is_budget_test(t: ast.AST) -> bool:
    """`tx_count < tx_limit` (or `tx_limit > tx_count`): strictly fewer transmissions than allowed."""
    if not (isinstance(t, ast.Compare) and len(t.ops) == 1):
        return False
    l, r = norm(t.left), norm(t.comparators[0])
    if "_cmd_tx_count" in l and "_cmd_tx_limit" in r:
        return isinstance(t.ops[0], ast.Lt)
    if "_cmd_tx_limit" in l and "_cmd_tx_count" in r:
        return isinstance(t.ops[0], ast.Gt)
    return False


def _no_pending_edges(t: ast.AST) -> list[str]:
    """Out-edges of a test on which `self._fut is None or self._fut.done()` is known."""
    from .common import edge_implies

    txt = norm(t)
    if txt == "self.is_sending":
        return ["false"]
    goal = ast.parse("self._fut is None or self._fut.done()", mode="eval").body
    return [lab for lab, val in (("true", True), ("false", False)) if isinstance(t, ast.expr) and edge_implies(t, val, goal)]


_E, _R = 1009.0, 7919.0  # stand-ins for echo_timeout / reply_timeout (distinct primes, so products identify their factors)


def _net_effect(fn: ast.AST, sleep: ast.Await, want_delay: bool = False) -> "dict | None":
    """{m0: (exponent values when the sleep starts, values after the statements that follow a completed sleep)}, or with
    want_delay {m0: set of values slept for}. A set-valued abstract interpretation of the coroutine's own statements."""
    body = list(fn.body)  # type: ignore[attr-defined]
    idx = next((i for i, st in enumerate(body) if any(n is sleep for n in ast.walk(st))), None)
    if idx is None or not isinstance(body[idx], ast.Expr):
        return None
    KEY = "self._multiplier"
    SYM = {"self.echo_timeout": {_E}, "self.reply_timeout": {_R}}

    class Undecided(Exception):
        pass

    def ev(e: ast.expr, env: dict) -> set:
        if isinstance(e, ast.Constant) and isinstance(e.value, (int, float)) and not isinstance(e.value, bool):
            return {e.value}
        if isinstance(e, (ast.Attribute, ast.Name)) and norm(e) in env:
            return set(env[norm(e)])
        if isinstance(e, ast.Attribute) and norm(e) in SYM:
            return set(SYM[norm(e)])
        if isinstance(e, ast.BinOp) and isinstance(e.op, (ast.Add, ast.Sub, ast.Mult, ast.Pow)):
            a, b = ev(e.left, env), ev(e.right, env)
            if isinstance(e.op, ast.Pow) and any(abs(y) > 16 for y in b):
                raise Undecided("pow")
            f2 = {ast.Add: lambda x, y: x + y, ast.Sub: lambda x, y: x - y, ast.Mult: lambda x, y: x * y, ast.Pow: lambda x, y: x**y}[type(e.op)]
            return {f2(x, y) for x in a for y in b}
        if isinstance(e, ast.IfExp):
            return ev(e.body, env) | ev(e.orelse, env)
        if isinstance(e, ast.Call) and norm(e.func) in ("min", "max") and len(e.args) == 2 and not e.keywords:
            a, b = ev(e.args[0], env), ev(e.args[1], env)
            f3 = min if norm(e.func) == "min" else max
            return {f3(x, y) for x in a for y in b}
        raise Undecided(norm(e))

    def assign(k: str, v: ast.expr, rhs_env: dict, env: dict) -> None:
        try:
            env[k] = ev(v, rhs_env)
        except Undecided:
            if k == KEY:
                raise
            env.pop(k, None)  # a local we cannot follow: later uses of it are then undecided

    def run(stmts: list, env: dict) -> dict:
        for st in stmts:
            if isinstance(st, ast.Assign):
                rhs_env = dict(env)  # tuple assignment evaluates the whole right-hand side first
                for t, v in _pairs(st):
                    if isinstance(t, ast.Name) or norm(t) == KEY:
                        assign(norm(t), v, rhs_env, env)
            elif isinstance(st, ast.AnnAssign) and st.value is not None and (isinstance(st.target, ast.Name) or norm(st.target) == KEY):
                assign(norm(st.target), st.value, dict(env), env)
            elif isinstance(st, ast.AugAssign) and (isinstance(st.target, ast.Name) or norm(st.target) == KEY):
                assign(norm(st.target), ast.BinOp(left=st.target, op=st.op, right=st.value), dict(env), env)
            elif isinstance(st, ast.If):
                e1, e2 = run(st.body, dict(env)), run(st.orelse, dict(env))
                for k in set(e1) | set(e2):
                    if k in e1 and k in e2:
                        env[k] = e1[k] | e2[k]
                    elif k == KEY:
                        env[k] = e1.get(k, set()) | e2.get(k, set())
                    else:
                        env.pop(k, None)
            elif isinstance(st, (ast.For, ast.While, ast.Try, ast.With, ast.AsyncWith, ast.AsyncFor)):
                if any(isinstance(n, (ast.Attribute, ast.Name)) and isinstance(getattr(n, "ctx", None), ast.Store) and norm(n) == KEY for n in ast.walk(st)):
                    raise Undecided(type(st).__name__)
        return env

    out: dict = {}
    try:
        for m0 in range(4):
            env = run(body[:idx], {KEY: {m0}})
            if want_delay:
                out[m0] = ev(sleep.value.args[0], env)  # type: ignore[union-attr]
                continue
            at_sleep = set(env[KEY])
            env = run(body[idx + 1 :], env)
            out[m0] = (at_sleep, set(env[KEY]))
    except (Undecided, KeyError):
        return None
    return out


def _pairs(n: ast.Assign):
    for t in n.targets:
        if isinstance(t, ast.Tuple) and isinstance(n.value, ast.Tuple) and len(t.elts) == len(n.value.elts):
            yield from zip(t.elts, n.value.elts)
        else:
            yield t, n.value


def _interval(v: ast.expr) -> tuple[int, int] | None:
    """Abstract value of a _multiplier writer over the interval domain, assuming the old value is in 0..3."""
    OLD = (0, 3)

    def ev(e: ast.expr) -> tuple[int, int] | None:
        if isinstance(e, ast.Constant) and isinstance(e.value, int):
            return (e.value, e.value)
        if isinstance(e, (ast.Attribute, ast.Name)) and norm(e) in ("self._multiplier", "old_val"):
            return OLD
        if isinstance(e, ast.BinOp) and isinstance(e.op, (ast.Add, ast.Sub)):
            a, b = ev(e.left), ev(e.right)
            if a is None or b is None:
                return None
            return (a[0] + b[0], a[1] + b[1]) if isinstance(e.op, ast.Add) else (a[0] - b[1], a[1] - b[0])
        if isinstance(e, ast.Call) and norm(e.func) in ("min", "max") and len(e.args) == 2:
            a, b = ev(e.args[0]), ev(e.args[1])
            if a is None or b is None:
                return None
            if norm(e.func) == "min":
                return (min(a[0], b[0]), min(a[1], b[1]))
            return (max(a[0], b[0]), max(a[1], b[1]))
        return None

    r = ev(v)
    if r is None or r[0] < 0 or r[1] > 3:
        return None
    return r
