"""C10 - Device filters are sound and complete: blocked never passes, allowed never drops."""

from __future__ import annotations

import ast

from ..context import Ctx
from ..loader import AnalysisError, norm, own_nodes
from ..report import RuleResult

META = {
    "explanation": (
        "The filter is an ordered clause list over a handful of predicates and the gates are call-order facts; both are shapes of code. "
        "C10.R1 gates dominate delivery and transmission (super().pkt_received / super().send_cmd only on the wanted edge of "
        "_is_wanted_addrs; the unwanted edge of send raises ProtocolError). C10.R2 no bypass: in the MRO of PortProtocol/ReadProtocol the "
        "first pkt_received/send_cmd after the class itself is the mixin's; Message(pkt)-for-delivery, _msg_received and "
        "transport.write_frame are reached only below the gates (the start-up signature probe is the one named exception). "
        "C10.R3 block beats allow: inside the per-address loop the block-list test precedes every continue/return True. "
        "C10.R4 the allow set is exactly {active gateway, in known list (initialised with the broadcast and null ids), sending from the "
        "placeholder id} as a set (order-insensitive), evaluated for both src and dst. C10.R5 device creation is gated by "
        "check_filter_lists (LookupError swallowed only for the gateway's own id); the dispatcher lets a LookupError for the source end "
        "processing before any handler is scheduled. C10.R6 select_device_filter_mode never turns enforcement on, and turns it off only for "
        "an empty known list. Not decided: the full truth table over all configurations (that would be evaluating the decision list)."
    ),
}
META["explanation"] += ' C10.R3/R4 are read off the complete decision table of _is_wanted_addrs (predeval.py); R3 also: no remembered verdict keyed on a subset of the arguments. C10.R7: the filter configuration is written only in constructors.'

P = "ramses_tx.protocol"
MIX = f"{P}._DeviceIdFilterMixin"


def _node(cfg, n):
    p = n
    while p is not None and not cfg.nodes_of(p):
        p = getattr(p, "parent", None)
    return cfg.nodes_of(p)[0] if p is not None else None


def _wanted_edges(t: ast.AST) -> list[str]:
    """Out-edges of a test on which _is_wanted_addrs(...) returned True."""
    if isinstance(t, ast.UnaryOp) and isinstance(t.op, ast.Not) and isinstance(t.operand, ast.Call) and norm(t.operand.func).endswith("_is_wanted_addrs"):
        return ["false"]
    if isinstance(t, ast.Call) and norm(t.func).endswith("_is_wanted_addrs"):
        return ["true"]
    return []


def check(ctx: Ctx) -> list[RuleResult]:
    repo = ctx.repo
    out: list[RuleResult] = []

    # ---- R1 ---------------------------------------------------------------------------
    r1 = RuleResult("R1", "gates dominate delivery and transmission", "super().pkt_received/send_cmd are reachable only on the wanted edge of _is_wanted_addrs", min_instances=2)
    for meth, args, sending in (("pkt_received", ("pkt.src.id", "pkt.dst.id"), False), ("send_cmd", ("cmd.src.id", "cmd.dst.id"), True)):
        f = repo.func(f"{MIX}.{meth}")
        cfg = ctx.plain_cfg(f)
        supers = [n for n in own_nodes(f.node) if isinstance(n, ast.Call) and norm(n.func) == f"super().{meth}"]
        if not supers:
            raise AnalysisError(f"{MIX}.{meth} no longer calls super().{meth}")
        for s in supers:
            r1.instances += 1
            r1.nontrivial += 1
            node = _node(cfg, s)
            guards = []
            for t in cfg.nodes:
                if t.kind == "test":
                    for lab in _wanted_edges(t.ast):
                        if cfg.edge_dominates(t, lab, node):
                            call = t.ast.operand if isinstance(t.ast, ast.UnaryOp) else t.ast
                            a = tuple(norm(x) for x in call.args[:2])  # type: ignore[union-attr]
                            kw = {k.arg: norm(k.value) for k in call.keywords}  # type: ignore[union-attr]
                            if a == args and (kw.get("sending") == "True") == sending:
                                guards.append(norm(call))
            if not guards:
                # the same, however the gate's verdict is held (a local, hoisted ids, if/else either way round): at the call the
                # copy-propagated facts must imply that _is_wanted_addrs(<these ids>) returned true
                from .common import edge_implies, expand as _expand10, facts_at

                st_ = s
                while not isinstance(st_, ast.stmt):
                    st_ = st_.parent  # type: ignore[attr-defined]
                goal = ast.parse(f"self._is_wanted_addrs({args[0]}, {args[1]}{', sending=True' if sending else ''})", mode="eval").body
                for t_, v_ in facts_at(st_):
                    te = _expand10(f.node, t_, pure_only=False)
                    # hoisted argument locals inside the expanded call
                    te = _expand10(f.node, te, pure_only=False)
                    if edge_implies(te, v_, goal):  # type: ignore[arg-type]
                        guards.append(norm(goal))
            if guards:
                r1.ok({"gate": f"{f.short}", "guard": guards[0]})
            else:
                r1.fail(f"{f.short}:ungated", f.loc(s), f"super().{meth}() is reachable without _is_wanted_addrs({', '.join(args)}{', sending=True' if sending else ''}) having returned True")
        if sending:
            r1.instances += 1
            r1.nontrivial += 1
            raises = [n for n in own_nodes(f.node) if isinstance(n, ast.Raise) and "ProtocolError" in norm(n)]
            if raises:
                r1.ok({"refusal": norm(raises[0])[:70]})
            else:
                r1.fail(f"{f.short}:no-refusal", f.loc(), "a command to/from a filtered device is not refused with a ProtocolError")
    out.append(r1)

    # ---- R2 ---------------------------------------------------------------------------
    r2 = RuleResult("R2", "no bypass of the gates", "MRO order; who may call _pkt_received/_msg_received/Message-for-delivery/write_frame", min_instances=6)
    mix = repo.cls(MIX)
    for cname in ("PortProtocol", "ReadProtocol"):
        c = repo.cls(f"{P}.{cname}")
        for meth in ("pkt_received", "send_cmd"):
            r2.instances += 1
            r2.nontrivial += 1
            definers = [k for k in c.mro if meth in k.methods]
            after = [k for k in definers if k is not c]
            if after and after[0] is mix:
                r2.ok({"class": cname, "method": meth, "next_in_mro": "_DeviceIdFilterMixin"})
            else:
                r2.fail(f"{cname}.{meth}:mro", c.module.rel, f"in {cname}'s MRO the first {meth} after the class itself is {after[0].name if after else None}, not the filter mixin: the gate is bypassed")
    base = f"{P}._BaseProtocol"
    allowed = {
        f"{base}._pkt_received": {f"{base}.pkt_received"},
        f"{base}._msg_received": {f"{base}._pkt_received"},
    }
    for tgt, ok_callers in allowed.items():
        tf = repo.func(tgt)
        for s in ctx.cg.callers_of(tf):
            r2.instances += 1
            r2.nontrivial += 1
            if s.caller.qualname in ok_callers:
                r2.ok({"callee": tf.short, "caller": s.caller.short})
            else:
                r2.fail(f"{s.caller.short}:calls:{tf.name}", s.caller.loc(s.node), f"{tf.short} is called from {s.caller.short}, outside the gated path")
    # transports call only protocol.pkt_received (never _pkt_received/_msg_received)
    for f in repo.functions_in("ramses_tx.transport."):
        for n in own_nodes(f.node):
            if isinstance(n, ast.Attribute) and n.attr in ("_pkt_received", "_msg_received", "_msg_handler") and "_protocol" in norm(n.value):
                r2.instances += 1
                r2.fail(f"{f.short}:{n.attr}", f.loc(n), f"a transport reaches past the protocol's gate ({norm(n)})")
    # write_frame: only from _BaseProtocol._send_frame
    n_wf = 0
    for f in repo.funcs.values():
        if not f.module.name.startswith(("ramses_tx", "ramses_rf")):
            continue
        for n in own_nodes(f.node):
            if isinstance(n, ast.Call) and isinstance(n.func, ast.Attribute) and n.func.attr == "write_frame" and not norm(n.func).startswith("super()"):
                n_wf += 1
                r2.instances += 1
                r2.nontrivial += 1
                if f.qualname == f"{base}._send_frame":
                    r2.ok({"write_frame_from": f.short})
                else:
                    r2.fail(f"{f.short}:write_frame", f.loc(n), f"{f.short} writes a frame to the transport outside _BaseProtocol._send_frame (below no send gate)")
    if n_wf < 1:
        raise AnalysisError("no write_frame() call found")
    # _send_frame is reached only from the QoS closure of PortProtocol._send_cmd
    for s in ctx.cg.callers_of(repo.func(f"{base}._send_frame")):
        r2.instances += 1
        r2.nontrivial += 1
        # the closure (whatever it is called) that PortProtocol._send_cmd hands to the FSM as its write function
        psc = repo.func(f"{P}.PortProtocol._send_cmd")
        handed = {a.id for c in own_nodes(psc.node) if isinstance(c, ast.Call) and isinstance(c.func, ast.Attribute) and c.func.attr == "send_cmd" and "_context" in norm(c.func.value) for a in c.args if isinstance(a, ast.Name)}
        if s.caller.parent is psc and s.caller.name in handed:
            r2.ok({"_send_frame_from": s.caller.short})
        else:
            r2.fail(f"{s.caller.short}:_send_frame", s.caller.loc(s.node), "_send_frame is called outside PortProtocol._send_cmd's closure")
    # named exception: the start-up signature probe writes via _write_frame directly
    probe = [f for f in repo.functions_in("ramses_tx.transport.") for n in own_nodes(f.node) if isinstance(n, ast.Call) and isinstance(n.func, ast.Attribute) and n.func.attr == "_write_frame" and f.name not in ("write_frame",)]
    names = sorted({f.short for f in probe})
    r2.instances += 1
    r2.nontrivial += 1
    if names == ["transport.PortTransport._create_connection.connect_with_signature"]:
        r2.ok({"named_exception": names[0], "reason": "the library's own puzzle packet from the placeholder id to the broadcast id"})
    else:
        r2.fail("transport:_write_frame-callers", repo.mod("ramses_tx.transport").rel, f"_write_frame is called directly from {names}: only the start-up signature probe may bypass write_frame")
    out.append(r2)

    # ---- R3 / R4 ----------------------------------------------------------------------
    # The filter only tests, for each of the two ids, membership of the block list / known list, equality with the active
    # gateway and with the placeholder id, plus two flags: its complete decision table is computed by abstract evaluation of its
    # source (predeval.py) and both rules are read off the table - any equivalent rewrite of the clause list passes.
    from ..predeval import PredEval, Unsupported

    wf = repo.func(f"{MIX}._is_wanted_addrs")
    # memoisation / delegation: the decision must be a function of *all* the arguments
    r3 = RuleResult("R3", "block beats allow", "decision table of _is_wanted_addrs: a block-listed src or dst is never wanted", min_instances=1)
    r4 = RuleResult("R4", "the allow set is exactly the stated one", "decision table: under enforcement an id passes iff it is the active gateway, in the known list, or (when sending) the placeholder id; both ids are examined", min_instances=1)
    params = [a.arg for a in wf.node.args.args if a.arg != "self"] + [a.arg for a in wf.node.args.kwonlyargs]
    r3.instances += 1
    r3.nontrivial += 1
    memo_bad = _memo_key_gaps(wf, params)
    if memo_bad:
        node, key_names, missing = memo_bad[0]
        r3.fail(f"{wf.short}:memo-key-incomplete", wf.loc(node), f"_is_wanted_addrs returns a remembered decision looked up by ({', '.join(key_names)}) only, although the decision also depends on {sorted(missing)}: a verdict computed for one value of {sorted(missing)} is replayed for the other (e.g. an id admitted while *sending* from the placeholder is then admitted on reception too)")
        out.append(r3)
    else:
        r3.ok({"memoisation": "none keyed on a subset of the arguments"})
        ids = ("src_id", "dst_id")
        need = {}
        for x in ids:
            need[x] = {"excl": f"{x} in self._exclude", "act": f"{x} == self._active_hgi", "incl": f"{x} in self._include", "hgi": f"{x} == HGI_DEV_ADDR.id"}
        flat = [k for x in ids for k in need[x].values()] + ["sending", "self.enforce_include"]
        try:
            tab = PredEval(ctx, wf, max_rows=600000).table(expand=lambda k: k in flat)
        except Unsupported as err:
            raise AnalysisError(f"_is_wanted_addrs is not a decision list the evaluator understands: {err}") from err
        missing_atoms = [k for k in flat if k not in tab.atoms]
        rows_all = tab.rows
        if missing_atoms:
            # the decision does not depend on a test that is gone: complete the table with both values of it, so the rules
            # below still quantify over every situation (and report the rows that are now decided wrongly)
            import itertools as _it

            rows_all = [({**a, **dict(zip(missing_atoms, bits))}, r) for a, r in tab.rows for bits in _it.product((False, True), repeat=len(missing_atoms))]
            r4.notes.append(f"_is_wanted_addrs does not test {missing_atoms}: treated as don't-care")
        if True:
            def allowed(a: dict, x: str) -> bool:
                return bool(a[need[x]["act"]] or a[need[x]["incl"]] or (a["sending"] and a[need[x]["hgi"]]))

            r3.instances += 1
            r3.nontrivial += 1
            bad = [a for a, r in rows_all if (a[need["src_id"]["excl"]] or a[need["dst_id"]["excl"]]) and r is not False]
            if bad:
                r3.fail(f"{wf.short}:block-listed-admitted", wf.loc(), "a packet with a block-listed source or destination id can be wanted: " + tab.describe({k: v for k, v in bad[0].items() if v is True and k != "__effects__"})[:200])
            else:
                r3.ok({"rows": len(tab.rows), "block_listed_src_or_dst": "always refused"})
            # enforcement on: wanted iff both ids are in the allow set
            r4.instances += 1
            r4.nontrivial += 1
            rows_enf = [(a, r) for a, r in rows_all if a["self.enforce_include"] and not a[need["src_id"]["excl"]] and not a[need["dst_id"]["excl"]]]
            too_lax = [a for a, r in rows_enf if r is not False and not (allowed(a, "src_id") and allowed(a, "dst_id"))]
            too_strict = [a for a, r in rows_enf if r is not True and allowed(a, "src_id") and allowed(a, "dst_id")]
            if too_lax:
                r4.fail(f"{wf.short}:allow-set-wider", wf.loc(), "with known-list enforcement on, a packet is wanted although one of its ids is neither the active gateway, nor in the known list, nor (sending) the placeholder id: true atoms: " + ", ".join(k for k, v in too_lax[0].items() if v is True and k != "__effects__")[:220])
            elif too_strict:
                r4.fail(f"{wf.short}:allow-set-narrower", wf.loc(), "with known-list enforcement on, a packet between two allowed ids is refused: true atoms: " + ", ".join(k for k, v in too_strict[0].items() if v is True and k != "__effects__")[:220])
            else:
                r4.ok({"enforced_rows": len(rows_enf), "wanted": "iff both ids are active gateway | in known list | (sending and placeholder)"})
            # enforcement off: nothing but the block list refuses
            r4.instances += 1
            r4.nontrivial += 1
            bad = [a for a, r in rows_all if not a["self.enforce_include"] and not a[need["src_id"]["excl"]] and not a[need["dst_id"]["excl"]] and r is not True]
            if bad:
                r4.fail(f"{wf.short}:refused-without-enforcement", wf.loc(), "without known-list enforcement a packet whose ids are not block-listed is refused: true atoms: " + ", ".join(k for k, v in bad[0].items() if v is True and k != "__effects__")[:220])
            else:
                r4.ok({"not_enforced": "only the block list refuses"})
        out.append(r3)
    init = repo.func(f"{MIX}.__init__")
    r4.instances += 1
    r4.nontrivial += 1
    inc = [norm(n) for n in own_nodes(init.node) if isinstance(n, (ast.Assign, ast.AugAssign)) and "self._include" in norm(n.targets[0] if isinstance(n, ast.Assign) else n.target)]
    # built from the known list's ids (keys() / iteration / unpacking of the mapping) plus the two ids, in one or more statements
    from_known = any(isinstance(x, ast.Name) and x.id == "include_list" for n in own_nodes(init.node) if isinstance(n, (ast.Assign, ast.AugAssign)) and "self._include" in norm(n.targets[0] if isinstance(n, ast.Assign) else n.target) for x in ast.walk(n.value))
    if any("ALL_DEV_ADDR.id" in x for x in inc) and any("NON_DEV_ADDR.id" in x for x in inc) and from_known:
        r4.ok({"_include": inc})
    else:
        r4.fail(f"{init.short}:_include-init", init.loc(), f"_include is no longer the known list plus the broadcast and null ids: {inc}")
    out.append(r4)

    # ---- R5 ---------------------------------------------------------------------------
    r5 = RuleResult("R5", "device creation gate", "device_factory only under check_filter_lists; the dispatcher stops on LookupError for the source", min_instances=4)
    gd = repo.func("ramses_rf.gateway.Gateway.get_device")
    facs = []
    for f in repo.funcs.values():
        if f.module.name.startswith("ramses_rf"):
            for n in own_nodes(f.node):
                if isinstance(n, ast.Call) and norm(n.func) == "device_factory":
                    facs.append((f, n))
    if not facs:
        raise AnalysisError("no device_factory() call found")
    cfg = ctx.plain_cfg(gd)
    for f, n in facs:
        r5.instances += 1
        r5.nontrivial += 1
        if f is not gd:
            r5.fail(f"{f.short}:device_factory", f.loc(n), f"device_factory() is called from {f.short}, not from the gated Gateway.get_device")
            continue
        node = _node(cfg, n)
        # the gate: a call that dominates the factory and whose (repository) callee can raise LookupError by itself
        gate_calls = []
        for x in cfg.dominated_by(node, lambda x: x.kind == "stmt" and x.ast is not None):
            for c in ast.walk(x.ast):
                if isinstance(c, ast.Call):
                    site = ctx.cg.site_of.get(id(c))
                    for callee in (site.callees if site is not None else []):
                        if any(isinstance(r, ast.Raise) and r.exc is not None and "LookupError" in norm(r.exc) for r in ast.walk(callee.node)):
                            gate_calls.append((x, c, callee))
        if gate_calls:
            gate_fn = gate_calls[0][2]
            r5.ok({"device_factory": f"dominated by {gate_fn.short}({norm(gate_calls[0][1].args[0]) if gate_calls[0][1].args else ''})"})
        else:
            gate_fn = None
            r5.fail(f"{gd.short}:ungated-factory", gd.loc(n), "device_factory() is reachable without a dominating call of a filter function that can raise LookupError")
    # the LookupError is swallowed only for the gateway's own id
    r5.instances += 1
    r5.nontrivial += 1
    gate_name = gate_fn.name if gate_fn is not None else "check_filter_lists"
    tries = [t for t in own_nodes(gd.node) if isinstance(t, ast.Try) and any(isinstance(c, ast.Call) and norm(c.func).split(".")[-1] == gate_name for b in t.body for c in ast.walk(b))]
    okh = not tries  # no handler at all: nothing is swallowed
    for t in tries:
        for h in t.handlers:
            # the handler must re-raise unless the id is the gateway's own: every path through it that does not raise is under a
            # test implying device_id == <protocol>.hgi_id
            hb = h.body
            if len(hb) == 1 and isinstance(hb[0], ast.If) and not hb[0].orelse and _always_reraises(hb[0].body):
                for atom, holds in _implied_atoms(hb[0].test, False):  # what holds when the re-raise is skipped
                    if isinstance(atom, ast.Compare) and len(atom.ops) == 1 and "hgi_id" in norm(atom) and "device_id" in norm(atom):
                        if (isinstance(atom.ops[0], ast.NotEq) and not holds) or (isinstance(atom.ops[0], ast.Eq) and holds):
                            okh = True
            elif _always_reraises(hb):
                okh = True
    if okh:
        r5.ok({"LookupError_swallowed_only_if": "device_id == self._protocol.hgi_id"})
    else:
        r5.fail(f"{gd.short}:swallow", gd.loc(), "the filter's LookupError is swallowed for ids other than the gateway's own")
    if gate_fn is None:
        raise AnalysisError("Gateway.get_device: the filter function that gates device creation was not found")
    cfl = gate_fn
    r5.instances += 1
    r5.nontrivial += 1
    try:
        tabg = PredEval(ctx, cfl).table()
    except Unsupported as err:
        raise AnalysisError(f"{cfl.short} is not a decision procedure the evaluator understands: {err}") from err
    pname = [a.arg for a in cfl.node.args.args if a.arg != "self"][:1]
    pn = pname[0] if pname else "dev_id"
    A_EXC = next((a for a in tabg.atoms if a.replace(" ", "") == f"{pn}inself._exclude"), None)
    A_ENF = next((a for a in tabg.atoms if a == "self._enforce_known_list"), None)
    A_INC = next((a for a in tabg.atoms if a.replace(" ", "") == f"{pn}inself._include"), None)
    if A_EXC is None or A_ENF is None or A_INC is None:
        r5.fail(f"{cfl.short}:clauses", cfl.loc(), f"{cfl.short} no longer tests the block list, the enforcement flag and the known list (tests found: {tabg.atoms})")
    else:
        inc_neg = False  # canonical atom: `<id> in self._include`
        def refused(r) -> bool:
            return isinstance(r, tuple) and len(r) == 2 and r[0] == "raise" and "LookupError" in r[1]
        others = [a for a in tabg.atoms if a not in (A_EXC, A_ENF, A_INC)]
        lax_block = [a for a, r in tabg.rows if a[A_EXC] and not refused(r)]
        # enforced and unlisted -> refused, whatever the other tests say, except the documented gateway exemption (an atom on hgi)
        lax_enf = [a for a, r in tabg.rows if a[A_ENF] and (bool(a[A_INC]) == inc_neg) and not refused(r) and not any("hgi" in o and a[o] for o in others)]
        if lax_block:
            r5.fail(f"{cfl.short}:block-listed-passes", cfl.loc(), f"{cfl.short} lets a block-listed id through: " + tabg.describe({k: v for k, v in lax_block[0].items() if k != "__effects__"})[:240])
        elif lax_enf:
            r5.fail(f"{cfl.short}:unlisted-passes", cfl.loc(), f"with the known list enforced, {cfl.short} lets an unlisted id through: " + tabg.describe({k: v for k, v in lax_enf[0].items() if k != "__effects__"})[:240])
        else:
            r5.ok({"gate": cfl.short, "decision_table_rows": len(tabg.rows), "refuses": "block-listed ids; unlisted ids when enforced (bar the gateway itself)"})
    # dispatcher: LookupError from the source ends processing before any handler is scheduled
    pm = repo.func("ramses_rf.dispatcher.process_msg")
    r5.instances += 1
    r5.nontrivial += 1
    okd = False
    for t in own_nodes(pm.node):
        if isinstance(t, ast.Try) and any("_create_devices_from_addrs" in norm(b) for b in t.body):
            for h in t.handlers:
                if "LookupError" in norm(h.type) and isinstance(h.body[-1], ast.Return):
                    okd = True
    if okd:
        r5.ok({"process_msg": "except LookupError: ... return (before any _handle_msg is scheduled)"})
    else:
        r5.fail(f"{pm.short}:lookup-fence", pm.loc(), "process_msg no longer stops when the source device may not be created: a filtered device's message would still be dispatched")
    cda = repo.func("ramses_rf.dispatcher._create_devices_from_addrs")
    r5.instances += 1
    r5.nontrivial += 1
    src_calls = [n for n in own_nodes(cda.node) if isinstance(n, ast.Call) and norm(n.func) == "gwy.get_device" and "src" in norm(n)]
    suppressed = [n for n in src_calls if any(isinstance(p, ast.With) and "suppress" in norm(p.items[0].context_expr) for p in _parents(n))]
    if src_calls and not suppressed:
        r5.ok({"source_lookup_error": "propagates (not suppressed)"})
    else:
        r5.fail(f"{cda.short}:src-suppressed", cda.loc(), "the LookupError for a filtered *source* device is suppressed in _create_devices_from_addrs")
    out.append(r5)

    # ---- R6 ---------------------------------------------------------------------------
    # decision table of select_device_filter_mode (predeval.py): the mode returned is the requested one, except that enforcement
    # is switched off for an empty known list - it is never switched *on*, and never off for a non-empty list
    r6 = RuleResult("R6", "filter mode selection", "decision table: select_device_filter_mode returns (requested and known list non-empty)", min_instances=1)
    sf = repo.func("ramses_tx.schemas.select_device_filter_mode")
    r6.instances += 1
    r6.nontrivial += 1
    try:
        tab6 = PredEval(ctx, sf).table()
    except Unsupported as err:
        raise AnalysisError(f"select_device_filter_mode is not a decision procedure the evaluator understands: {err}") from err
    REQ, KL = "enforce_known_list", "known_list"
    if REQ not in tab6.atoms:
        raise AnalysisError(f"select_device_filter_mode: the requested mode is not tested/returned (atoms: {tab6.atoms})")
    rows6 = tab6.rows
    if KL not in tab6.atoms:
        rows6 = [({**a, KL: b}, r) for a, r in rows6 for b in (False, True)]
    bad6 = [(a, r) for a, r in rows6 if not isinstance(r, bool) or r != (bool(a[REQ]) and bool(a[KL]))]
    if bad6:
        a, r = bad6[0]
        r6.fail(f"{sf.short}:mode", sf.loc(), f"select_device_filter_mode returns {r!r} for requested={a[REQ]}, known list {'non-empty' if a[KL] else 'empty'}: expected {bool(a[REQ]) and bool(a[KL])} (enforcement is only ever switched off, and only for an empty known list)")
    else:
        r6.ok({"rows": len(rows6), "returns": "requested and known_list non-empty"})
    out.append(r6)
    # ---- R7 ---------------------------------------------------------------------------
    # The filter configuration is fixed at construction: the gateway's and the protocol's block list, known list and enforcement
    # flags are only written in constructors. A later (even temporary) write changes which devices are created / which packets
    # pass for everything that runs in the meantime (e.g. live traffic handled while a cached log is being restored).
    r7 = RuleResult("R7", "the filter configuration is write-once", "_exclude/_include/_enforce_known_list/enforce_include are assigned only in constructors, and the lists are never mutated in place", min_instances=6)
    cfg_attrs = {"_exclude", "_include", "_enforce_known_list", "enforce_include"}
    MUT = {"append", "extend", "insert", "pop", "remove", "clear", "update", "setdefault", "popitem", "__setitem__", "__delitem__"}
    for f in sorted(repo.funcs.values(), key=lambda x: x.qualname):
        if not f.module.name.startswith(("ramses_tx", "ramses_rf")):
            continue
        for n in own_nodes(f.node):
            tgt = None
            how = ""
            if isinstance(n, (ast.Assign, ast.AnnAssign, ast.AugAssign)):
                for t in (n.targets if isinstance(n, ast.Assign) else [n.target]):
                    for el in (t.elts if isinstance(t, (ast.Tuple, ast.List)) else [t]):
                        if isinstance(el, ast.Attribute) and el.attr in cfg_attrs and isinstance(el.value, ast.Name) and el.value.id == "self":
                            tgt, how = el, "assigns"
                        elif isinstance(el, ast.Subscript) and isinstance(el.value, ast.Attribute) and el.value.attr in cfg_attrs and isinstance(el.value.value, ast.Name) and el.value.value.id == "self":
                            tgt, how = el.value, "stores into"
            elif isinstance(n, ast.Call) and isinstance(n.func, ast.Attribute) and n.func.attr in MUT and isinstance(n.func.value, ast.Attribute) and n.func.value.attr in cfg_attrs and isinstance(n.func.value.value, ast.Name) and n.func.value.value.id == "self":
                tgt, how = n.func.value, f"calls .{n.func.attr}() on"
            elif isinstance(n, ast.Delete):
                for t in n.targets:
                    if isinstance(t, ast.Subscript) and isinstance(t.value, ast.Attribute) and t.value.attr in cfg_attrs:
                        tgt, how = t.value, "deletes from"
            if tgt is None:
                continue
            # only the filter's owners: the Engine/Gateway and the protocol classes
            if f.cls is None or not any(c.name in ("Engine", "_DeviceIdFilterMixin") for c in f.cls.mro):
                continue
            r7.instances += 1
            r7.nontrivial += 1
            if f.name == "__init__":
                r7.ok({"write": f"{f.short}: {norm(n)[:60]}"})
            else:
                r7.fail(f"{f.short}:{how.split()[0]}:self.{tgt.attr}", f.loc(n), f"{f.short} {how} self.{tgt.attr} after construction: the device filter's configuration changes under everything that is running (packets received and devices created in the meantime are judged by the altered filter)")
    out.append(r7)

    # ---- R8 ---------------------------------------------------------------------------
    # the active gateway is exempt from the known list, so the id installed as "active" must be one the transport learned - never a
    # fall-back: with the placeholder (or a configured guess) installed, packets to/from 18:000730 pass an enforced known list
    r8 = RuleResult("R8", "the active gateway id is a learned id", "every argument of _set_active_hgi() comes from the transport's learned id, without a default/fall-back to the placeholder or the configured gateway", min_instances=1)
    from .common import expand

    sah = repo.func(f"{MIX}._set_active_hgi")
    calls8 = [(f, c) for f in repo.funcs.values() for c in own_nodes(f.node) if isinstance(c, ast.Call) and isinstance(c.func, ast.Attribute) and c.func.attr == sah.name and c.args]
    if not calls8:
        raise AnalysisError("no call of _set_active_hgi found")

    def fallbacks(f, e: ast.expr, depth: int = 3) -> list[str]:
        bad: list[str] = []
        e = expand(f.node, e, pure_only=False)
        for x in ast.walk(e):
            if isinstance(x, ast.Attribute) and isinstance(x.value, ast.Name) and x.value.id == "self" and f.cls is not None and depth > 0:
                prop = next((k.methods[x.attr] for k in f.cls.mro if x.attr in k.methods and k.methods[x.attr].is_property), None)
                if prop is not None:
                    for r in own_nodes(prop.node):
                        if isinstance(r, ast.Return) and r.value is not None:
                            bad += [f"{prop.short}: {b}" for b in fallbacks(prop, r.value, depth - 1)] or ([] if _learned(r.value) else [f"{prop.short} returns `{norm(r.value)[:50]}`"])
            if isinstance(x, ast.BoolOp) and isinstance(x.op, ast.Or):
                bad.append(f"`{norm(x)[:50]}` (an `or` fall-back)")
            if isinstance(x, ast.Call) and isinstance(x.func, ast.Attribute) and x.func.attr == "get_extra_info" and (len(x.args) > 1 or x.keywords):
                bad.append(f"`{norm(x)[:60]}` (get_extra_info with a default)")
            if isinstance(x, ast.Attribute) and norm(x) in ("HGI_DEV_ADDR.id", "self._known_hgi"):
                bad.append(f"`{norm(x)}`")
        return bad

    def _learned(e: ast.expr) -> bool:
        return any(isinstance(x, ast.Call) and isinstance(x.func, ast.Attribute) and x.func.attr == "get_extra_info" for x in ast.walk(e)) or any(isinstance(x, ast.Attribute) and x.attr in ("id",) and "src" in norm(x) for x in ast.walk(e))

    for f, c in calls8:
        r8.instances += 1
        r8.nontrivial += 1
        fb = fallbacks(f, c.args[0])
        if fb:
            r8.fail(f"{f.short}:active-hgi-from-fallback", f.loc(c), f"`{norm(c)[:70]}` can install a fall-back value as the active gateway ({'; '.join(sorted(set(fb)))[:200]}): the placeholder/configured id then counts as the active gateway and is exempt from the enforced known list")
        else:
            r8.ok({"site": f"{f.short}: {norm(c)[:70]}", "source": "the transport's learned id, no fall-back"})
    out.append(r8)
    return out


def _canon(t: ast.expr, var: str) -> str:
    return norm(t)


def _parents(n: ast.AST):
    p = getattr(n, "parent", None)
    while p is not None:
        yield p
        p = getattr(p, "parent", None)


def _memo_key_gaps(f, params: list[str]) -> "list[tuple[ast.AST, list[str], set[str]]]":
    """Early returns of a remembered value `self.<D>[key]` / `.get(key)` whose key omits parameters the function otherwise uses."""
    out = []
    used_elsewhere: set[str] = set()
    lookups = []
    for n in ast.walk(f.node):
        if isinstance(n, ast.Return) and n.value is not None:
            v = n.value
            key = None
            if isinstance(v, ast.Subscript) and isinstance(v.value, ast.Attribute) and isinstance(v.value.value, ast.Name) and v.value.value.id == "self":
                key = v.slice
            elif isinstance(v, ast.Call) and isinstance(v.func, ast.Attribute) and v.func.attr == "get" and isinstance(v.func.value, ast.Attribute) and v.args:
                key = v.args[0]
            if key is not None:
                names = [x.id for x in ast.walk(key) if isinstance(x, ast.Name)]
                lookups.append((n, names, key))
    if not lookups:
        return out
    key_nodes = {id(x) for _n, _names, k in lookups for x in ast.walk(k)}
    for x in ast.walk(f.node):
        if isinstance(x, ast.Name) and x.id in params and id(x) not in key_nodes and isinstance(x.ctx, ast.Load):
            used_elsewhere.add(x.id)
    for n, names, _k in lookups:
        missing = {p for p in params if p in used_elsewhere and p not in names}
        if missing and any(nm in params for nm in names):
            out.append((n, names, missing))
    return out


def _always_reraises(body: list) -> bool:
    if not body:
        return False
    last = body[-1]
    if isinstance(last, ast.Raise):
        return True
    if isinstance(last, ast.If) and last.orelse:
        return _always_reraises(last.body) and _always_reraises(last.orelse)
    return False


def _implied_atoms(t: ast.expr, edge: bool) -> "list[tuple[ast.expr, bool]]":
    if isinstance(t, ast.UnaryOp) and isinstance(t.op, ast.Not):
        return _implied_atoms(t.operand, not edge)
    if isinstance(t, ast.BoolOp):
        if (isinstance(t.op, ast.And) and edge) or (isinstance(t.op, ast.Or) and not edge):
            return [x for v in t.values for x in _implied_atoms(v, edge)]
        return []
    return [(t, edge)]
