"""C01 - Reception is total: bad input is rejected cleanly and never stops the stream."""

from __future__ import annotations

import ast

from ..context import Ctx
from ..dep import Deps
from ..loader import AnalysisError, norm, own_nodes
from ..report import RuleResult
from .common import CANCELLED, PKT_INVALID, TRANSPORT_ERR, closure_rule, origin_key, policy_input, short_cls

META = {
    "explanation": (
        "C01.R1: exception-effect closure of the packet/message constructors - only PacketInvalid (and ValueError for the "
        "Packet.from_* family) can leave them, over every raise/assert/implicit-raiser site reachable through all 106 parsers. "
        "C01.R2: nothing (bar the explicit 'transport is closing' TransportError) can leave the transport/protocol receive callbacks. "
        "C01.R3: loop-body isolation - no exception can leave one iteration of a line-reading loop, so a bad line cannot abort the "
        "lines after it. C01.R4: the serial frames depend on the persistent receive buffer (necessary condition for independence "
        "from read segmentation). Not decided: that valid lines decode correctly; equality of frames over all partitions of a byte stream."
    ),
    "assumptions": [
        "frames are hex-validated by COMMAND_REGEX before any int(x, 16) on payload slices; such ValueErrors are admitted or fenced anyway",
        "IndexError is modelled for constant/range-bounded indexes into lists and tuples (seqlen.py); indexes into str/bytes are not (payload widths are fixed by the per-code regexes)",
        "for Address values, x != NON_DEV_ADDR implies x.type != '--' (Address.__eq__ compares ids; '--:------' is the only valid id of that type)",
    ],
}
META["explanation"] += ' C01 also models IndexError from constant/range-bounded indexes into lists and tuples (seqlen.py): each site on the receive path is proven in bounds or reported.'
META["explanation"] += ' C01.R4 also: every search for the line terminator is made on the carried buffer.'


def check(ctx: Ctx) -> list[RuleResult]:
    repo = ctx.repo
    ea = ctx.exc(policy_input(ctx))
    out: list[RuleResult] = []

    # ---- R1 -------------------------------------------------------------------------
    r1 = RuleResult("R1", "exception closure at the packet/message constructors", "may_raise(Packet.*) ⊆ {PacketInvalid↓, ValueError↓}; may_raise(Message(pkt)) ⊆ {PacketInvalid↓}", min_instances=6)
    pkt_entries = [repo.func(f"ramses_tx.packet.Packet.{n}") for n in ("__init__", "from_file", "from_port", "from_dict")]
    closure_rule(ctx, r1, ea, pkt_entries, [PKT_INVALID, "builtins.ValueError"], "the Packet constructors")
    msg_entries = [repo.func("ramses_tx.message.MessageBase.__init__"), repo.func("ramses_tx.message.Message._from_pkt")]
    closure_rule(ctx, r1, ea, msg_entries, [PKT_INVALID], "Message(pkt)")
    parsers = ctx.cg.registry("ramses_tx.parsers", "_PAYLOAD_PARSERS") or []
    if len(parsers) < 100:
        raise AnalysisError(f"payload parser registry resolved to {len(parsers)} functions (expected >= 100)")
    reach = ctx.cg.reachable(msg_entries)
    r1.info = {
        "parsers_in_registry": len(parsers),
        "functions_reachable_from_Message": len(reach),
        "asserts_counted_as_input_dependent": len(ea.asserts_counted),
        "asserts_walked_past_as_self_checks": len(ea.asserts_skipped),
        "table_discharges": dict(list(getattr(ctx, "_oracles").used.items())[:12]),
        "sequence_index_sites_proven_in_bounds": sum(1 for k in ea.discharged if k[1] == "builtins.IndexError"),
        "sequence_length_facts": dict(list(getattr(getattr(ea, "_seqlen", None), "used", {}).items())[:12]),
    }
    out.append(r1)

    # ---- R2 -------------------------------------------------------------------------
    r2 = RuleResult("R2", "exception closure at the transports/protocols", "may_raise = ∅ for every receive callback (bar the explicit closing guard)", min_instances=8)
    names = [
        "ramses_tx.transport._ReadTransport._frame_read",
        "ramses_tx.transport._RegHackMixin._frame_read",
        "ramses_tx.transport._ReadTransport._pkt_read",
        "ramses_tx.transport.PortTransport._pkt_read",
        "ramses_tx.transport.track_system_syncs.wrapper",
        "ramses_tx.protocol._BaseProtocol.pkt_received",
        "ramses_tx.protocol._BaseProtocol._pkt_received",
        "ramses_tx.protocol._DeviceIdFilterMixin.pkt_received",
        "ramses_tx.protocol.PortProtocol.pkt_received",
        "ramses_tx.transport.MqttTransport._on_message",
    ]
    entries = [repo.func(n) for n in names]
    # named exception: the stream is over by definition once the transport is closing
    guard = [
        n
        for n in own_nodes(repo.func("ramses_tx.transport._ReadTransport._pkt_read").node)
        if isinstance(n, ast.Raise) and "TransportError" in ast.unparse(n)
    ]
    if len(guard) != 1 or "_closing" not in ast.unparse(getattr(guard[0], "parent", guard[0])):
        r2.notes.append("the 'transport is closing' guard is not in the expected shape; TransportError is then not exempt")
        allow: list[str] = []
    else:
        allow = [TRANSPORT_ERR]
    closure_rule(ctx, r2, ea, entries, allow, "a receive callback")
    out.append(r2)

    # ---- R3 -------------------------------------------------------------------------
    r3 = RuleResult("R3", "loop-body isolation in the line-reading loops", "no exception can leave one iteration (hence none can abort the rest of a log / a multi-line read)", min_instances=2)
    loops = []
    for qn in ("ramses_tx.transport.FileTransport._reader", "ramses_tx.transport.PortTransport._read_ready"):
        f = repo.func(qn)
        for n in own_nodes(f.node):
            if isinstance(n, (ast.For, ast.AsyncFor)) and any(isinstance(c, ast.Call) and ast.unparse(c.func).endswith("_frame_read") for c in ast.walk(n)):
                loops.append((f, n))
    for f, loop in loops:
        r3.instances += 1
        r3.nontrivial += 1
        ea._f, ea._record, ea._final = f, False, False
        ea._tainted = ea._taint_cache.get(f, set())
        esc = ea._block(loop.body, caught=None)
        iter_esc = ea.raises_of(f, loop.iter)
        def exempt(c: str) -> bool:  # the stream is over by definition once the transport is closing (see R2)
            return c == CANCELLED or (bool(allow) and ea.h.is_sub(c, TRANSPORT_ERR) and all(ro.node is guard[0] for ro_src in (esc, iter_esc) for o2 in ro_src.all(c) for ro, _p in (ea.roots(o2.via, c) if o2.kind == "call" and o2.via is not None else [(o2, [])])))

        bad = [(c, "body") for c in esc if not exempt(c)] + [(c, "iterator") for c in iter_esc if not exempt(c)]
        if not bad:
            r3.ok({"loop": f"{f.short}: for {norm(loop.target)} in {norm(loop.iter)}", "escaping": []})
            continue
        for c, part in bad:
            src = esc if part == "body" else iter_esc
            for o in src.all(c):
                roots = ea.roots(o.via, c) if o.kind == "call" and o.via is not None else [(o, [f])]
                for ro, path in roots[:40]:
                    r3.fail(
                        f"{f.short}:for {norm(loop.target)}:{short_cls(c)}@{origin_key(ro)}",
                        f.loc(o.node),
                        f"{short_cls(c)} can leave an iteration of the line loop in {f.short} ({part}): it would skip/abort the lines after it",
                        [f"raised at: {ro.where()} {norm(ro.node)[:140]}", f"enters the loop body at: {norm(o.node)[:120]}", "via " + " > ".join(p.short for p in path)],
                    )
    out.append(r3)

    # ---- R4 -------------------------------------------------------------------------
    r4 = RuleResult("R4", "serial buffer carry (dependence)", "frames handed to _frame_read depend on the persistent _recv_buffer; the buffer depends on its previous value and the new read", min_instances=3)
    f = repo.func("ramses_tx.transport.PortTransport._read_ready")
    BUF = "self._recv_buffer"
    # a line splitter that was a nested generator and is now a private method of the same class is still part of the read path
    helpers4 = {}
    for cs in ctx.cg.calls_in(f):
        for c in cs.callees:
            if c.cls is f.cls and c is not f and isinstance(cs.node, ast.Call) and isinstance(cs.node.func, ast.Attribute) and norm(cs.node.func.value) == "self" and any(isinstance(x, ast.Attribute) and x.attr == "_recv_buffer" for x in own_nodes(c.node)):
                helpers4[c.name] = c
    deps = Deps(f, helpers=helpers4)
    scope4 = [f] + list(f.nested.values()) + list(helpers4.values())
    calls = [n for n in own_nodes(f.node) if isinstance(n, ast.Call) and ast.unparse(n.func).endswith("_frame_read")]
    if not calls:
        raise AnalysisError("no _frame_read call in PortTransport._read_ready")
    for c in calls:
        r4.instances += 1
        r4.nontrivial += 1
        frame_arg = c.args[-1] if c.args else None
        d = deps.of_expr(frame_arg) if frame_arg is not None else set()
        if BUF in d:
            r4.ok({"site": f"{f.short}:{norm(c)[:80]}", "depends_on": sorted(x for x in d if x.startswith("self."))[:8]})
        else:
            r4.fail(f"{f.short}:frame-arg-independent-of-buffer", f.loc(c), "the frame passed to _frame_read does not depend on the persistent receive buffer: a frame split across two reads cannot be reassembled", [f"depends on: {sorted(d)[:12]}"])
    # (ii) every plain assignment to the buffer carries state
    writes = []
    for g in scope4:
        for n in own_nodes(g.node):
            if isinstance(n, (ast.Assign, ast.AugAssign, ast.AnnAssign)):
                tgts = n.targets if isinstance(n, ast.Assign) else [n.target]
                if any(norm(t) == BUF for t in tgts):
                    writes.append((g, n))
    if not writes:
        r4.fail(f"{f.short}:no-buffer-write", f.loc(), "_recv_buffer is never updated in _read_ready: bytes of a partial line would be lost")
    for g, n in writes:
        r4.instances += 1
        r4.nontrivial += 1
        d = deps.of_expr(n.value) | ({BUF} if isinstance(n, ast.AugAssign) else set())
        data_params = {a.arg for a in g.node.args.args} | {"data"}
        if BUF in d or (d & data_params and isinstance(n, ast.AugAssign)):
            r4.ok({"write": norm(n), "reads": sorted(d)[:8]})
        else:
            r4.fail(f"{f.short}:{norm(n)}", g.loc(n), "an assignment to _recv_buffer discards the carried bytes (its value depends neither on the previous buffer nor on the unterminated tail)", [f"value depends on: {sorted(d)[:10]}"])
    # (iv) the decision to split depends on the carried buffer too (a CR LF pair may straddle two reads)
    for g in scope4:
        for n in own_nodes(g.node):
            if isinstance(n, ast.If) and any(isinstance(x, (ast.Yield, ast.YieldFrom)) or (isinstance(x, ast.Assign) and any(norm(t) == BUF for t in x.targets)) for b in n.body for x in ast.walk(b)):
                r4.instances += 1
                r4.nontrivial += 1
                d = deps.of_expr(n.test)
                if BUF in d:
                    r4.ok({"split_condition": norm(n.test), "reads": sorted(x for x in d if "recv" in x or x == "data")})
                else:
                    r4.fail(f"{f.short}:split-condition:{norm(n.test)[:40]}", g.loc(n), f"the condition `{norm(n.test)}` that decides when to cut lines does not depend on the carried buffer: a terminator split across two reads (CR | LF) is not seen until a later read")
    # (iii) no other writer
    others = []
    for g in repo.funcs.values():
        if g in scope4:
            continue
        for n in own_nodes(g.node):
            if isinstance(n, ast.Attribute) and n.attr == "_recv_buffer" and isinstance(n.ctx, (ast.Store, ast.Del)):
                others.append((g, n))
    r4.instances += 1
    r4.nontrivial += 1
    if others:
        for g, n in others:
            r4.fail(f"{g.qualname}:writes-_recv_buffer", g.loc(n), f"{g.short} writes PortTransport._recv_buffer outside _read_ready")
    else:
        r4.ok({"writers_outside__read_ready": 0})
    # (iv) the terminator is looked for in the *carried* bytes: every test for / split at the line terminator (a bytes constant
    # containing \n) has an operand that is, or depends on, the persistent buffer - a terminator whose CR and LF arrive in different
    # reads is only recognised in the concatenation of the carried tail and the new data (flow-sensitive within the closure:
    # an operand that is the bare `data` parameter, before it was appended to the buffer, does not count)
    searched = []
    for g in scope4:
        for n in own_nodes(g.node):
            operand = None
            if isinstance(n, ast.Compare) and len(n.ops) == 1 and isinstance(n.ops[0], (ast.In, ast.NotIn)) and isinstance(n.left, ast.Constant) and isinstance(n.left.value, bytes) and b"\n" in n.left.value:
                operand = n.comparators[0]
            elif isinstance(n, ast.Call) and isinstance(n.func, ast.Attribute) and n.func.attr in ("split", "rsplit", "partition", "rpartition", "find", "index", "endswith") and n.args and isinstance(n.args[0], ast.Constant) and isinstance(n.args[0].value, bytes) and b"\n" in n.args[0].value:
                operand = n.func.value
            if operand is not None:
                searched.append((g, n, operand))
    if not searched:
        raise AnalysisError("PortTransport._read_ready: no search for the line terminator found")
    for g, n, operand in searched:
        r4.instances += 1
        r4.nontrivial += 1
        direct = norm(operand) == BUF
        via_local = isinstance(operand, ast.Name) and operand.id not in {a.arg for a in g.node.args.args} and BUF in deps.of_expr(operand)
        if direct or via_local:
            r4.ok({"terminator_search": norm(n)[:60], "on": "the carried buffer"})
        else:
            r4.fail(f"{f.short}:terminator-searched-in-new-data-only:{norm(n)[:40]}", g.loc(n), f"`{norm(n)[:70]}` looks for the line terminator in `{norm(operand)}`, which is not the carried buffer: a CR/LF pair split across two reads is never recognised, so the frames delivered depend on how the bytes were segmented")
    out.append(r4)

    # ---- R5 -------------------------------------------------------------------------
    # a receive callback that completes a future must not do so twice: set_result()/set_exception() on a done future raises
    # InvalidStateError out of the callback (the closure rules above leave that class to this typestate rule)
    from ..typestate import typestate_rule
    from .common import undefined_locals_rule

    r5 = RuleResult("R5", "future typestate on the receive path", "every set_result()/set_exception() reachable from a receive callback is on the not-done side of a done() test of the same future", min_instances=1)
    reach_rx = sorted(ctx.cg.reachable(entries), key=lambda g: g.qualname)
    n5 = typestate_rule(ctx, r5, [g for g in reach_rx if g.module.name in ("ramses_tx.transport", "ramses_tx.protocol")], policy_input(ctx), "a receive callback")
    if n5 < 1:
        raise AnalysisError("no future completion found on the receive path (PortTransport._pkt_read resolves the signature future)")
    out.append(r5)

    # ---- R6 -------------------------------------------------------------------------
    r6 = RuleResult("R6", "no possibly-unbound local on the receive path", "every local read in a function reachable from the constructors/callbacks is bound on every path (UnboundLocalError is not PacketInvalid)", min_instances=1)
    reach_all = set(ctx.cg.reachable(pkt_entries + msg_entries + entries))
    n6 = undefined_locals_rule(ctx, r6, reach_all, "the receive path")
    r6.info = {"functions_in_scope": len(reach_all), "possibly_undefined_reads_in_repo": len(ctx.tf.undefined), "in_scope": n6}
    if n6 < 1:
        r6.instances += 1  # the scan itself is the instance when the tree has no such read in scope
        r6.nontrivial += 1
        r6.ok({"possibly-unbound reads in scope": 0})
    out.append(r6)
    return out
