"""C19 - The fault-log view tracks the controller's log and never shows an entry twice (structural clauses only)."""

from __future__ import annotations

import ast
from typing import Any

from ..context import Ctx
from ..loader import AnalysisError, FuncInfo, norm, own_nodes
from ..predeval import PredEval, Unsupported
from ..report import RuleResult
from .common import closure_rule, edge_implies, expand, facts_at, module_scope, str_template, xnorm

META = {
    "explanation": (
        "The statement's core - positions are right after every history of replies and announcements - is the integer arithmetic of "
        "FaultLog._insert_into_map and is NOT decided (no pairing/ordering/ownership/table-agreement shape implies it). Decided are "
        "the clauses whose truth is in the shape of the code: "
        "C19.R1 'reading it never raises' as an inductive invariant values(_map) <= keys(_log): every store to the map is the result of "
        "the map builder; every value the builder puts in its result is an old map value or its timestamp argument (placed only where "
        "it is known not to be None); at every builder call with a timestamp, that timestamp is already a key of the log with no log "
        "store in between; every other store to the log either adds or filters on exactly 'key in map.values()'; the views subscript the "
        "log only with map values or the log's own keys. "
        "C19.R2 'no entry that the controller never reported': every value stored in the log is built by FaultLogEntry.from_msg/from_pkt "
        "from the message being handled and keyed by its own timestamp; handle_msg is reached only from the system's 0418 branch. "
        "C19.R3 the decision tables of handle_msg/_process_msg (finite abstract evaluation): an RP null entry (whose idx is always 00) is "
        "never processed from the dispatcher; a message without a log index never touches the map; a null entry truncates the map "
        "(builder called with None); an entry is installed with its timestamp unless the map already holds exactly that timestamp at that index. "
        "C19.R4 retrieval loop: indexes come from a bounded range, each is requested with wait_for_reply=True for this controller, a null "
        "reply is processed only through the index-restoring helper and ends the loop. "
        "C19.R5 nothing can leave the four fault-log views and the system's three wrappers (exception-effect closure, all classes). "
        "C19.R6 the index-restoring helper writes the index at the frame columns / payload offset where the decoder reads it."
    ),
    "assumptions": [
        "timestamps are treated as opaque, totally ordered keys; the shift arithmetic (diff, k + diff) is outside the model",
    ],
}

FL = "ramses_rf.system.faultlog.FaultLog"
REMOVERS = {"pop", "popitem", "clear", "__delitem__"}
ADDERS = {"update", "setdefault"}


def _self_attr(n: ast.AST) -> str | None:
    if isinstance(n, ast.Attribute) and isinstance(n.value, ast.Name) and n.value.id == "self":
        return n.attr
    return None


def _stmt_of(n: ast.AST) -> ast.AST:
    while n is not None and not isinstance(n, ast.stmt):
        n = getattr(n, "parent", None)  # type: ignore[assignment]
    return n


def _discover_attrs(view: FuncInfo) -> tuple[str, str]:
    """(map attr, log attr) from the faultlog view: a comprehension over self.<M>.items() whose value subscripts self.<L>."""
    for n in own_nodes(view.node):
        if isinstance(n, ast.DictComp) and len(n.generators) == 1:
            it = n.generators[0].iter
            if isinstance(it, ast.Call) and isinstance(it.func, ast.Attribute) and it.func.attr in ("items", "values") and _self_attr(it.func.value):
                m = _self_attr(it.func.value)
                for s in ast.walk(n.value):
                    if isinstance(s, ast.Subscript) and _self_attr(s.value):
                        return m, _self_attr(s.value)  # type: ignore[return-value]
    return "_map", "_log"


class _Mapping:
    """What a function puts into a mapping it builds in a local (or returns directly): (stmt, value expr, comprehension or None)."""

    def __init__(self, fn: ast.AST) -> None:
        self.fn = fn
        self.entries: list[tuple[ast.AST, ast.expr, ast.expr | None, Any]] = []  # stmt, key, value, comp
        self.opaque: list[ast.AST] = []

    def add_expr(self, stmt: ast.AST, e: ast.expr) -> None:
        if isinstance(e, ast.Dict):
            for k, v in zip(e.keys, e.values):
                if k is None:  # {**other}
                    self.add_expr(stmt, v)
                else:
                    self.entries.append((stmt, k, v, None))
        elif isinstance(e, ast.DictComp):
            self.entries.append((stmt, e.key, e.value, e))
        elif isinstance(e, ast.Call) and norm(e.func).rsplit(".", 1)[-1] in ("OrderedDict", "dict") and not e.keywords:
            if e.args:
                self.add_expr(stmt, e.args[0])
        elif isinstance(e, ast.BinOp) and isinstance(e.op, ast.BitOr):
            self.add_expr(stmt, e.left)
            self.add_expr(stmt, e.right)
        elif isinstance(e, ast.Name) and e.id in self.locals_:
            pass  # another tracked local: its own entries are collected
        else:
            self.opaque.append(e)

    locals_: set[str] = set()


def _returned_mapping(f: FuncInfo) -> _Mapping:
    """Entries of the mapping(s) a builder function returns."""
    mp = _Mapping(f.node)
    names: set[str] = set()
    direct: list[tuple[ast.AST, ast.expr]] = []
    for n in own_nodes(f.node):
        if isinstance(n, ast.Return) and n.value is not None:
            if isinstance(n.value, ast.Name):
                names.add(n.value.id)
            else:
                direct.append((n, n.value))
    # locals that flow into the returned names by plain assignment / |=
    changed = True
    while changed:
        changed = False
        for n in own_nodes(f.node):
            tgt = val = None
            if isinstance(n, ast.Assign) and len(n.targets) == 1:
                tgt, val = n.targets[0], n.value
            elif isinstance(n, ast.AnnAssign) and n.value is not None:
                tgt, val = n.target, n.value
            elif isinstance(n, ast.AugAssign):
                tgt, val = n.target, n.value
            if isinstance(tgt, ast.Name) and tgt.id in names and val is not None:
                leaves = [val]
                while any(isinstance(x, ast.BinOp) and isinstance(x.op, ast.BitOr) for x in leaves):
                    leaves = [y for x in leaves for y in ([x.left, x.right] if isinstance(x, ast.BinOp) and isinstance(x.op, ast.BitOr) else [x])]
                for x in leaves:
                    if isinstance(x, ast.Name) and x.id not in names and x.id in _assigned_locals(f.node):
                        names.add(x.id)
                        changed = True
    mp.locals_ = names
    for st, e in direct:
        mp.add_expr(st, e)
    for n in own_nodes(f.node):
        if isinstance(n, ast.Assign) and len(n.targets) == 1 and isinstance(n.targets[0], ast.Name) and n.targets[0].id in names:
            mp.add_expr(n, n.value)
        elif isinstance(n, ast.AnnAssign) and isinstance(n.target, ast.Name) and n.target.id in names and n.value is not None:
            mp.add_expr(n, n.value)
        elif isinstance(n, ast.AugAssign) and isinstance(n.target, ast.Name) and n.target.id in names:
            if isinstance(n.op, ast.BitOr):
                mp.add_expr(n, n.value)
            else:
                mp.opaque.append(n)
        elif isinstance(n, ast.Assign) and len(n.targets) == 1 and isinstance(n.targets[0], ast.Subscript) and isinstance(n.targets[0].value, ast.Name) and n.targets[0].value.id in names:
            mp.entries.append((n, n.targets[0].slice, n.value, None))
        elif isinstance(n, ast.Call) and isinstance(n.func, ast.Attribute) and isinstance(n.func.value, ast.Name) and n.func.value.id in names:
            if n.func.attr == "update" and n.args:
                mp.add_expr(_stmt_of(n), n.args[0])
            elif n.func.attr in ("setdefault", "__setitem__") and len(n.args) == 2:
                mp.entries.append((_stmt_of(n), n.args[0], n.args[1], None))
            elif n.func.attr in ("items", "values", "keys", "get", "copy", "__contains__", "move_to_end") or n.func.attr in REMOVERS:
                pass
            else:
                mp.opaque.append(n)
    return mp


def _assigned_locals(fn: ast.AST) -> set[str]:
    out = set()
    for n in own_nodes(fn):
        if isinstance(n, ast.Name) and isinstance(n.ctx, ast.Store):
            out.add(n.id)
    return out


_ALIAS_FN: list = [None]  # the function whose single-definition locals may alias self.<attr> (set by check())


def _attr_or_alias(e: ast.AST) -> str | None:
    a = _self_attr(e)
    if a:
        return a
    fn = _ALIAS_FN[0]
    if isinstance(e, ast.Name) and fn is not None:
        from .common import single_defs

        for scope in fn if isinstance(fn, list) else [fn]:
            d = single_defs(scope).get(e.id)
            if d is not None and _self_attr(d):
                return _self_attr(d)
    return None


def _comp_binding(comp: Any, name: str) -> tuple[str, str] | None:
    """For a comprehension variable: ('self.<attr>', 'key'|'value') when it iterates self.<attr>.items()/.values()/keys()/itself
    (or a local that is a plain alias of self.<attr>)."""
    if comp is None:
        return None
    for g in comp.generators:
        it = g.iter
        base = role_k = None
        if isinstance(it, ast.Call) and isinstance(it.func, ast.Attribute) and _attr_or_alias(it.func.value) and not it.args:
            base = _attr_or_alias(it.func.value)
            kind = it.func.attr
        elif _attr_or_alias(it):
            base, kind = _attr_or_alias(it), "keys"
        else:
            continue
        t = g.target
        if kind == "items" and isinstance(t, ast.Tuple) and len(t.elts) == 2:
            if isinstance(t.elts[0], ast.Name) and t.elts[0].id == name:
                return base, "key"  # type: ignore[return-value]
            if isinstance(t.elts[1], ast.Name) and t.elts[1].id == name:
                return base, "value"  # type: ignore[return-value]
        elif kind in ("values", "keys") and isinstance(t, ast.Name) and t.id == name:
            return base, "value" if kind == "values" else "key"  # type: ignore[return-value]
        _ = role_k
    return None


def _enclosing_comps(n: ast.AST) -> list[Any]:
    out = []
    p = getattr(n, "parent", None)
    while p is not None and not isinstance(p, (ast.FunctionDef, ast.AsyncFunctionDef)):
        if isinstance(p, (ast.DictComp, ast.ListComp, ast.SetComp, ast.GeneratorExp)):
            out.append(p)
        p = getattr(p, "parent", None)
    return out


def _elem_source(fn: ast.AST, e: ast.expr, M: str, L: str, depth: int = 4) -> str:
    """Where the value of a key expression comes from: 'map-value', 'log-key', or 'other'."""
    if depth <= 0:
        return "other"
    if isinstance(e, ast.Name):
        for comp in _enclosing_comps(e):
            b = _comp_binding(comp, e.id)
            if b:
                if b == (M, "value"):
                    return "map-value"
                if b == (L, "key"):
                    return "log-key"
                return "other"
        # an enclosing for loop
        p = getattr(e, "parent", None)
        while p is not None and not isinstance(p, (ast.FunctionDef, ast.AsyncFunctionDef)):
            if isinstance(p, ast.For):
                fake = type("C", (), {"generators": [type("G", (), {"iter": p.iter, "target": p.target})()]})()
                b = _comp_binding(fake, e.id)
                if b == (M, "value"):
                    return "map-value"
                if b == (L, "key"):
                    return "log-key"
            p = getattr(p, "parent", None)
        from .common import single_defs

        d = single_defs(fn).get(e.id)
        if d is not None and not (isinstance(d, (ast.List, ast.Tuple)) and not d.elts):
            return _elem_source(fn, d, M, L, depth - 1)
        # a list filled by `.append(x)` only: what is appended
        apps = [c for c in ast.walk(fn) if isinstance(c, ast.Call) and isinstance(c.func, ast.Attribute) and c.func.attr in ("append", "add") and isinstance(c.func.value, ast.Name) and c.func.value.id == e.id and c.args]
        if apps and d is not None:
            srcs0 = [_elem_source(fn, c.args[0], M, L, depth - 1) for c in apps]
            if all(x == srcs0[0] for x in srcs0) and srcs0[0] != "other":
                return srcs0[0]
        # a parameter of a private helper of the class: what every call site in the class passes for it
        if isinstance(fn, (ast.FunctionDef, ast.AsyncFunctionDef)):
            params = [a.arg for a in fn.args.posonlyargs + fn.args.args if a.arg not in ("self", "cls")]
            if e.id in params:
                idx = params.index(e.id)
                srcs = []
                for caller in _ALIAS_FN[0] or []:
                    for c in ast.walk(caller):
                        if isinstance(c, ast.Call) and isinstance(c.func, ast.Attribute) and c.func.attr == fn.name and isinstance(c.func.value, ast.Name) and c.func.value.id in ("self", "cls"):
                            arg = c.args[idx] if idx < len(c.args) else next((k.value for k in c.keywords if k.arg == e.id), None)
                            srcs.append(_elem_source(caller, arg, M, L, depth - 1) if arg is not None else "other")
                if srcs and all(x == srcs[0] for x in srcs) and srcs[0] != "other":
                    return srcs[0]
        return "other"
    if isinstance(e, ast.Call) and norm(e.func) in ("max", "min", "next", "iter", "sorted", "list", "tuple", "set", "reversed") and e.args:
        return _elem_source(fn, e.args[0], M, L, depth - 1)
    if isinstance(e, (ast.GeneratorExp, ast.ListComp, ast.SetComp)):
        if isinstance(e.elt, ast.Name):
            b = _comp_binding(e, e.elt.id)
            if b == (M, "value"):
                return "map-value"
            if b == (L, "key"):
                return "log-key"
        return "other"
    if isinstance(e, ast.Subscript) and isinstance(e.slice, ast.Constant) and isinstance(e.slice.value, int):
        return _elem_source(fn, e.value, M, L, depth - 1)
    if isinstance(e, ast.Subscript) and _self_attr(e.value) == M:
        return "map-value"
    if isinstance(e, ast.Call) and isinstance(e.func, ast.Attribute) and _self_attr(e.func.value) in (M, L) and e.func.attr in ("values", "keys") and not e.args:
        return "map-value" if (_self_attr(e.func.value), e.func.attr) == (M, "values") else ("log-key" if (_self_attr(e.func.value), e.func.attr) == (L, "keys") else "other")
    if _self_attr(e) == L:
        return "log-key"
    return "other"


class _Discharge:
    """Oracles + two local discharges for the fault-log views: max()/min() of a collection a dominating test proved non-empty, and
    log subscripts whose key R1 shows to be present."""

    def __init__(self, o: Any, M: str, L: str) -> None:
        self.__dict__["o"] = o
        self.__dict__["M"] = M
        self.__dict__["L"] = L

    def __setattr__(self, k: str, v: Any) -> None:
        self.__dict__[k] = v
        if k == "ea":
            self.o.ea = v

    def discharge(self, f: FuncInfo, node: ast.AST, cls: str, detail: str = "") -> str | None:
        if cls.endswith("ValueError") and isinstance(node, ast.Call) and norm(node.func) in ("max", "min") and len(node.args) == 1:
            subj = _emptiness_subject(f.node, node.args[0])
            if subj is not None:
                st = _stmt_of(node)
                goal = ast.parse(subj, mode="eval").body
                if any(edge_implies(expand(f.node, t), tv, goal) for t, tv in facts_at(st)):
                    return f"{norm(node)[:40]}: `{subj}` is known to be non-empty here"
        if cls.endswith("KeyError") and isinstance(node, ast.Subscript) and _self_attr(node.value) == self.L and f.qualname.startswith(FL + "."):
            if _elem_source(f.node, node.slice, self.M, self.L) in ("map-value", "log-key"):
                return "the key is a map value / one of the log's own keys (C19.R1)"
        return self.o.discharge(f, node, cls, detail)


def _emptiness_subject(fn: ast.AST, e: ast.expr) -> str | None:
    """The collection whose non-emptiness makes max(e)/min(e) safe: e itself, or what an unfiltered comprehension iterates."""
    if isinstance(e, ast.Name):
        from .common import single_defs

        d = single_defs(fn).get(e.id)
        if d is not None and isinstance(d, (ast.Attribute, ast.Call)) and _emptiness_subject(fn, d) not in (None, norm(e)):
            return _emptiness_subject(fn, d) if isinstance(d, ast.Call) and isinstance(d.func, ast.Attribute) and d.func.attr in ("keys", "values", "items") else norm(e)
        return norm(e)
    if isinstance(e, ast.Attribute):
        return norm(e)
    if isinstance(e, ast.Call) and isinstance(e.func, ast.Attribute) and e.func.attr in ("keys", "values", "items") and not e.args:
        return _emptiness_subject(fn, e.func.value)
    if isinstance(e, ast.Call) and norm(e.func) in ("list", "tuple", "sorted", "set", "reversed", "iter") and len(e.args) == 1:
        return _emptiness_subject(fn, e.args[0])
    if isinstance(e, (ast.GeneratorExp, ast.ListComp, ast.SetComp)) and len(e.generators) == 1 and not e.generators[0].ifs:
        it = e.generators[0].iter
        if isinstance(it, ast.Call) and isinstance(it.func, ast.Attribute) and it.func.attr in ("keys", "values", "items") and not it.args:
            it = it.func.value
        if isinstance(it, (ast.Name, ast.Attribute)):
            return norm(it)
    return None


def _policy(ctx: Ctx, M: str, L: str) -> Any:
    from ..exc import Policy
    from .common import policy_input

    policy_input(ctx)
    if not hasattr(ctx, "_c19_disch"):
        ctx._c19_disch = _Discharge(ctx._oracles, M, L)  # type: ignore[attr-defined]
    d = ctx._c19_disch  # type: ignore[attr-defined]
    return Policy(count_assert="input", name="faultlog-views", discharge=d.discharge, nonzero=ctx._oracles.nonzero, implicit_only_tainted=False, count_dt_edge=False, count_index=True)  # type: ignore[attr-defined]


def check(ctx: Ctx) -> list[RuleResult]:
    repo = ctx.repo
    out: list[RuleResult] = []
    fl = repo.cls(FL)
    methods = [f for f in repo.funcs.values() if f.qualname.startswith(fl.fullname + ".") and f.parent is None]
    view = repo.func(f"{FL}.faultlog")
    M, L = _discover_attrs(view)
    _ALIAS_FN[0] = [m.node for m in methods]
    init = repo.func(f"{FL}.__init__")

    # ------------------------------------------------------------------------------------------------------------------
    r1 = RuleResult("R1", "view coherence: every mapped timestamp is a key of the log", f"inductive invariant values(self.{M}) <= keys(self.{L}) over every store, so the faultlog view's subscripts cannot raise KeyError", min_instances=9)
    map_stores: list[tuple[FuncInfo, ast.AST, ast.expr | None]] = []
    log_stores: list[tuple[FuncInfo, ast.AST, str, Any]] = []  # (f, stmt, kind, payload)
    foreign: list[tuple[FuncInfo, ast.AST]] = []
    for f in repo.funcs.values():
        in_cls = f.qualname.startswith(fl.fullname + ".")
        for n in own_nodes(f.node):
            tgt = val = None
            aug = False
            if isinstance(n, ast.Assign):
                for t in n.targets:
                    for x in (t.elts if isinstance(t, ast.Tuple) else [t]):
                        if isinstance(x, ast.Attribute) and x.attr in (M, L):
                            tgt, val = x, n.value if len(n.targets) == 1 and not isinstance(t, ast.Tuple) else None
                        elif isinstance(x, ast.Subscript) and isinstance(x.value, ast.Attribute) and x.value.attr in (M, L):
                            tgt, val = x, n.value
            elif isinstance(n, ast.AnnAssign) and n.value is not None and isinstance(n.target, ast.Attribute) and n.target.attr in (M, L):
                tgt, val = n.target, n.value
            elif isinstance(n, ast.AugAssign) and isinstance(n.target, ast.Attribute) and n.target.attr in (M, L):
                tgt, val, aug = n.target, n.value, True
            elif isinstance(n, ast.Delete):
                for x in n.targets:
                    base = x.value if isinstance(x, ast.Subscript) else x
                    if isinstance(base, ast.Attribute) and base.attr in (M, L):
                        tgt, val = x, None
            elif isinstance(n, ast.Call) and isinstance(n.func, ast.Attribute) and isinstance(n.func.value, ast.Attribute) and n.func.value.attr in (M, L) and (n.func.attr in REMOVERS or n.func.attr in ADDERS or n.func.attr in ("move_to_end", "__setitem__")):
                tgt, val = n.func.value, n
            if tgt is None:
                continue
            base = tgt.value if isinstance(tgt, ast.Subscript) else tgt
            recv_self = isinstance(base, ast.Attribute) and isinstance(base.value, ast.Name) and base.value.id == "self"
            if not in_cls:
                # another class's own attribute of the same name is not ours; a store through a FaultLog-typed receiver is
                if recv_self or "faultlog" not in norm(base).lower():
                    continue
                foreign.append((f, n))
                continue
            if not recv_self:
                foreign.append((f, n))
                continue
            if f is init:
                continue
            attr = base.attr  # type: ignore[union-attr]
            if attr == M:
                map_stores.append((f, n, val if isinstance(n, (ast.Assign, ast.AnnAssign)) and isinstance(tgt, ast.Attribute) else None))
            else:
                if isinstance(n, ast.Delete) or (isinstance(n, ast.Call) and n.func.attr in REMOVERS):  # type: ignore[union-attr]
                    log_stores.append((f, n, "remove", None))
                elif isinstance(n, ast.AugAssign):
                    log_stores.append((f, n, "add" if isinstance(n.op, ast.BitOr) else "other", val))
                elif isinstance(n, ast.Call):
                    log_stores.append((f, n, "add-call", n))
                elif isinstance(tgt, ast.Subscript):
                    log_stores.append((f, n, "add-item", (tgt.slice, val)))
                else:
                    log_stores.append((f, n, "assign", val))
    if not map_stores or not log_stores:
        raise AnalysisError(f"FaultLog: no store to self.{M} / self.{L} outside __init__ was found (stores: {len(map_stores)}/{len(log_stores)})")
    # (a) nobody else writes them
    r1.instances += 1
    r1.nontrivial += 1
    if foreign:
        for f, n in foreign:
            r1.fail(f"foreign-writer:{f.short}", f.loc(n), f"FaultLog.{M}/{L} is written from outside the FaultLog's own methods ({f.short}): the containment invariant is no longer the class's own")
    else:
        r1.ok({"writers_of_map": sorted({f.name for f, _, _ in map_stores}), "writers_of_log": sorted({f.name for f, *_ in log_stores})})

    # (b)+(c) the builder(s): values of the result are old map values or the timestamp parameter (non-None where placed)
    builders: dict[str, FuncInfo] = {}
    installs: list[tuple[FuncInfo, ast.AST, ast.Call, FuncInfo]] = []
    for f, n, val in map_stores:
        r1.instances += 1
        r1.nontrivial += 1
        call = val
        if isinstance(call, ast.Name):
            from .common import single_defs

            call = single_defs(f.node).get(call.id)
        b = None
        if isinstance(call, ast.Call) and isinstance(call.func, ast.Attribute) and _self_attr(call.func) is not None:
            b = fl.find(call.func.attr)
        if b is None:
            r1.fail(f"{f.short}:map-store:{norm(n)[:60]}", f.loc(n), f"self.{M} is stored with something other than the result of the FaultLog's map builder: the values it then holds are not known to be keys of self.{L}")
            continue
        builders[b.qualname] = b
        installs.append((f, n, call, b))  # type: ignore[arg-type]
        r1.ok({"store": f"{f.short}: {norm(n)[:80]}", "builder": b.short})
    for b in builders.values():
        params = [a.arg for a in b.node.args.args if a.arg != "self"]
        if len(params) < 2:
            raise AnalysisError(f"{b.short}: expected (idx, dtm) parameters")
        dtm_p = params[1]
        mp = _returned_mapping(b)
        if not mp.entries:
            raise AnalysisError(f"{b.short}: the returned mapping's construction was not understood")
        for x in mp.opaque:
            r1.instances += 1
            r1.nontrivial += 1
            r1.fail(f"{b.short}:opaque:{norm(x)[:60]}", b.loc(x), f"the map builder's result is extended by `{norm(x)[:80]}`, whose values are not known to be keys of self.{L}")
        for st, _k, v, comp in mp.entries:
            r1.instances += 1
            r1.nontrivial += 1
            src = "other"
            ve = expand(b.node, v)
            if isinstance(v, ast.Name) and comp is not None and _comp_binding(comp, v.id) == (M, "value"):
                src = "map-value"
            elif isinstance(v, ast.Name) and _elem_source(b.node, v, M, L) == "map-value":
                src = "map-value"  # the loop form of the same comprehension: for k, v in self._map.items(): new[k'] = v
            elif isinstance(ve, ast.Name) and ve.id == dtm_p:
                src = "param"
            elif isinstance(ve, ast.Subscript) and _self_attr(ve.value) == M:
                src = "map-value"
            if src == "map-value":
                r1.ok({"builder_entry": norm(st)[:90], "value": "an old map value"})
            elif src == "param":
                goal = ast.parse(f"{dtm_p} is not None", mode="eval").body
                known = any(edge_implies(expand(b.node, t), tv, goal) for t, tv in facts_at(st))
                if known:
                    r1.ok({"builder_entry": norm(st)[:90], "value": f"the {dtm_p} argument, known not to be None here"})
                else:
                    r1.fail(f"{b.short}:none-into-map", b.loc(st), f"the builder can place its `{dtm_p}` argument into the map where it may be None (null entry): the faultlog view would then raise KeyError on self.{L}[None]")
            else:
                r1.fail(f"{b.short}:value:{norm(v)[:50]}", b.loc(st), f"the builder puts `{norm(v)[:60]}` into the map: neither an old map value nor its timestamp argument, so not known to be a key of self.{L}")
    # (d) at each builder call with a timestamp, the timestamp is a key of the log, with no log store in between
    pol = _policy(ctx, M, L)
    n_ts = 0
    for f, n, call, b in installs:
        arg = call.args[1] if len(call.args) > 1 else next((k.value for k in call.keywords if k.arg == [a.arg for a in b.node.args.args if a.arg != "self"][1]), None)
        if arg is None:
            raise AnalysisError(f"{f.short}: builder call without a timestamp argument: {norm(call)}")
        if isinstance(arg, ast.Constant) and arg.value is None:
            continue
        n_ts += 1
        r1.instances += 1
        r1.nontrivial += 1
        key = xnorm(f.node, arg)
        cfg = ctx.cfg(f, pol)
        me = [x for x in cfg.nodes if x.kind == "stmt" and x.ast is n]
        if not me:
            raise AnalysisError(f"{f.short}: the map store is not a CFG statement")
        doms = cfg.dominators()[me[0].id]
        adders = []
        for f2, n2, kind, pay in log_stores:
            if f2 is not f or kind not in ("add", "add-item", "add-call"):
                continue
            keys = []
            if kind == "add" and isinstance(pay, ast.Dict):
                keys = [xnorm(f.node, k) for k in pay.keys if k is not None]
            elif kind == "add-item":
                keys = [xnorm(f.node, pay[0])]
            elif kind == "add-call" and pay.func.attr in ("setdefault", "__setitem__") and pay.args:
                keys = [xnorm(f.node, pay.args[0])]
            elif kind == "add-call" and pay.func.attr == "update" and pay.args and isinstance(pay.args[0], ast.Dict):
                keys = [xnorm(f.node, k) for k in pay.args[0].keys if k is not None]
            if key not in keys:
                continue
            st2 = _stmt_of(n2)
            nodes2 = [x for x in cfg.nodes if x.kind == "stmt" and x.ast is st2]
            if not nodes2:
                continue
            a = nodes2[0]
            if a.id in doms:
                adders.append((a, "unconditional"))
                continue
            # `if key not in self.L: <add>` where the test dominates the store: the key is present on both arms
            p = getattr(st2, "parent", None)
            if isinstance(p, ast.If) and st2 in p.body and not p.orelse:
                goal = ast.parse(f"{key} not in self.{L}", mode="eval").body
                if edge_implies(expand(f.node, p.test), True, goal) and edge_implies(expand(f.node, p.test), False, ast.parse(f"{key} in self.{L}", mode="eval").body):
                    tn = [x for x in cfg.nodes if x.kind == "test" and x.ast is p.test]
                    if tn and tn[0].id in doms:
                        adders.append((a, "guarded by `not in`"))
        # also: the fact `key in self.L` known structurally (an early return on `not in`)
        known = any(edge_implies(expand(f.node, t), tv, ast.parse(f"{key} in self.{L}", mode="eval").body) for t, tv in facts_at(n))
        if not adders and not known:
            r1.fail(f"{f.short}:install-without-entry", f.loc(n), f"`{norm(n)[:80]}` installs the timestamp `{key}` into the map on a path where it was not first made a key of self.{L}: the faultlog view would raise KeyError")
            continue
        # no other log store between the add and the install
        bad_between = []
        for a, _how in adders:
            fwd = cfg.reachable_from(a.id)
            for f2, n2, kind, _pay in log_stores:
                if f2 is not f:
                    continue
                st2 = _stmt_of(n2)
                for x in cfg.nodes:
                    if x.kind == "stmt" and x.ast is st2 and x.id != a.id and x.id in fwd and me[0].id in cfg.reachable_from(x.id) and x.id != me[0].id and kind not in ("add", "add-item", "add-call"):
                        bad_between.append(x)
        if bad_between:
            x = bad_between[0]
            r1.fail(f"{f.short}:log-store-before-install", f.loc(x.ast), f"self.{L} is re-assigned/filtered between adding `{key}` and installing it into the map: the new timestamp is in no old map and would be filtered out, and the view would raise KeyError")
        else:
            r1.ok({"install": norm(n)[:80], "timestamp_is_a_log_key": [h for _a, h in adders] or ["known from an earlier test"]})
    if n_ts < 1:
        raise AnalysisError("no builder call with a timestamp argument was found")
    # (f) no stale entries: after every store to the map, every path to a normal exit of that function passes a filter of the log
    #     (the statement itself, or a call of a FaultLog method in which every path from entry to a normal exit passes one) -
    #     otherwise latest_event/latest_fault/active_faults, which read the log, keep showing entries the map has dropped
    filter_stmts = {id(n): f for f, n, kind, pay in log_stores if kind == "assign" and isinstance(pay, ast.DictComp)}
    if filter_stmts:
        pruners: set[str] = set()
        for hf in {f for f in filter_stmts.values()}:
            hcfg = ctx.cfg(hf, pol)
            leaks_h = [e for e in hcfg.exits_reachable_without(hcfg.entry.id, lambda x: x.kind == "stmt" and id(x.ast) in filter_stmts, skip_start_exc=False) if e[0].kind == "exit"]
            if not leaks_h:
                pruners.add(hf.name)

        def _passes_filter(x: Any) -> bool:
            if x.kind != "stmt" or x.ast is None:
                return False
            if id(x.ast) in filter_stmts:
                return True
            return any(isinstance(c, ast.Call) and isinstance(c.func, ast.Attribute) and norm(c.func.value) == "self" and c.func.attr in pruners for c in ast.walk(x.ast))

        for f, n, _val in map_stores:
            if f.name == "__init__":
                continue
            # a store inside a helper that builds/returns the map for its caller is judged at the caller's store
            fcfg = ctx.cfg(f, pol)
            me_f = [x for x in fcfg.nodes if x.kind == "stmt" and x.ast is n]
            if not me_f:
                continue
            r1.instances += 1
            r1.nontrivial += 1
            leaks_f = [e for e in fcfg.exits_reachable_without(me_f[0].id, _passes_filter, skip_start_exc=True) if e[0].kind == "exit"]
            if leaks_f:
                ex_node = leaks_f[0][1][-2] if len(leaks_f[0][1]) >= 2 else leaks_f[0][0]
                r1.fail(f"{f.short}:map-store-without-log-filter", f.loc(n), f"after `{norm(n)[:70]}` a normal exit of {f.short} (via line {getattr(ex_node.ast, 'lineno', '?')}) is reachable without filtering self.{L} down to the mapped timestamps (a pruning helper counts only if all its paths prune): entries the map has dropped stay in the log, and latest_event/latest_fault/active_faults keep reporting them")
            else:
                r1.ok({"map_store": norm(n)[:70], "then": "log filtered on every path to a normal exit", "pruning_helpers": sorted(pruners)})
    # (e) every other store to the log keeps all mapped keys
    for f, n, kind, pay in log_stores:
        if kind in ("add", "add-item", "add-call"):
            continue
        r1.instances += 1
        r1.nontrivial += 1
        if kind == "assign" and isinstance(pay, ast.DictComp) and len(pay.generators) == 1:
            g = pay.generators[0]
            kb = _comp_binding(pay, pay.key.id) if isinstance(pay.key, ast.Name) else None
            vb = _comp_binding(pay, pay.value.id) if isinstance(pay.value, ast.Name) else None
            if kb == (L, "key") and vb == (L, "value"):
                kname = pay.key.id  # type: ignore[union-attr]
                accepted = {f"{kname} in self.{M}.values()", f"{kname} in set(self.{M}.values())", f"{kname} in list(self.{M}.values())", f"{kname} in tuple(self.{M}.values())"}
                tests = [xnorm(f.node, t) for t in g.ifs]
                # `k in dtms` with `dtms = set(self._map.values())` hoisted just before the filter (same block, nothing that
                # touches self between the two statements) is the same test
                if len(tests) == 1 and len(g.ifs) == 1 and isinstance(g.ifs[0], ast.Compare) and len(g.ifs[0].ops) == 1 and isinstance(g.ifs[0].ops[0], ast.In) and isinstance(g.ifs[0].comparators[0], ast.Name):
                    alias = g.ifs[0].comparators[0].id
                    blk = getattr(getattr(n, "parent", None), "body", None)
                    if isinstance(blk, list) and n in blk:
                        i_n = blk.index(n)
                        defs_ = [i for i, st in enumerate(blk[:i_n]) if isinstance(st, ast.Assign) and len(st.targets) == 1 and isinstance(st.targets[0], ast.Name) and st.targets[0].id == alias]
                        n_defs = sum(1 for x in ast.walk(f.node) if isinstance(x, ast.Name) and x.id == alias and isinstance(x.ctx, ast.Store))
                        if len(defs_) == 1 and n_defs == 1 and not any("self" in {y.id for y in ast.walk(st) if isinstance(y, ast.Name)} for st in blk[defs_[0] + 1 : i_n]):
                            tests = [f"{norm(g.ifs[0].left)} in {norm(blk[defs_[0]].value)}"]
                if len(tests) == 1 and tests[0] in accepted:
                    # the filter must see the map it is to agree with: no map store after it on the way out
                    cfg = ctx.cfg(f, pol)
                    me = [x for x in cfg.nodes if x.kind == "stmt" and x.ast is n]
                    later = []
                    if me:
                        fwd = cfg.reachable_from(me[0].id)
                        for f2, n2, _v in map_stores:
                            if f2 is f:
                                later += [x for x in cfg.nodes if x.kind == "stmt" and x.ast is n2 and x.id in fwd and x.id != me[0].id]
                    r1.ok({"filter": norm(n)[:100], "keeps": "every key that is a map value", "map_stores_after_it": len(later)})
                    continue
                if not tests:
                    r1.ok({"copy": norm(n)[:100]})
                    continue
                r1.fail(f"{f.short}:log-filter:{'&'.join(tests)[:80]}", f.loc(n), f"self.{L} is filtered on `{' and '.join(tests)[:100]}`, not on exactly 'key in self.{M}.values()': a timestamp still in the map can lose its entry, and the faultlog view would raise KeyError")
                continue
        r1.fail(f"{f.short}:log-store:{kind}", f.loc(n), f"`{norm(n)[:80]}` removes or replaces entries of self.{L} without regard to the map: a mapped timestamp can lose its entry (KeyError in the faultlog view)")
    # (f) the views subscript the log only with map values or the log's own keys
    n_sub = 0
    for f in methods:
        for n in own_nodes(f.node):
            if isinstance(n, ast.Subscript) and _self_attr(n.value) == L and isinstance(n.ctx, ast.Load):
                n_sub += 1
                r1.instances += 1
                r1.nontrivial += 1
                src = _elem_source(f.node, n.slice, M, L)
                if src in ("map-value", "log-key"):
                    r1.ok({"subscript": f"{f.short}: {norm(n)[:70]}", "key_is": src})
                else:
                    r1.fail(f"{f.short}:subscript:{norm(n.slice)[:50]}", f.loc(n), f"`{norm(n)[:70]}` subscripts the log with a key that is neither a map value nor one of the log's own keys: KeyError is possible")
    if n_sub < 1:
        raise AnalysisError("no subscript of the log in any FaultLog method: the views were not found")
    out.append(r1)

    # ------------------------------------------------------------------------------------------------------------------
    r2 = RuleResult("R2", "provenance of log entries", "every entry stored in the log is built from the message being handled and keyed by its own timestamp; handle_msg is reached only under a 0418 test", min_instances=2)
    fle = repo.cls("ramses_rf.system.faultlog.FaultLogEntry")
    from .common import single_defs

    for f, n, kind, pay in log_stores:
        if kind not in ("add", "add-item", "add-call"):
            continue
        pairs: list[tuple[ast.expr, ast.expr]] = []
        if kind == "add" and isinstance(pay, ast.Dict):
            pairs = [(k, v) for k, v in zip(pay.keys, pay.values) if k is not None]
        elif kind == "add-item":
            pairs = [pay]
        elif kind == "add-call" and len(pay.args) == 2:
            pairs = [(pay.args[0], pay.args[1])]
        elif kind == "add-call" and pay.args and isinstance(pay.args[0], ast.Dict):
            pairs = [(k, v) for k, v in zip(pay.args[0].keys, pay.args[0].values) if k is not None]
        r2.instances += 1
        if not pairs:
            r2.nontrivial += 1
            r2.fail(f"{f.short}:log-add:{norm(n)[:50]}", f.loc(n), f"`{norm(n)[:80]}` adds entries to the log whose origin is not visible: they may not be entries the controller reported")
            continue
        params = {a.arg for a in f.node.args.args}
        defs = single_defs(f.node)
        for k, v in pairs:
            r2.nontrivial += 1
            vd = defs.get(v.id) if isinstance(v, ast.Name) else v
            ok_v = isinstance(vd, ast.Call) and isinstance(vd.func, ast.Attribute) and vd.func.attr in ("from_msg", "from_pkt") and norm(vd.func.value).rsplit(".", 1)[-1] == fle.name and vd.args and all(isinstance(x, ast.Name) and x.id in params or (isinstance(x, ast.Attribute) and isinstance(x.value, ast.Name) and x.value.id in params) for x in vd.args[:1])
            ke = expand(f.node, k)
            ok_k = isinstance(ke, ast.Attribute) and ke.attr == "timestamp" and norm(ke.value) == norm(v)
            if ok_v and ok_k:
                r2.ok({"add": norm(n)[:80], "value": norm(vd)[:60], "key": norm(ke)})
            elif not ok_v:
                r2.fail(f"{f.short}:log-value:{norm(v)[:40]}", f.loc(n), f"the log entry `{norm(v)[:50]}` is not FaultLogEntry.from_msg/from_pkt of the message being handled: the view could show an entry the controller never reported")
            else:
                r2.fail(f"{f.short}:log-key:{norm(k)[:40]}", f.loc(n), f"the log entry is stored under `{norm(ke)[:50]}`, not under its own timestamp: map positions would resolve to another entry")
    # who may call handle_msg: only under a code == 0418 test
    hm = repo.func(f"{FL}.handle_msg")
    callers = [(cf, c) for cf in repo.funcs.values() for c in own_nodes(cf.node) if isinstance(c, ast.Call) and isinstance(c.func, ast.Attribute) and c.func.attr == hm.name and "faultlog" in norm(c.func.value).lower()]
    if not callers:
        raise AnalysisError("no caller of FaultLog.handle_msg found")
    code_0418 = ctx.const("ramses_tx.const", "Code")
    for cf, c in callers:
        r2.instances += 1
        r2.nontrivial += 1
        st = _stmt_of(c)
        marg = norm(c.args[0]) if c.args else "msg"
        goals = [f"{marg}.code == Code._0418", f"{marg}.code == '0418'"]
        known = any(edge_implies(expand(cf.node, t), tv, ast.parse(g, mode="eval").body) for t, tv in facts_at(st) for g in goals)
        if known:
            r2.ok({"caller": cf.short, "under": f"{marg}.code == 0418"})
        else:
            r2.fail(f"{cf.short}:handle_msg-unguarded", cf.loc(c), "FaultLog.handle_msg is called without a dominating test that the message is an 0418: any other message with a log_idx-like payload would be taken for a log entry")
    _ = code_0418
    out.append(r2)

    # ------------------------------------------------------------------------------------------------------------------
    r3 = RuleResult("R3", "handler decision tables", "handle_msg ignores an RP null entry; _process_msg: no index -> no change, null entry -> truncate, an entry is installed unless the map already holds its timestamp at that index", min_instances=4)
    I_ = ctx.const("ramses_tx.const", "I_")
    RP = ctx.const("ramses_tx.const", "RP")
    pm = repo.func(f"{FL}._process_msg")
    try:
        th = PredEval(ctx, hm, domains={"msg.verb": [I_, RP]}).table()
        tp = PredEval(ctx, pm, domains={"msg.verb": [I_, RP]}).table()
    except Unsupported as err:
        raise AnalysisError(f"FaultLog.handle_msg/_process_msg is not a decision procedure the evaluator understands: {err}") from err
    null_subj = [s for s in th.subjects if s.endswith("[SZ_LOG_ENTRY]") or "log_entry" in s.lower()]
    if "msg.verb" not in th.subjects or not null_subj:
        raise AnalysisError(f"handle_msg: the verb / null-entry tests were not found (subjects {list(th.subjects)}, atoms {th.atoms})")
    NS = null_subj[0]

    def processed(eff: tuple) -> bool:
        return any(f"self.{pm.name}(" in e for e in eff)

    r3.instances += 1
    r3.nontrivial += 1
    bad = [a for a, r in th.rows if a["msg.verb"] == RP and a[NS] is None and processed(a["__effects__"])]
    if bad:
        r3.fail(f"{hm.short}:rp-null-processed", hm.loc(), "an RP whose log entry is null is processed: such a reply always carries idx 00 whatever index was asked for, so the map is truncated to nothing although the controller holds entries", [th.describe({k: v for k, v in bad[0].items() if k != "__effects__"})[:300]])
    else:
        r3.ok({"RP null entry from the dispatcher": "ignored"})
    r3.instances += 1
    r3.nontrivial += 1
    lost = [a for a, r in th.rows if a["msg.verb"] in (I_, RP) and not (a["msg.verb"] == RP and a[NS] is None) and not processed(a["__effects__"]) and not (isinstance(r, tuple) and r and r[0] == "raise") and a.get("msg.code", "0418") == "0418"]
    if lost:
        r3.fail(f"{hm.short}:entry-dropped", hm.loc(), "an I/RP 0418 other than the RP null entry is not processed: the view would miss an entry the controller reported", [th.describe({k: v for k, v in lost[0].items() if k != "__effects__"})[:300]])
    else:
        r3.ok({"every other I/RP": "processed"})
    # _process_msg
    bname = next(iter(builders.values())).name
    idx_atom = [a for a in tp.atoms if a.endswith("in msg.payload")]
    same_atom = [a for a in tp.atoms if f"self.{M}.get(" in a and "==" in a]
    ns2 = [s for s in tp.subjects if s.endswith("[SZ_LOG_ENTRY]") or "log_entry" in s.lower()]
    if not idx_atom or not ns2:
        raise AnalysisError(f"_process_msg: expected tests not found (subjects {list(tp.subjects)}, atoms {tp.atoms})")
    IA, NS2 = idx_atom[0], ns2[0]
    SA = same_atom[0] if same_atom else None

    def built(eff: tuple) -> list[str]:
        return [e for e in eff if f"self.{bname}(" in e]

    def with_ts(e: tuple) -> bool:
        return len(built(e)) == 1 and not built(e)[0].rstrip(")").endswith("None")

    # an equality between what the map holds at idx and the entry's timestamp: "already there" - the only reason not to install
    checks = [
        ("no-index", lambda a: not a[IA], lambda a: not built(a["__effects__"]), "a message without a log index reaches the map builder"),
        ("null-entry", lambda a: a[IA] and a[NS2] is None, lambda a: len(built(a["__effects__"])) == 1 and built(a["__effects__"])[0].rstrip(")").endswith("None"), "a null entry (no further entries) does not truncate the map through the builder with a None timestamp"),
        ("install", lambda a: a[IA] and a[NS2] is not None, lambda a: with_ts(a["__effects__"]) or (SA is not None and a[SA] and not built(a["__effects__"])), "an entry that is not already at its position is not installed through the builder with its timestamp (the view misses or misplaces an entry the controller reported)"),
    ]
    for name, sel, want, msg in checks:
        r3.instances += 1
        r3.nontrivial += 1
        rows = [a for a, r in tp.rows if sel(a) and not (isinstance(r, tuple) and r and r[0] == "raise")]
        if not rows:
            raise AnalysisError(f"_process_msg: no decision-table row for case {name}")
        bad = [a for a in rows if not want(a)]
        if bad:
            r3.fail(f"{pm.short}:{name}", pm.loc(), f"_process_msg: {msg}", [tp.describe({k: v for k, v in bad[0].items() if k != "__effects__"})[:300], f"calls made: {list(bad[0]['__effects__'])}"])
        else:
            r3.ok({"case": name, "rows": len(rows)})
    r3.info = {"handle_msg_rows": len(th.rows), "_process_msg_rows": len(tp.rows), "atoms": tp.atoms}
    out.append(r3)

    # ------------------------------------------------------------------------------------------------------------------
    r4 = RuleResult("R4", "retrieval loop", "bounded index range; each index requested from this controller with wait_for_reply=True; a null reply goes through the index-restoring helper and ends the loop", min_instances=4)
    gf = repo.func(f"{FL}.get_faultlog")
    loops = [n for n in own_nodes(gf.node) if isinstance(n, (ast.For, ast.AsyncFor))]
    if len(loops) != 1:
        raise AnalysisError(f"get_faultlog: expected one loop, found {len(loops)}")
    lp = loops[0]
    r4.instances += 1
    r4.nontrivial += 1
    it = expand(gf.node, lp.iter, pure_only=False)
    bounded = isinstance(it, ast.Call) and norm(it.func) == "range" and len(it.args) >= 2
    cap = None
    if bounded:
        hi = it.args[1]
        if isinstance(hi, ast.Call) and norm(hi.func) == "min":
            caps = [ctx.consts.eval_in(gf, a) for a in hi.args]
            caps = [c for c in caps if isinstance(c, int)]
            cap = min(caps) if caps else None
        else:
            v = ctx.consts.eval_in(gf, hi)
            cap = v if isinstance(v, int) else None
    if bounded and cap is not None and cap <= 64:
        r4.ok({"loop": norm(lp.iter), "index_cap": cap})
    else:
        r4.fail(f"{gf.short}:unbounded-range", gf.loc(lp), f"get_faultlog's index loop `{norm(lp.iter)[:80]}` is not capped by a constant <= 64 (the log has 64 positions, the decoder's RQ regex admits 00..3F): the retrieval need not end / builds requests the library's decoder rejects")
    loopvar = lp.target.id if isinstance(lp.target, ast.Name) else None
    sends = [c for c in ast.walk(lp) if isinstance(c, ast.Call) and isinstance(c.func, ast.Attribute) and c.func.attr == "async_send_cmd"]
    builds = [c for c in ast.walk(lp) if isinstance(c, ast.Call) and isinstance(c.func, ast.Attribute) and c.func.attr == "get_system_log_entry"]
    if not sends or not builds or loopvar is None:
        raise AnalysisError("get_faultlog: the request construction / send was not found in the loop")
    for c in builds:
        r4.instances += 1
        r4.nontrivial += 1
        a = [xnorm(gf.node, x) for x in c.args] + [f"{k.arg}={xnorm(gf.node, k.value)}" for k in c.keywords]
        ctl_ok = a and a[0] in ("self.id", "self._tcs.id", "self._tcs.ctl.id")
        idx_ok = len(a) > 1 and a[1] in (loopvar, f"log_idx={loopvar}")
        if ctl_ok and idx_ok:
            r4.ok({"request": norm(c), "for": "this controller, the loop's index"})
        else:
            r4.fail(f"{gf.short}:request-args", gf.loc(c), f"the fault-log request is built with ({', '.join(a)}), not (this controller's id, the loop index): the reply would be filed under an index that was not asked for")
    for c in sends:
        r4.instances += 1
        r4.nontrivial += 1
        kw = {k.arg: ctx.consts.eval_in(gf, k.value) for k in c.keywords}
        if kw.get("wait_for_reply") is True:
            r4.ok({"send": norm(c)[:80], "wait_for_reply": True})
        else:
            r4.fail(f"{gf.short}:no-wait-for-reply", gf.loc(c), "the fault-log request is not sent with wait_for_reply=True: the packet returned would be the echo, and a null reply (idx always 00) could not be attributed to the index asked for")
    # null replies: handled through the helper, then break; never by the plain path
    helper = fl.find("_hack_pkt_idx")
    hcalls = [c for c in ast.walk(lp) if isinstance(c, ast.Call) and isinstance(c.func, ast.Attribute) and helper is not None and c.func.attr == helper.name]
    r4.instances += 1
    r4.nontrivial += 1
    if helper is None or not hcalls:
        r4.fail(f"{gf.short}:no-index-restore", gf.loc(lp), "a null reply is no longer passed through the index-restoring helper: it carries idx 00 whatever was asked for, so the whole map would be truncated")
    else:
        st = _stmt_of(hcalls[0])
        blk = getattr(st, "parent", None)
        ends = isinstance(blk, ast.If) and st in blk.body and any(isinstance(x, ast.Break) or isinstance(x, ast.Return) for x in blk.body[blk.body.index(st):])
        null_const = "000000B0000000000000000000007FFFFF7000000000"
        def _lit(t: ast.expr) -> ast.expr:
            """the test with every sub-expression that folds to the null payload replaced by that literal"""
            class _R(ast.NodeTransformer):
                def visit(self, node):  # type: ignore[override]
                    if isinstance(node, (ast.Name, ast.Attribute)):
                        try:
                            v = ctx.consts.eval_in(gf, node)
                        except Exception:  # noqa: BLE001
                            v = None
                        if v == null_const:
                            return ast.Constant(value=null_const)
                    return self.generic_visit(node)
            import copy as _copy

            t2 = ast.parse(norm(t), mode="eval").body
            return _R().visit(t2)

        tested = isinstance(blk, ast.If) and edge_implies(_lit(expand(gf.node, blk.test)), True, ast.parse(f"pkt.payload == '{null_const}'", mode="eval").body)
        plain = [c for c in ast.walk(lp) if isinstance(c, ast.Call) and isinstance(c.func, ast.Attribute) and c.func.attr == pm.name and isinstance(blk, ast.If) and not any(c is y for x in blk.body for y in ast.walk(x))]
        plain_guarded = all(any(edge_implies(_lit(expand(gf.node, t)), tv, ast.parse(f"pkt.payload != '{null_const}'", mode="eval").body) for t, tv in facts_at(_stmt_of(c))) for c in plain)
        if ends and tested and plain_guarded:
            r4.ok({"null reply": "index restored by the helper, processed, loop ends", "other replies": "processed only where the payload is known not to be the null entry"})
        else:
            why = "the loop does not end after it" if not ends else ("the branch is not taken on exactly the null payload" if not tested else "a reply that may be the null entry is also processed by the plain path")
            r4.fail(f"{gf.short}:null-reply-handling", gf.loc(st), f"null-reply handling in get_faultlog: {why}")
    # a read-through reads: no way out of get_faultlog (other than an exception) bypasses the request loop - an answer from what is
    # believed (a cache of "current" entries) is exactly what the clause "whatever was believed before" excludes
    cfg4 = ctx.plain_cfg(gf)
    lp_nodes = [x for x in cfg4.nodes if x.ast is lp or x.ast is lp.iter]
    rets = [x for x in cfg4.nodes if x.kind == "stmt" and isinstance(x.ast, ast.Return)]
    if not lp_nodes or not rets:
        raise AnalysisError("get_faultlog: loop/return nodes not found in the CFG")
    doms4 = cfg4.dominators()
    for rn in rets:
        r4.instances += 1
        r4.nontrivial += 1
        if any(ln.id in doms4[rn.id] for ln in lp_nodes):
            r4.ok({"return": norm(rn.ast)[:60], "after_the_request_loop": True})
        else:
            r4.fail(f"{gf.short}:return-without-reading", gf.loc(rn.ast), f"`{norm(rn.ast)[:60]}` leaves get_faultlog without entering the request loop: the caller is answered from what the library already believed, so after a lost announcement the view no longer equals the controller's log over the range asked for")
    out.append(r4)

    # ------------------------------------------------------------------------------------------------------------------
    r5 = RuleResult("R5", "reading the views never raises", "exception-effect closure (all classes) of FaultLog.faultlog/latest_event/latest_fault/active_faults and Logbook's wrappers", min_instances=6)
    ea = ctx.exc(pol)
    names = ("faultlog", "latest_event", "latest_fault", "active_faults")
    entries = [f for f in methods if f.name in names and f.is_property]
    lb = repo.cls("ramses_rf.system.heat.Logbook")
    entries += [f for f in repo.funcs.values() if f.qualname.startswith(lb.fullname + ".") and f.name in names and f.is_property and f.parent is None]
    if len(entries) < 6:
        raise AnalysisError(f"fault-log views: expected 4 + 3 properties, found {[f.short for f in entries]}")
    closure_rule(ctx, r5, ea, entries, [], "a fault-log view")
    out.append(r5)

    # ------------------------------------------------------------------------------------------------------------------
    r6 = RuleResult("R6", "index-restoring helper agrees with the decoder's layout", "frame columns and payload offset of the rewritten log index = where COMMAND_REGEX puts the payload + where parser_0418 reads log_idx", min_instances=3)
    if helper is None:
        raise AnalysisError("FaultLog._hack_pkt_idx not found")
    from .c02 import layout

    cre = ctx.const("ramses_tx.const", "COMMAND_REGEX") if False else None
    try:
        pat = ctx.consts.get("ramses_tx.frame", "COMMAND_REGEX")
        pat = getattr(pat, "pattern", pat)
    except Exception:  # noqa: BLE001
        pat = None
    if not isinstance(pat, str):
        pat = ctx.consts.get("ramses_tx.const", "COMMAND_REGEX")
        pat = getattr(pat, "pattern", pat)
    if not isinstance(pat, str):
        raise AnalysisError("COMMAND_REGEX does not fold to a pattern")
    pay_col = layout(pat)[-1][0]
    _ = cre
    # where the decoder reads the index: dict entries keyed SZ_LOG_IDX in parser_0418 with a constant payload slice
    p418 = repo.func("ramses_tx.parsers.parser_0418")
    reads = set()
    for g in module_scope(ctx, p418):
        for n in own_nodes(g.node):
            if isinstance(n, ast.Dict):
                for k, v in zip(n.keys, n.values):
                    if k is not None and "LOG_IDX" in norm(k) and isinstance(v, ast.Subscript) and isinstance(v.slice, ast.Slice) and isinstance(v.slice.lower, ast.Constant) and isinstance(v.slice.upper, ast.Constant):
                        reads.add((v.slice.lower.value, v.slice.upper.value))
    if len(reads) != 1:
        raise AnalysisError(f"parser_0418: the log index is read at {sorted(reads)} (expected one constant slice)")
    (a, b), = reads
    # frame surgery: X._frame[:A] + idx + X._frame[B:]
    surg = []
    for n in [x for g_ in [helper] + list(helper.nested.values()) for x in own_nodes(g_.node)]:
        if isinstance(n, ast.BinOp) and isinstance(n.op, ast.Add) and isinstance(n.left, ast.BinOp) and isinstance(n.left.op, ast.Add):
            l, m, r = n.left.left, n.left.right, n.right
            if isinstance(l, ast.Subscript) and isinstance(r, ast.Subscript) and isinstance(l.slice, ast.Slice) and isinstance(r.slice, ast.Slice) and norm(l.value) == norm(r.value) and "frame" in norm(l.value).lower():
                A = ctx.consts.eval_in(helper, l.slice.upper) if l.slice.upper is not None else None
                B = ctx.consts.eval_in(helper, r.slice.lower) if r.slice.lower is not None else None
                surg.append((n, A, B, m))
    if not surg:
        # the same text built another way (join, format, f-string): read it off the string template
        for g_ in [helper] + list(helper.nested.values()):
            for n in own_nodes(g_.node):
                v = n.value if isinstance(n, (ast.Return, ast.Assign)) and getattr(n, "value", None) is not None else None
                if v is None:
                    continue
                parts = str_template(g_.node, v)
                for i3 in range(len(parts) - 2):
                    (k1, t1), (_k2, _t2), (k3, t3) = parts[i3 : i3 + 3]
                    if k1 == "lit" or k3 == "lit":
                        continue
                    try:
                        e1, e3 = ast.parse(t1.split("!")[0], mode="eval").body, ast.parse(t3.split("!")[0], mode="eval").body
                    except SyntaxError:
                        continue
                    if isinstance(e1, ast.Subscript) and isinstance(e3, ast.Subscript) and isinstance(e1.slice, ast.Slice) and isinstance(e3.slice, ast.Slice) and norm(e1.value) == norm(e3.value) and "frame" in norm(e1.value).lower() and e1.slice.upper is not None and e3.slice.lower is not None:
                        A = ctx.consts.eval_in(helper, e1.slice.upper) if not isinstance(e1.slice.upper, ast.Constant) else e1.slice.upper.value
                        B = ctx.consts.eval_in(helper, e3.slice.lower) if not isinstance(e3.slice.lower, ast.Constant) else e3.slice.lower.value
                        surg.append((v, A, B, None))
    if not surg:
        raise AnalysisError("_hack_pkt_idx: the frame rewrite `frame[:A] + idx + frame[B:]` was not found")
    for n, A, B, _m in surg:
        r6.instances += 1
        r6.nontrivial += 1
        if (A, B) == (pay_col + a, pay_col + b):
            r6.ok({"frame rewrite": norm(n)[:80], "columns": [A, B], "payload_column": pay_col, "decoder_reads": [a, b]})
        else:
            r6.fail(f"{helper.short}:frame-columns", helper.loc(n), f"the helper rewrites frame columns {A}:{B}, but the payload starts at column {pay_col} and parser_0418 reads the log index at payload[{a}:{b}] (= frame {pay_col + a}:{pay_col + b})")
    # payload template: literal prefix of length a, then the index
    tmpls = [n for g_ in [helper] + list(helper.nested.values()) for n in own_nodes(g_.node) if isinstance(n, ast.Assign) and len(n.targets) == 1 and isinstance(n.targets[0], ast.Attribute) and n.targets[0].attr == "payload"]
    if not tmpls:
        raise AnalysisError("_hack_pkt_idx: the payload rewrite was not found")
    for n in tmpls:
        r6.instances += 1
        r6.nontrivial += 1
        t = str_template(helper.node, n.value)
        pre = 0
        hole = None
        for kind, txt in t:
            if kind != "lit" and hole is None:
                try:  # a named constant is a literal too
                    cv = ctx.consts.eval_in(helper, ast.parse(txt.split(":")[0], mode="eval").body)
                except Exception:  # noqa: BLE001
                    cv = None
                if isinstance(cv, str):
                    kind, txt = "lit", cv
            if kind == "lit" and hole is None:
                pre += len(txt)
            elif hole is None:
                hole = txt
        if hole is not None and pre == a:
            r6.ok({"payload rewrite": norm(n.value)[:70], "index_at_offset": pre})
        else:
            r6.fail(f"{helper.short}:payload-offset", helper.loc(n), f"the helper writes the index at payload offset {pre}, the decoder reads it at payload[{a}:{b}]")
    # the helper is applied only to the null reply (its premise), from the retrieval loop only
    r6.instances += 1
    r6.nontrivial += 1
    users = [cf.short for cf in repo.funcs.values() for c in own_nodes(cf.node) if isinstance(c, ast.Call) and isinstance(c.func, ast.Attribute) and c.func.attr == helper.name]
    if users == [gf.short]:
        r6.ok({"only caller": gf.short})
    else:
        r6.fail(f"{helper.short}:callers", helper.loc(), f"the index-restoring helper is called from {users}: it may only be applied to the reply of the retrieval loop's own request")
    out.append(r6)
    return out
