"""C06 - Request and reply correlate: echo/reply headers match, distinct contexts differ."""

from __future__ import annotations

import ast

from ..context import Ctx
from ..loader import AnalysisError, norm, own_nodes
from ..report import RuleResult

META = {
    "explanation": (
        "Necessary conditions (that 'the proper reply is recognised' needs the reply a device would send - not decided): "
        "C06.R1 discriminator completeness - every header built by pkt_header joins the code, a verb and a device id, and (outside 1FC9) "
        "appends pkt._ctx whenever it is a string; Frame._ctx depends on the payload for the complex-index codes. "
        "C06.R2 one verb map - the RQ->RP / W->I map of pkt_header(rx_header=True) agrees with dispatcher._check_dst_slug, and I/RP "
        "have no reply header. C06.R3 matching is whole-header equality - in WantEcho/WantRply.pkt_rcvd every transition is dominated by "
        "==/!= tests between the received header and the sent command's tx_header/rx_header (no prefix/in/startswith), with exactly one "
        "enumerated exception (the 0418 null-entry reply, keyed on the literal null payload), and the 18:000730 placeholder is "
        "substituted on both sides."
    ),
}
META["explanation"] += ' C06.R3 credits a guard only when its truth follows from the edge taken (boolean structure). C06.R4: per code, the payload columns of Frame._ctx cover those _pkt_idx reads.'
META["explanation"] += ' C06.R5: decision tables of WantRply.pkt_rcvd and WantEcho.pkt_rcvd - accepted as the reply iff header == rx_header (or the 0418 null-entry) and, before the echo, addressed to the sender.'

FR = "ramses_tx.frame"
F = "ramses_tx.protocol_fsm"
VERB_NAMES = {"I_", "RQ", "RP", "W_"}


def check(ctx: Ctx) -> list[RuleResult]:
    repo = ctx.repo
    out: list[RuleResult] = []
    ph = repo.func(f"{FR}.pkt_header")

    # ---- R1 ---------------------------------------------------------------------------
    r1 = RuleResult("R1", "discriminator completeness of headers", "every header joins code + verb + device id; the context is appended whenever it is a string", min_instances=6)
    # the text each header expression builds (f-string, '|'.join, +, .format alike; locals copy-propagated), in pkt_header and in
    # whatever same-module helper part of it has been extracted into
    from .common import expand as _expand, module_scope, pool, str_template

    ph_scope = [g for g in module_scope(ctx, ph) if g is ph or any(cs.caller is ph and g in cs.callees for cs in ctx.cg.calls_in(ph) if cs.kind == "call")]

    def _fields(tpl: list) -> "list[list[tuple[str, str]]]":
        flds: list[list[tuple[str, str]]] = [[]]
        for k, v in tpl:
            if k == "lit":
                segs = v.split("|")
                for i, sg in enumerate(segs):
                    if i:
                        flds.append([])
                    if sg:
                        flds[-1].append(("lit", sg))
            else:
                flds[-1].append((k, v))
        return flds

    builds = []  # (function, node, fields)
    for g, n in pool(ph_scope):
        if isinstance(n, (ast.JoinedStr, ast.BinOp, ast.Call)) and not isinstance(getattr(n, "parent", None), (ast.JoinedStr, ast.FormattedValue, ast.BinOp)):
            if isinstance(n, ast.Call) and not (isinstance(n.func, ast.Attribute) and n.func.attr in ("join", "format")):
                continue
            if isinstance(n, ast.BinOp) and not isinstance(n.op, ast.Add):
                continue
            par = getattr(n, "parent", None)
            if isinstance(par, (ast.Raise, ast.Call)) and not (isinstance(par, ast.Call) and norm(par.func) == "str"):
                continue  # messages
            tpl = str_template(g.node, n)
            if any(k == "lit" and "|" in v for k, v in tpl):
                builds.append((g, n, _fields(tpl)))
    heads = [(g, n, f) for g, n, f in builds if f and f[0] == [("var", "pkt.code")]]  # a header starts with the code
    if len(heads) < 5:
        raise AnalysisError(f"pkt_header builds {len(heads)} three-field headers (expected >= 5)")

    def _is_verb(v: str) -> bool:
        try:
            e = ast.parse(v, mode="eval").body
        except SyntaxError:
            return False
        return v == "pkt.verb" or v in VERB_NAMES or (isinstance(e, ast.IfExp) and all(norm(x) in VERB_NAMES for x in (e.body, e.orelse)))

    def _is_dev_id(v: str) -> bool:
        try:
            e = ast.parse(v, mode="eval").body
        except SyntaxError:
            return False
        leaves = [e.body, e.orelse] if isinstance(e, ast.IfExp) else [e]
        return all(norm(x) in ("pkt.src.id", "pkt.dst.id", "ALL_DEV_ADDR.id") for x in leaves)

    for g, j, flds in heads:
        r1.instances += 1
        r1.nontrivial += 1
        one = [f[0][1] if len(f) == 1 and f[0][0] == "var" else None for f in flds]
        if len(one) != 3:
            r1.fail(f"pkt_header:join({', '.join(str(x) for x in one)[:60]})", g.loc(j), f"a header is built from {len(one)} fields instead of code|verb|device id: packets differing in the missing one would share a header", [norm(j)])
            continue
        has_code = one[0] == "pkt.code"
        has_verb = one[1] is not None and _is_verb(one[1])
        has_id = one[2] is not None and _is_dev_id(one[2])
        # a device id chosen by an if/else statement rather than a conditional expression: every definition must be an id
        if not has_id and one[2] is not None and one[2].isidentifier():
            defs = [d.value for d in own_nodes(g.node) if isinstance(d, ast.Assign) and any(norm(t) == one[2] for t in d.targets)]
            has_id = bool(defs) and all(_is_dev_id(norm(d)) for d in defs)
        if has_code and has_verb and has_id:
            r1.ok({"header": [str(x) for x in one]})
        else:
            missing = [w for w, ok in (("code", has_code), ("verb", has_verb), ("device id", has_id)) if not ok]
            r1.fail(f"pkt_header:join({', '.join(str(x) for x in one)[:60]})", g.loc(j), f"a header is built without {', '.join(missing) or 'the three discriminators only'}: packets differing in it would share a header", [norm(j)])
    # context appended: some construction is `<header>|<pkt._ctx>`, chosen exactly when the context is a string
    r1.instances += 1
    r1.nontrivial += 1
    ok_ctx = False
    for g, n, flds in builds:
        if len(flds) in (2, 4) and flds[-1] == [("var", "pkt._ctx")]:
            # the guard: a conditional expression or an enclosing if on isinstance(pkt._ctx, str)
            par = getattr(n, "parent", None)
            if isinstance(par, ast.IfExp) and par.body is n and norm(par.test) == "isinstance(pkt._ctx, str)" and isinstance(getattr(par, "parent", None), ast.Return):
                ok_ctx = True
            st = n
            while not isinstance(st, ast.stmt):
                st = st.parent  # type: ignore[attr-defined]
            from .common import known_at

            if known_at(st, "isinstance(pkt._ctx, str)", g.node):
                ok_ctx = True
    if ok_ctx:
        r1.ok({"context": "<header>|<pkt._ctx> whenever isinstance(pkt._ctx, str)"})
    else:
        r1.fail("pkt_header:context", ph.loc(), "the header no longer appends pkt._ctx whenever it is a string: packets for different zones/indexes/fragments would share a header")
    # Frame._ctx: payload-dependent for the complex codes; otherwise _idx
    cx = repo.func(f"{FR}.Frame._ctx")
    r1.instances += 1
    r1.nontrivial += 1
    assigns = [n for n in own_nodes(cx.node) if isinstance(n, ast.Assign) and norm(n.targets[0]) == "self._ctx_"]
    # the values that reach the memo, directly or through a local (`ctx = ...` in each arm, then `self._ctx_ = ctx`)
    vals = []
    for a in assigns:
        if isinstance(a.value, ast.Name):
            vals += [norm(d.value) for d in own_nodes(cx.node) if isinstance(d, (ast.Assign, ast.AnnAssign)) and d.value is not None and norm(d.targets[0] if isinstance(d, ast.Assign) else d.target) == a.value.id]
        else:
            vals.append(norm(a.value))
    if any("self.payload[" in v for v in vals) and any(v == "self._idx" for v in vals) and all(("self.payload" in v or "self._idx" in v) for v in vals):
        r1.ok({"Frame._ctx": vals})
    else:
        r1.fail("Frame._ctx:values", cx.loc(), f"Frame._ctx no longer derives every context from the payload / the payload index: {vals}")
    # _pkt_idx: every returned slice is a slice of pkt.payload
    pi = repo.func(f"{FR}._pkt_idx")
    n_slices = 0
    for n in own_nodes(pi.node):
        if isinstance(n, ast.Return) and n.value is not None:
            for s_ in ast.walk(_expand(pi.node, n.value)):
                if isinstance(s_, ast.Subscript) and isinstance(s_.slice, ast.Slice):
                    n_slices += 1
                    r1.instances += 1
                    r1.nontrivial += 1
                    if norm(s_.value) == "pkt.payload":
                        r1.ok({"_pkt_idx returns": norm(s_)})
                    else:
                        r1.fail(f"_pkt_idx:{norm(s_)}", pi.loc(n), "an index is taken from something other than the payload")
    if n_slices < 6:
        raise AnalysisError("_pkt_idx: payload slices not found")
    out.append(r1)

    # ---- R2 ---------------------------------------------------------------------------
    r2 = RuleResult("R2", "one verb map", "RQ->RP and W->I in pkt_header(rx_header=True) agree with dispatcher._check_dst_slug; I/RP have no reply header", min_instances=2)
    consts = {k: ctx.consts.need("ramses_tx.const", k) for k in VERB_NAMES}
    rx_map = None
    for g_, n in pool(ph_scope):
        if isinstance(n, ast.IfExp) and isinstance(n.test, ast.Compare) and len(n.test.ops) == 1 and isinstance(n.test.ops[0], ast.Eq) and norm(_expand(g_.node, n.test.left)) == "pkt.verb" and norm(n.body) in VERB_NAMES and norm(n.orelse) in VERB_NAMES and norm(n.test.comparators[0]) in VERB_NAMES:
            k = consts[norm(n.test.comparators[0])]
            rx_map = {k: consts[norm(n.body)], "else": consts[norm(n.orelse)]}
    r2.instances += 1
    r2.nontrivial += 1
    if rx_map is None:
        raise AnalysisError("pkt_header: reply-verb expression not found")
    cds = repo.func("ramses_rf.dispatcher._check_dst_slug")
    dmap = None
    for n in own_nodes(cds.node):
        if isinstance(n, ast.Subscript) and isinstance(n.value, ast.Dict) and norm(n.slice) == "msg.verb":
            dmap = {ctx.consts.eval_in(cds, k): ctx.consts.eval_in(cds, v) for k, v in zip(n.value.keys, n.value.values)}
    if dmap is None:
        raise AnalysisError("_check_dst_slug: verb map not found")
    agree = rx_map.get(" RQ".strip()) == dmap.get("RQ") == "RP" and rx_map["else"] == dmap.get(" W") == " I"
    if agree:
        r2.ok({"pkt_header": rx_map, "dispatcher": dmap})
    else:
        r2.fail("verb-map", ph.loc(), f"the reply verb maps disagree: pkt_header {rx_map} vs dispatcher {dmap}")
    r2.instances += 1
    r2.nontrivial += 1
    # every reply header built outside the 1FC9 special cases is built only when the verb is known not to be I/RP and src != dst
    # (else a reply would be awaited that never comes): facts at the construction, however the guard is spelled
    from .common import edge_implies, facts_at, short_circuit_facts

    goals = [ast.parse(g_src, mode="eval").body for g_src in ("not (pkt.verb in (I_, RP)) and not (pkt.src == pkt.dst)", "not (pkt.verb == I_) and not (pkt.verb == RP) and not (pkt.src == pkt.dst)", "(pkt.verb == RQ or pkt.verb == W_) and not (pkt.src == pkt.dst)", "pkt.verb in (RQ, W_) and not (pkt.src == pkt.dst)")]
    reply_heads = [(g_, n, f) for g_, n, f in heads if len(f) > 1 and len(f[1]) == 1 and "RP if" in f[1][0][1]]
    if not reply_heads:
        raise AnalysisError("pkt_header: the reply-header construction was not found")
    bad_nr = []
    for g_, n, _f in reply_heads:
        st = n
        while not isinstance(st, ast.stmt):
            st = st.parent  # type: ignore[attr-defined]
        facts = [(_expand(g_.node, t), v) for t, v in short_circuit_facts(n) + facts_at(st)]
        # conjunction of the facts: each goal conjunct may come from a different fact
        def _known(goal: ast.expr) -> bool:
            conj = goal.values if isinstance(goal, ast.BoolOp) and isinstance(goal.op, ast.And) else [goal]
            return all(any(edge_implies(t, v, c) for t, v in facts) for c in conj)  # type: ignore[arg-type]
        if not any(_known(gl) for gl in goals):
            bad_nr.append(n)
    if not bad_nr:
        r2.ok({"no reply header for": "I, RP, src == dst", "reply_header_constructions": len(reply_heads)})
    else:
        r2.fail("pkt_header:no-reply-branch", ph.loc(bad_nr[0]), "pkt_header(rx_header=True) builds a reply header although the verb may be I/RP or src == dst (a reply would be awaited that never comes)")
    out.append(r2)

    # ---- R3 ---------------------------------------------------------------------------
    from ..predeval import PredEval, Unsupported

    NULL0418 = "000000B0000000000000000000007FFFFF7000000000"
    r3 = RuleResult("R3", "matching is whole-header equality", "every FSM transition on a received packet is guarded by ==/!= between headers", min_instances=4)
    n_trans = 0
    for cls in ("WantEcho", "WantRply"):
        f = repo.func(f"{F}.{cls}.pkt_rcvd")
        cfg = ctx.plain_cfg(f)
        # forbidden comparison forms on headers
        for n in own_nodes(f.node):
            bad = None
            if isinstance(n, ast.Call) and isinstance(n.func, ast.Attribute) and n.func.attr in ("startswith", "endswith", "find") and "hdr" in norm(n.func.value).lower():
                bad = norm(n)
            if isinstance(n, ast.Compare) and any(isinstance(o, (ast.In, ast.NotIn)) for o in n.ops) and ("tx_header" in norm(n) or "rx_header" in norm(n)) and "HGI_DEVICE_ID" not in norm(n):
                bad = norm(n)
            if bad:
                r3.instances += 1
                r3.fail(f"{f.short}:partial-match:{bad[:50]}", f.loc(n), f"a header is matched partially (`{bad[:70]}`): near-miss packets could be taken for the echo/reply")
        # every row of the function's decision table (predeval: the function is a decision list over header comparisons) that makes
        # a transition has some whole-header equality true: pkt header == the command's tx/rx header - or is the enumerated 0418
        # null-entry row (headers equal up to the idx and the literal null payload), which R5 pins down exactly
        try:
            tab3 = PredEval(ctx, f, domains={"self._sent_cmd.rx_header[:8]": ["0418|RP|"], "pkt.payload": [NULL0418]}).table()
        except Unsupported as err:
            raise AnalysisError(f"{cls}.pkt_rcvd is not a decision procedure the evaluator understands: {err}") from err

        def _whole_header_eq(atom: str) -> bool:
            try:
                e = ast.parse(atom.split(" {")[0], mode="eval").body
            except SyntaxError:
                return False
            if not (isinstance(e, ast.Compare) and len(e.ops) == 1 and isinstance(e.ops[0], ast.Eq)):
                return False
            l, r = e.left, e.comparators[0]
            if any(isinstance(x, ast.Subscript) for x in (l, r)):
                return False
            txt = (norm(l), norm(r))
            return any("hdr" in t.lower() for t in txt) and any("tx_header" in t or "rx_header" in t for t in txt)

        eq_atoms = [a for a in tab3.atoms if _whole_header_eq(a)]
        sites = [n for n in own_nodes(f.node) if isinstance(n, ast.Call) and isinstance(n.func, ast.Attribute) and n.func.attr == "set_state"]
        n_trans += len(sites)
        for n in sites:
            r3.instances += 1
            r3.nontrivial += 1
            eff = norm(n)
            rows_t = [a for a, _r in tab3.rows if eff in a["__effects__"]]
            bad_rows = [a for a in rows_t if not any(a.get(k) for k in eq_atoms) and not (cls == "WantRply" and a.get("self._sent_cmd.rx_header[:8]") == "0418|RP|" and a.get("pkt.payload") == NULL0418)]
            if not rows_t:
                raise AnalysisError(f"{cls}.pkt_rcvd: the transition `{eff[:50]}` appears in no row of the decision table")
            if bad_rows:
                r3.fail(f"{f.short}:{eff[:50]}:unguarded", f.loc(n), "an FSM transition on a received packet can be made although no whole-header equality with the sent command holds: " + tab3.describe({k: v for k, v in bad_rows[0].items() if k != "__effects__"})[:300])
            else:
                r3.ok({"transition": f"{cls}: {eff[:50]}", "rows": len(rows_t), "equalities": eq_atoms[:3]})
    if n_trans < 4:
        raise AnalysisError("FSM transitions in pkt_rcvd not found")
    # placeholder substitution on both sides
    r3.instances += 1
    r3.nontrivial += 1
    cs = repo.func(f"{F}.IsInIdle.cmd_sent")
    we = repo.func(f"{F}.WantEcho.pkt_rcvd")
    sub_cmd = any(isinstance(n, ast.Call) and isinstance(n.func, ast.Attribute) and n.func.attr == "replace" and "HGI_DEVICE_ID" in norm(n) and "hgi_id" in norm(n) for n in own_nodes(cs.node))
    sub_pkt = any(isinstance(n, ast.Call) and isinstance(n.func, ast.Attribute) and n.func.attr == "replace" and "HGI_DEVICE_ID" in norm(n) and "hgi_id" in norm(n) for n in own_nodes(we.node))
    if sub_cmd and sub_pkt:
        r3.ok({"placeholder_substitution": "command header (IsInIdle.cmd_sent) and packet header (WantEcho.pkt_rcvd)"})
    else:
        r3.fail("hgi-substitution", cs.loc(), f"the 18:000730 placeholder is substituted on one side only (cmd={sub_cmd}, pkt={sub_pkt}): the echo of a command sent from the placeholder id would never match")
    out.append(r3)

    # ---- R4 ---------------------------------------------------------------------------
    # "The context is a superset of the index" (Frame._ctx's own contract): headers are built from _ctx, entities are addressed by
    # _idx. For every code-specific branch of Frame._ctx, the payload columns the context is made of must cover the columns
    # _pkt_idx reads for that code (a component `self._idx` covers them all) - else two packets that _pkt_idx tells apart (the DHW
    # schedule vs zone 00's: payload[2:4] == '23') get the same header and one is taken for the reply to the other.
    r4 = RuleResult("R4", "the context covers the index", "per code: payload columns of Frame._ctx ⊇ payload columns read by _pkt_idx", min_instances=2)
    ctxf = repo.func("ramses_tx.frame.Frame._ctx")
    pidx = repo.func("ramses_tx.frame._pkt_idx")

    def cols_of(e: ast.AST, base: str) -> "set[int] | None":
        """Payload columns read by an expression (None = open-ended / not understood)."""
        out: set[int] = set()
        for n in ast.walk(e):
            if isinstance(n, ast.Subscript) and norm(n.value) == base:
                if not isinstance(n.slice, ast.Slice):
                    return None
                lo = 0 if n.slice.lower is None else getattr(n.slice.lower, "value", None)
                hi = getattr(n.slice.upper, "value", None) if n.slice.upper is not None else None
                if not isinstance(lo, int) or not isinstance(hi, int):
                    return None
                out |= set(range(lo, hi))
        return out

    def codes_of(test: ast.expr, subj: str) -> list[str]:
        if isinstance(test, ast.Compare) and len(test.ops) == 1 and norm(test.left) == subj:
            try:
                v = ctx.consts.eval_in(ctxf, test.comparators[0])
            except Exception:
                return []
            if isinstance(test.ops[0], ast.Eq) and isinstance(v, str):
                return [v]
            if isinstance(test.ops[0], ast.In) and isinstance(v, (tuple, list, set, frozenset)):
                return [x for x in v if isinstance(x, str)]
        return []

    # _pkt_idx: columns read per code (tests and returns of the `if pkt.code == X:` block)
    idx_cols: dict[str, "set[int] | None"] = {}
    for st in pidx.node.body:
        if isinstance(st, ast.If):
            for code in codes_of(st.test, "pkt.code"):
                cs: "set[int] | None" = set()
                for sub in st.body:
                    c2 = cols_of(sub, "pkt.payload")
                    cs = None if (cs is None or c2 is None) else cs | c2
                idx_cols.setdefault(code, cs)  # the first branch that handles the code is the one that runs
    # Frame._ctx: the if/elif chain
    # what reaches the memo: `self._ctx_ = <expr>` in each arm, or a local assigned in each arm and stored afterwards
    memo_targets = {"self._ctx_"} | {n.value.id for n in own_nodes(ctxf.node) if isinstance(n, ast.Assign) and norm(n.targets[0]) == "self._ctx_" and isinstance(n.value, ast.Name)}

    def _is_memo_assign(n: ast.AST) -> bool:
        return isinstance(n, (ast.Assign, ast.AnnAssign)) and n.value is not None and norm(n.targets[0] if isinstance(n, ast.Assign) else n.target) in memo_targets and not (isinstance(n.value, ast.Name) and n.value.id in memo_targets)

    # heads of the code-specific chain: the first `if/elif self.code ...` (an elif of a test that is not about the code is a head)
    chain = [st for st in own_nodes(ctxf.node) if isinstance(st, ast.If) and codes_of(st.test, "self.code") and not (isinstance(getattr(st, "parent", None), ast.If) and st in getattr(st.parent, "orelse", []) and codes_of(st.parent.test, "self.code")) and any(_is_memo_assign(n) for n in ast.walk(st))]
    if not chain:
        raise AnalysisError("Frame._ctx: the code-specific chain was not found")
    cur: ast.stmt | None = chain[-1]
    while isinstance(cur, ast.If):
        codes = codes_of(cur.test, "self.code")
        assigns = [n for b in cur.body for n in ast.walk(b) if _is_memo_assign(n)]
        for code in codes:
            for a in assigns:
                r4.instances += 1
                r4.nontrivial += 1
                uses_idx = any(isinstance(n, ast.Attribute) and norm(n) == "self._idx" for n in ast.walk(a.value))
                have = cols_of(a.value, "self.payload")
                need = idx_cols.get(code, set())
                if uses_idx or need is None and have is None or (need is not None and have is not None and need <= have):
                    r4.ok({"code": code, "context": norm(a.value)[:50], "covers_index_columns": sorted(need) if need else []})
                else:
                    missing = sorted((need or set()) - (have or set())) if need is not None and have is not None else "?"
                    r4.fail(f"{ctxf.short}:{code}:context-misses-index-columns", ctxf.loc(a), f"for code {code} the context is `{norm(a.value)[:60]}`, which does not include payload columns {missing} that _pkt_idx reads to tell contexts apart: packets for different zones/domains get the same header")
        cur = cur.orelse[0] if len(cur.orelse) == 1 and isinstance(cur.orelse[0], ast.If) else None
    if r4.instances < 2:
        raise AnalysisError("Frame._ctx: fewer than 2 code-specific context definitions found")
    out.append(r4)
    # ---- R5 ---------------------------------------------------------------------------
    # The complete decision table of WantRply.pkt_rcvd (predeval.py): a packet is accepted as the reply (set_state(..., result=pkt))
    # exactly when its header equals the command's reply header, or it is the enumerated 0418 null-entry (reply header 0418|RP|,
    # headers equal up to the last two characters, the literal null payload). Both directions are read off the table:
    # nothing else is accepted (soundness) and those two are always accepted (the proper reply is recognised).
    from ..predeval import PredEval, Unsupported

    r5 = RuleResult("R5", "reply acceptance table", "WantRply.pkt_rcvd accepts exactly: header == rx_header, or the 0418 null-entry exception", min_instances=2)
    wr = repo.func(f"{F}.WantRply.pkt_rcvd")
    NULL0418 = "000000B0000000000000000000007FFFFF7000000000"
    try:
        hgi0 = ctx.const("ramses_tx.address", "HGI_DEVICE_ID")
        tab = PredEval(ctx, wr, domains={"self._sent_cmd.rx_header[:8]": ["0418|RP|"], "pkt.payload": [NULL0418], "self._sent_cmd.src.id": [hgi0]}).table()
    except Unsupported as err:
        raise AnalysisError(f"WantRply.pkt_rcvd is not a decision procedure the evaluator understands: {err}") from err

    def find_atom(pred) -> "str | None":
        return next((a for a in tab.atoms if pred(a)), None)

    ne = None  # atoms are canonical (positive) since predeval folds `!=` into the negation of `==`
    eq = find_atom(lambda a: a.replace(" ", "") in ("pkt._hdr==self._sent_cmd.rx_header", "self._sent_cmd.rx_header==pkt._hdr"))
    pre = find_atom(lambda a: "[:-2]" in a and "rx_header" in a and "pkt._hdr" in a and "==" in a)
    pre_neg = False
    echo = find_atom(lambda a: "tx_header" in a and "pkt._hdr" in a and "==" in a)
    if ne is None and eq is None:
        raise AnalysisError(f"WantRply.pkt_rcvd: no test of pkt._hdr against rx_header found (atoms: {tab.atoms})")

    def hdr_equal(a: dict) -> bool:
        return (not a[ne]) if ne is not None else bool(a[eq])

    def is_null_entry(a: dict) -> bool:
        return a.get("self._sent_cmd.rx_header[:8]") == "0418|RP|" and a.get("pkt.payload") == NULL0418 and (pre is None or (bool(a[pre]) != pre_neg))

    def accepted(a: dict) -> bool:
        return any("set_state(" in e and "result=pkt" in e.replace(" ", "") for e in a["__effects__"])

    rows = tab.rows
    r5.instances += 1
    r5.nontrivial += 1
    wrong = [a for a, _r in rows if accepted(a) and not hdr_equal(a) and not (is_null_entry(a) and pre is not None)]
    if wrong:
        a0 = wrong[0]
        r5.fail(f"{wr.short}:accepts-non-reply", wr.loc(), "a packet whose header differs from the command's reply header is accepted as its reply outside the 0418 null-entry exception: " + tab.describe({k: v for k, v in a0.items() if k != "__effects__"})[:300])
    else:
        r5.ok({"accepted_only": "header == rx_header | 0418 null-entry (headers equal up to the idx, literal null payload)", "rows": len(rows)})
    r5.instances += 1
    r5.nontrivial += 1
    dst_atoms0 = [a for a in tab.atoms if "pkt.dst" in a and "==" in a and ("src" in a or "hgi_id" in a)]

    def addressed(a: dict) -> bool:  # where the addressee is tested at all, a proper reply is one addressed to the sender
        if not dst_atoms0:
            return True
        lit = [k for k in dst_atoms0 if "src" in k]
        real = [k for k in dst_atoms0 if "hgi_id" in k]
        return any(a.get(k) for k in lit) or (a.get("self._sent_cmd.src.id") == hgi0 and any(a.get(k) for k in real))

    lost = [a for a, _r in rows if not accepted(a) and addressed(a) and (hdr_equal(a) or (is_null_entry(a) and not hdr_equal(a))) and not (echo is not None and a[echo])]
    if lost:
        a0 = lost[0]
        what = "the reply whose header equals rx_header" if hdr_equal(a0) else "the 0418 null-entry reply (sent for a log_idx beyond the end of the log)"
        r5.fail(f"{wr.short}:proper-reply-ignored:{'header-equal' if hdr_equal(a0) else '0418-null-entry'}", wr.loc(), f"{what} is not accepted: the command is retried and fails although the device answered: " + tab.describe({k: v for k, v in a0.items() if k != "__effects__"})[:300])
    else:
        r5.ok({"always_accepted": "header == rx_header; the 0418 null-entry", "rows": len(rows)})
    # sibling agreement (WantEcho's early-reply branch vs WantRply): a reply is addressed to the command's sender. WantEcho tests
    # `pkt.dst.id == cmd.src.id` (or the gateway's real id for the placeholder); the rows of WantRply's table in which a packet is
    # accepted must have such a test true as well - else the same header sent to another requester is taken for our reply
    r5.instances += 1
    r5.nontrivial += 1
    dst_atoms = [a for a in tab.atoms if "pkt.dst" in a and "==" in a and ("src" in a or "hgi_id" in a)]
    unaddressed = [a for a, _r in rows if accepted(a) and not (dst_atoms and addressed(a))]
    if unaddressed:
        r5.fail(f"{wr.short}:reply-addressee-not-tested", wr.loc(), "a packet with the reply header is accepted as the reply whoever it is addressed to (WantEcho's early-reply branch requires pkt.dst to be the command's sender): the controller's answer to another requester of the same code/zone is returned to this caller: " + tab.describe({k: v for k, v in unaddressed[0].items() if k != "__effects__"})[:200])
    else:
        r5.ok({"accepted_rows_test_the_addressee": dst_atoms[:2]})
    # the same for a reply that overtakes the echo (WantEcho): it is taken as the reply exactly when its header equals the reply
    # header and it is addressed to the command's sender - either literally, or (command built with the 18:000730 placeholder) to
    # the gateway's real id. Read off the decision table of WantEcho.pkt_rcvd.
    we2 = repo.func(f"{F}.WantEcho.pkt_rcvd")
    hgi = ctx.const("ramses_tx.address", "HGI_DEVICE_ID")
    try:
        tabe = PredEval(ctx, we2, domains={"self._sent_cmd.src.id": [hgi]}).table()
    except Unsupported as err:
        raise AnalysisError(f"WantEcho.pkt_rcvd is not a decision procedure the evaluator understands: {err}") from err
    A_RX = next((a for a in tabe.atoms if a.replace(" ", "") in ("pkt._hdr==self._sent_cmd.rx_header", "self._sent_cmd.rx_header==pkt._hdr")), None)
    A_HAS = next((a for a in tabe.atoms if a == "self._sent_cmd.rx_header"), None)
    A_DST = next((a for a in tabe.atoms if a.replace(" ", "") in ("pkt.dst.id==self._sent_cmd.src.id", "self._sent_cmd.src.id==pkt.dst.id")), None)
    A_REAL = next((a for a in tabe.atoms if "pkt.dst.id" in a and "hgi_id" in a and "==" in a), None)
    if A_RX is None:
        raise AnalysisError(f"WantEcho.pkt_rcvd: no test of pkt._hdr against rx_header found (atoms: {tabe.atoms})")
    import itertools as _it2

    want_atoms = [x for x in ("pkt.dst.id == self._sent_cmd.src.id", "pkt.dst.id == self._context._protocol.hgi_id") if x not in tabe.atoms]
    rows_e = tabe.rows
    if want_atoms:  # a test that is gone: complete the table with both of its values (see C10.R3/R4)
        rows_e = [({**a, **dict(zip(want_atoms, bits))}, r) for a, r in tabe.rows for bits in _it2.product((False, True), repeat=len(want_atoms))]
    D1, D2 = "pkt.dst.id == self._sent_cmd.src.id", "pkt.dst.id == self._context._protocol.hgi_id"

    def early_reply(a: dict) -> bool:
        return any("set_state(" in e and "result=pkt" in e.replace(" ", "") for e in a["__effects__"]) and not any("WantRply" in e for e in a["__effects__"])

    def to_sender(a: dict) -> bool:
        return bool(a[D1]) or (a.get("self._sent_cmd.src.id") == hgi and bool(a[D2]))

    def is_reply(a: dict) -> bool:
        return bool(a[A_RX]) and (A_HAS is None or bool(a[A_HAS]))

    r5.instances += 1
    r5.nontrivial += 1
    # rows in which the packet is *not* the echo (so the only way to a result is the early-reply branch)
    not_echo = [(a, r) for a, r in rows_e if not any(a[k] for k in tabe.atoms if "tx_header" in k and "==" in k)]
    lost = [a for a, _r in not_echo if is_reply(a) and to_sender(a) and not early_reply(a)]
    wrong = [a for a, _r in not_echo if early_reply(a) and not (is_reply(a) and to_sender(a))]
    if wrong:
        r5.fail(f"{we2.short}:early-reply-accepts-other", we2.loc(), "while waiting for the echo, a packet is taken as the reply although it is not (header == rx_header and addressed to the command's sender): " + tabe.describe({k: v for k, v in wrong[0].items() if k != "__effects__"})[:300])
    elif lost:
        r5.fail(f"{we2.short}:early-reply-ignored", we2.loc(), "the proper reply, arriving before the echo and addressed to the command's sender (literally, or to the gateway's real id for a command built with the 18:000730 placeholder), is not taken as the reply: " + tabe.describe({k: v for k, v in lost[0].items() if k != "__effects__"})[:300])
    else:
        r5.ok({"WantEcho": "a reply that overtakes the echo is accepted iff header == rx_header and it is addressed to the sender (incl. placeholder/real gateway id)", "rows": len(rows_e)})
    # completeness for the echo itself: a packet whose header equals the command's echo header *is* the echo, whatever its source
    # field says - the gateway writes its real id there in place of the 18:000730 placeholder, and the library may not even know that
    # id yet (no signature echo was seen). Every row in which the echo-header equality holds moves the machine on (to WantRply, or to
    # idle with the echo as the result); a row that is turned away on some other test (the packet's src, say) loses genuine echoes
    r5.instances += 1
    r5.nontrivial += 1
    tx_atoms = [k for k in tabe.atoms if "tx_header" in k and "==" in k]
    if not tx_atoms:
        r5.fail(f"{we2.short}:echo-not-by-header-equality", we2.loc(), f"WantEcho.pkt_rcvd has no equality test of the packet's header against the command's echo header (tests: {tabe.atoms[:6]}): whatever decides 'this is my echo' now, it is not whole-header equality")
        out.append(r5)
        return out
    # read off the *leaves* of the decision tree (the atoms a path actually evaluated): filled-in don't-care values say nothing
    pe2 = PredEval(ctx, we2, domains={"self._sent_cmd.src.id": [hgi]})
    pe2.table()
    echo_rows = [({**env, **aenv, "__effects__": eff}, res) for env, aenv, res, eff in pe2.leaves if any(aenv.get(k) for k in tx_atoms)]
    dropped = [a for a, r in echo_rows if not any("set_state(" in e for e in a["__effects__"]) and not (isinstance(r, tuple) and r and r[0] == "raise")]
    if dropped:
        why = sorted(k for k, v in dropped[0].items() if isinstance(k, str) and k not in tx_atoms and k != "__effects__" and v in (True, False) and k in tabe.atoms)
        r5.fail(f"{we2.short}:echo-turned-away", we2.loc(), "a packet whose header equals the command's echo header is not taken as the echo in every case: " + tabe.describe({k: v for k, v in dropped[0].items() if k != "__effects__"})[:300] + f" (the outcome also depends on {why[:3]}): with the gateway's real id unknown or substituted, genuine echoes are ignored and every send times out")
    else:
        r5.ok({"WantEcho": "header == echo header always moves the machine on", "rows": len(echo_rows)})
    out.append(r5)
    return out


def _implied(t: ast.expr, edge: bool) -> list[tuple[ast.expr, bool]]:
    """Atoms of a boolean test whose truth value is fixed once the test evaluated to `edge`: [(atom, value)]."""
    if isinstance(t, ast.UnaryOp) and isinstance(t.op, ast.Not):
        return _implied(t.operand, not edge)
    if isinstance(t, ast.BoolOp):
        if (isinstance(t.op, ast.And) and edge) or (isinstance(t.op, ast.Or) and not edge):
            return [x for v in t.values for x in _implied(v, edge)]
        return []
    return [(t, edge)]


def _prev_siblings(n: ast.AST) -> list[ast.AST]:
    st = n
    while st is not None and not isinstance(getattr(st, "parent", None), (ast.If, ast.FunctionDef, ast.For, ast.While, ast.Try)):
        st = getattr(st, "parent", None)
    par = getattr(st, "parent", None)
    for fld in ("body", "orelse"):
        b = getattr(par, fld, None)
        if isinstance(b, list) and st in b:
            return b[: b.index(st)]
    return []
