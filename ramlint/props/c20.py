"""C20 - Binding handshakes complete under duplicates, and always end and can be retried."""

from __future__ import annotations

import ast

from ..context import Ctx
from ..loader import AnalysisError, norm, own_nodes
from ..pairing import contains_call, method_call
from ..report import RuleResult
from ..typestate import typestate_rule, unshielded_waits
from .common import closure_rule, policy_views

META = {
    "explanation": (
        "C20.R1: future typestate over binding_fsm.py - every set_result/set_exception on a state's future is on the not-done side of a "
        "dominating done() test, and no wait_for() is applied to the bare (unshielded) state future (a timeout would cancel it). "
        "C20.R2: every attempt ends not-binding - each state's _next_ctx_state chain terminates in a not-binding state, and every "
        "set_exception(...)/send-failure path is followed by the transition to DevHasFailedBinding before the error reaches the caller. "
        "C20.R3: only BindingError (or CommandInvalid for bad arguments) can leave wait_for_binding_request/initiate_binding_process. "
        "C20.R4: every call_later handle kept in _timer_handle is cancelled on the way out of the state, and states only leave via "
        "_set_context_state. C20.R5: the three 1FC9 phase tests are mutually exclusive and agree with Command.put_bind. "
        "Not decided: that both ends succeed under every interleaving (behavioural)."
    ),
}
META["explanation"] += ' C20.R6: only offers are fanned out to binding devices.'

BINDING_ERR = "ramses_rf.exceptions.BindingError"
MOD = "ramses_rf.binding_fsm"


def check(ctx: Ctx) -> list[RuleResult]:
    repo = ctx.repo
    pol = policy_views(ctx)
    ea = ctx.exc(pol)
    out: list[RuleResult] = []
    funcs = [f for f in repo.funcs.values() if f.module.name == MOD]
    if len(funcs) < 40:
        raise AnalysisError("binding_fsm functions not found")

    # ---- R1 ---------------------------------------------------------------------------
    r1 = RuleResult("R1", "future typestate in the binding FSM", "no set_* on a possibly done/cancelled future; no wait_for() on the bare state future", min_instances=5)
    # asynchronous entry points: message handler + every function handed to call_later/call_soon
    async_entries = [repo.func(f"{MOD}.BindContextBase.rcvd_msg")]
    for f in funcs:
        for s2 in ctx.cg.calls_in(f):
            if s2.kind == "deferred":
                async_entries += [c for c in s2.callees if c.module.name == MOD]
    # ... plus the waiting coroutine's own timeout path
    async_entries.append(repo.func(f"{MOD}.BindStateBase._wait_for_fut_result"))
    # ... plus what a coroutine calls in the handler of a try whose body awaited (the failure path of a send): anything may have
    # arrived - and completed the state's future - while that await was pending
    for f in funcs:
        if not f.is_async:
            continue
        for t in own_nodes(f.node):
            if isinstance(t, ast.Try) and any(isinstance(x, ast.Await) for b in t.body for x in ast.walk(b)):
                for h in t.handlers:
                    for c in ast.walk(h):
                        if isinstance(c, ast.Call):
                            site = ctx.cg.site_of.get(id(c))
                            if site is not None:
                                async_entries += [g for g in site.callees if g.module.name == MOD]
    reach = set(ctx.cg.reachable(async_entries))
    in_scope = [f for f in funcs if f in reach]
    out_scope = [f for f in funcs if f not in reach and any(isinstance(n, ast.Call) and isinstance(n.func, ast.Attribute) and n.func.attr in ("set_result", "set_exception") for n in own_nodes(f.node))]
    typestate_rule(ctx, r1, in_scope, pol, "binding FSM")
    for f in out_scope:
        r1.notes.append(f"{f.short}: sets the future but is only reachable synchronously from the binding coroutine's own sends (not from a timer/message callback): not decided")
    waits = unshielded_waits(ctx, funcs)
    waiters = [f for f in funcs if any((isinstance(n, ast.Call) and norm(n.func).endswith("wait_for")) or (isinstance(n, ast.Await) and "_fut" in norm(n.value)) for n in own_nodes(f.node))]
    if not waiters:
        raise AnalysisError("no wait on the state future in binding_fsm: the waiting anchor moved")
    for f in waiters:
        r1.instances += 1
        r1.nontrivial += 1
        mine = [(g, n, a) for g, n, a in waits if g is f]
        if mine:
            for g, n, a in mine:
                r1.fail(f"{f.short}:bare-wait({a})", f.loc(n), f"`{norm(n)[:70]}` waits on the bare future {a} (not shielded): when the wait is cut short (timeout / cancellation) asyncio cancels the future itself, and every later set_result/set_exception/result() on it raises")
        else:
            r1.ok({"waiter": f.short, "unshielded_future_waits": 0})
    out.append(r1)

    # ---- R2 ---------------------------------------------------------------------------
    r2 = RuleResult("R2", "every attempt ends not-binding", "state chains terminate in a not-binding state; every failure path transitions to DevHasFailedBinding", min_instances=8)
    not_binding = ctx.consts.eval_in(repo.mod(MOD), ast.parse("1").body[0].value) and None  # placeholder to keep imports tidy
    nb_node = None
    for st in repo.mod(MOD).tree.body:
        if isinstance(st, ast.Assign) and any(isinstance(t, ast.Name) and t.id == "_IS_NOT_BINDING_STATES" for t in st.targets):
            nb_node = st.value
    if not isinstance(nb_node, (ast.Tuple, ast.List)):
        raise AnalysisError("_IS_NOT_BINDING_STATES is not a tuple display")
    nb = {norm(e) for e in nb_node.elts}
    classes = {c.name: c for c in repo.classes.values() if c.module.name == MOD}
    nexts: dict[str, str] = {}
    for c in classes.values():
        v = c.class_attr("_next_ctx_state")
        if v is not None and any(isinstance(s, (ast.Assign, ast.AnnAssign)) and "_next_ctx_state" in norm(s) and getattr(s, "value", None) is not None for s in c.node.body):
            nexts[c.name] = norm(v)
    if len(nexts) < 6:
        raise AnalysisError(f"only {len(nexts)} states declare _next_ctx_state")
    for name in nexts:
        r2.instances += 1
        r2.nontrivial += 1
        cur, seen = name, []
        while cur in nexts and cur not in seen:
            seen.append(cur)
            cur = nexts[cur]
        if cur in nb:
            r2.ok({"state": name, "chain": seen + [cur]})
        else:
            r2.fail(f"{name}:_next_ctx_state-chain", classes[name].module.rel, f"the success chain of state {name} ends in {cur}, which is not one of the not-binding states {sorted(nb)}", [" -> ".join(seen + [cur])])
    # failure paths: set_exception(BindingFlowFailed..) / _handle_send_failed are followed by the transition to a not-binding state
    for f in funcs:
        for n in own_nodes(f.node):
            if isinstance(n, ast.Call) and isinstance(n.func, ast.Attribute) and n.func.attr in ("set_exception", "cancel") and norm(n.func.value) == "self._fut":
                r2.instances += 1
                r2.nontrivial += 1
                cfg = ctx.cfg(f, pol)
                node = None
                p = n
                while p is not None and not cfg.nodes_of(p):
                    p = getattr(p, "parent", None)
                node = cfg.nodes_of(p)[0] if p is not None else None
                if node is None:
                    raise AnalysisError("cfg node not found")

                def passing(x) -> bool:
                    return x.ast is not None and x.kind == "stmt" and contains_call(x.ast, lambda c: method_call("_set_context_state")(c) and c.args and norm(c.args[0]) in nb)

                leaks = [e for e in cfg.exits_reachable_without(node.id, passing) if e[0].kind == "exit"]
                if leaks:
                    r2.fail(f"{f.short}:{norm(n)[:50]}:no-failed-transition", f.loc(n), f"after `{norm(n)[:60]}` the function can return without moving the context to a not-binding state: the device would stay 'binding'")
                else:
                    r2.ok({"site": f"{f.short}: {norm(n)[:50]}", "followed_by": "_set_context_state(<not-binding>)"})
    # the send helper converts ProtocolError into BindingFlowFailed after failing the state
    helpers = []
    for f in funcs:
        if f.cls is None or not f.cls.name.startswith("BindContext"):
            continue
        for n in own_nodes(f.node):
            if isinstance(n, ast.Try):
                for h in n.handlers:
                    hb = ast.Module(body=h.body, type_ignores=[])
                    if (
                        any(ea.h.is_sub("ramses_tx.exceptions.ProtocolError", c) for c in ea._handler_classes(h, f))
                        and contains_call(hb, method_call("_handle_send_failed"))
                        and any(isinstance(x, ast.Raise) and "BindingFlowFailed" in norm(x) for x in ast.walk(hb))
                        and contains_call(ast.Module(body=n.body, type_ignores=[]), method_call("_async_send_cmd"))
                    ):
                        helpers.append(f)
    # the same conversion packaged as a context manager: a @contextmanager method whose only `yield` sits in a try with that handler,
    # and a method that awaits _async_send_cmd inside `with self.<that>(..):`
    cms = []
    for f in funcs:
        if f.cls is None or not f.cls.name.startswith("BindContext") or not any("contextmanager" in d for d in f.decorators):
            continue
        yields = [y for y in own_nodes(f.node) if isinstance(y, (ast.Yield, ast.YieldFrom))]
        for n in own_nodes(f.node):
            if isinstance(n, ast.Try) and len(yields) == 1 and any(yields[0] is x for b0 in n.body for x in ast.walk(b0)):
                for h in n.handlers:
                    hb = ast.Module(body=h.body, type_ignores=[])
                    if any(ea.h.is_sub("ramses_tx.exceptions.ProtocolError", c) for c in ea._handler_classes(h, f)) and contains_call(hb, method_call("_handle_send_failed")) and any(isinstance(x, ast.Raise) and "BindingFlowFailed" in norm(x) for x in ast.walk(hb)):
                        cms.append(f)
    for f in funcs:
        if f.cls is None or not f.cls.name.startswith("BindContext"):
            continue
        for n in own_nodes(f.node):
            if isinstance(n, (ast.With, ast.AsyncWith)) and any(isinstance(it.context_expr, ast.Call) and isinstance(it.context_expr.func, ast.Attribute) and any(it.context_expr.func.attr == c.name for c in cms) for it in n.items) and contains_call(ast.Module(body=n.body, type_ignores=[]), method_call("_async_send_cmd")):
                # every send in this function must be inside such a with-block
                inside = {id(x) for b0 in n.body for x in ast.walk(b0)}
                if all(id(c) in inside for c in own_nodes(f.node) if isinstance(c, ast.Call) and isinstance(c.func, ast.Attribute) and c.func.attr == "_async_send_cmd"):
                    helpers.append(f)
    r2.instances += 1
    r2.nontrivial += 1
    if helpers:
        r2.ok({"send_helper": helpers[0].short, "shape": "ProtocolError -> state._handle_send_failed() -> raise BindingFlowFailed"})
    else:
        r2.fail("binding_fsm:send-failure-conversion", repo.mod(MOD).rel, "no binding-context helper fails the state and raises BindingFlowFailed when the protocol gives up on a send (ProtocolError would leave the entry points and the context would stay binding)")
    # ... and every binding command is sent through that helper
    for f in funcs:
        if f.cls is not None and f.cls.name.startswith("BindContext") and f not in helpers:
            for n in own_nodes(f.node):
                if isinstance(n, ast.Call) and isinstance(n.func, ast.Attribute) and n.func.attr == "_async_send_cmd":
                    r2.instances += 1
                    r2.nontrivial += 1
                    r2.fail(f"{f.short}:bare-_async_send_cmd", f.loc(n), "a binding command is sent with a bare _async_send_cmd(): a failed send would leave the context binding and leak a ProtocolError")
    out.append(r2)

    # ---- R3 ---------------------------------------------------------------------------
    r3 = RuleResult("R3", "error family of the entry points", "may_raise(wait_for_binding_request / initiate_binding_process) ⊆ BindingError↓ ∪ CommandInvalid (bad arguments)", min_instances=2)
    entries = [repo.func(f"{MOD}.BindContextRespondent.wait_for_binding_request"), repo.func(f"{MOD}.BindContextSupplicant.initiate_binding_process")]
    cut = [repo.func("ramses_tx.message.Message._from_cmd"), repo.func("ramses_tx.command.Command.put_bind"), repo.func("ramses_rf.device.base.Fakeable._async_send_cmd")]
    closure_rule(ctx, r3, ea, entries, [BINDING_ERR, "ramses_tx.exceptions.CommandInvalid"], "a binding entry point", cut=cut)
    r3.notes.append(
        "cut points: Command.put_bind / Message._from_cmd (the library's own command and its phase self-check: decided by C03) and "
        "Fakeable._async_send_cmd (its error family is ProtocolError, decided by C07.R2; R2 checks that every binding command is sent via the "
        "helper that converts ProtocolError into BindingFlowFailed after failing the state)"
    )
    out.append(r3)

    # ---- R4 ---------------------------------------------------------------------------
    r4 = RuleResult("R4", "wait timers are cancelled on the way out; states leave only via _set_context_state", "every class that arms _timer_handle cancels it in _set_context_state; context.set_state is reached only from there", min_instances=2)
    armers = []
    for c in classes.values():
        for m in c.methods.values():
            for n in own_nodes(m.node):
                if isinstance(n, ast.Assign) and any(norm(t) == "self._timer_handle" for t in n.targets) and "call_later" in norm(n.value):
                    armers.append((c, m, n))
    if not armers:
        raise AnalysisError("no call_later timer stored in _timer_handle")
    flag_true = [c.name for c in classes.values() if any(isinstance(st, (ast.Assign, ast.AnnAssign)) and "_has_wait_timer" in norm(st) and isinstance(getattr(st, "value", None), ast.Constant) and st.value.value is True for st in c.node.body)]
    for c, m, n in armers:
        par = getattr(n, "parent", None)
        if isinstance(par, ast.If) and norm(par.test) == "self._has_wait_timer" and not flag_true:
            r4.notes.append(f"{c.name}.{m.name}: the timer under `if self._has_wait_timer` is never armed (no class sets the flag)")
            continue
        r4.instances += 1
        r4.nontrivial += 1
        # the class (or a base listed before BindStateBase) overrides _set_context_state with a cancel before the super call
        cancels = False
        for k in c.mro:
            scs = k.methods.get("_set_context_state")
            if scs is None:
                continue
            body_txt = norm(scs.node)
            if "self._timer_handle.cancel()" in body_txt:
                cancels = True
            break
        if cancels:
            r4.ok({"class": c.name, "arms": norm(n)[:60], "cancelled_in": "_set_context_state"})
        else:
            r4.fail(f"{c.name}:timer-not-cancelled", m.loc(n), f"{c.name} arms a call_later timer but the first _set_context_state in its MRO does not cancel it: it would fire into a later state")
    for f in funcs:
        if f.cls is not None and not f.cls.name.startswith("BindContext"):
            for n in own_nodes(f.node):
                if isinstance(n, ast.Call) and isinstance(n.func, ast.Attribute) and n.func.attr == "set_state" and "_context" in norm(n.func.value):
                    r4.instances += 1
                    r4.nontrivial += 1
                    if f.name == "_set_context_state":
                        r4.ok({"transition_site": f.short})
                    else:
                        r4.fail(f"{f.short}:direct-set_state", f.loc(n), "a state transitions the context directly, bypassing _set_context_state (its timer would not be cancelled)")
    out.append(r4)

    # ---- R5 ---------------------------------------------------------------------------
    # decision table of is_phase (predeval.py): for every packet shape (verb, code, the relations between dst/src/ALL) at most one
    # of TENDER / ACCEPT / AFFIRM holds - however the three tests are spelled or ordered
    from ..predeval import PredEval, Unsupported

    r5 = RuleResult("R5", "phase classification is a partition", "decision table of is_phase: TENDER/ACCEPT/AFFIRM are mutually exclusive for every packet shape", min_instances=3)
    ip = repo.func(f"{MOD}.BindStateBase.is_phase")
    verbs = [ctx.const("ramses_tx.const", k) for k in ("I_", "RQ", "RP", "W_")]
    try:
        tabp = PredEval(ctx, ip, domains={"cmd.verb": verbs, "cmd.code": ["1FC9", "10E0"]}).table()
    except Unsupported as err:
        raise AnalysisError(f"is_phase is not a decision procedure the evaluator understands: {err}") from err
    if "phase" not in tabp.subjects:
        raise AnalysisError(f"is_phase: the phase parameter is not compared with constants (subjects: {list(tabp.subjects)})")
    phases = {str(v): v for v in tabp.subjects["phase"]}
    def ph(name: str):
        for k, v in phases.items():
            if name.lower() in k.lower():
                return v
        return None
    names = {"TENDER": ph("offer") if ph("tender") is None else ph("tender"), "ACCEPT": ph("accept"), "AFFIRM": ph("confirm") if ph("affirm") is None else ph("affirm")}
    # AFFIRM is the fall-through of the function: it stands for "any other phase value"
    by_shape: dict[tuple, dict] = {}
    for a, r in tabp.rows:
        key = tuple(sorted((k, str(v)) for k, v in a.items() if k not in ("phase", "__effects__")))
        by_shape.setdefault(key, {})[str(a["phase"])] = bool(r) if not isinstance(r, tuple) else False
    def truth(d: dict, pv) -> bool:
        return d.get(str(pv), d.get("<other>", False)) if pv is not None else d.get("<other>", False)
    for x, y in (("TENDER", "AFFIRM"), ("TENDER", "ACCEPT"), ("ACCEPT", "AFFIRM")):
        r5.instances += 1
        r5.nontrivial += 1
        both = [k for k, d in by_shape.items() if truth(d, names[x]) and truth(d, names[y])]
        if both:
            r5.fail(f"is_phase:{x}/{y}", ip.loc(), f"the {x} and {y} phase tests are not mutually exclusive: one packet could be taken for both phases", [", ".join(f"{k}={v}" for k, v in both[0])[:240]])
        else:
            r5.ok({"pair": f"{x}/{y}", "packet_shapes": len(by_shape), "never_both": True})
    out.append(r5)
    # ---- R6 ---------------------------------------------------------------------------
    # Only an *offer* is broadcast to every device that is waiting to bind; accepts and confirms reach a binding device only when
    # addressed to it. In dispatcher.process_msg the branch that selects all devices with `_is_binding` must follow from a test that
    # the 1FC9's phase is the offer (a conjunct of the guarding condition) - else a neighbour's accept/confirm heard in between is
    # taken for ours and the two ends report success with different packets.
    r6 = RuleResult("R6", "only offers are broadcast to binding devices", "the `_is_binding` fan-out in process_msg is guarded by phase == offer", min_instances=1)
    pm = repo.func("ramses_rf.dispatcher.process_msg")
    offer = ctx.const("ramses_tx.const", "SZ_OFFER") if "SZ_OFFER" in ctx.consts._module_env("ramses_tx.const") else "offer"
    # the selection may sit in process_msg or in a same-module helper it calls, as an assignment or a returned expression
    from .common import expand as _expand20, facts_at, module_scope

    fan = []
    for g in module_scope(ctx, pm):
        for n in own_nodes(g.node):
            if isinstance(n, (ast.Assign, ast.Return)) and n.value is not None and any(isinstance(x, ast.Attribute) and x.attr == "_is_binding" for x in ast.walk(n.value)):
                fan.append((g, n))
    if not fan:
        raise AnalysisError("process_msg: the fan-out to binding devices was not found")
    for g, n in fan:
        r6.instances += 1
        r6.nontrivial += 1
        ok = False
        for t_, v_ in facts_at(n):
            for atom, holds in _implied(_expand20(g.node, t_, pure_only=False), v_):  # type: ignore[arg-type]
                if holds and isinstance(atom, ast.Compare) and len(atom.ops) == 1 and isinstance(atom.ops[0], ast.Eq):
                    sides = [atom.left, atom.comparators[0]]
                    consts_ = []
                    for sd in sides:
                        try:
                            consts_.append(ctx.consts.eval_in(g, sd))
                        except Exception:
                            consts_.append(None)
                    if any(c == offer for c in consts_) and any("payload" in norm(sd) and "PHASE" in norm(sd).upper() for sd in sides):
                        ok = True
        if ok:
            r6.ok({"fan_out": norm(n)[:70], "guard": "msg.payload[phase] == offer"})
        else:
            r6.fail(f"{pm.short}:binding-fan-out-not-offer-only", g.loc(n), "process_msg hands a 1FC9 to every device that is binding without requiring it to be an *offer*: an accept/confirm of an unrelated handshake is delivered to (and taken by) a device waiting for its own")
    out.append(r6)

    # ---- R7 ---------------------------------------------------------------------------
    # a wait that ends - however it ends - moves the context on: every normal way out of the state's wait passes the transition to
    # the next context state. A short cut that hands back the packet without the transition leaves the context in the waiting state:
    # the next step finds the wrong state (BindingFsmError), the device stays binding and no new attempt can start
    r7 = RuleResult("R7", "a completed wait makes its transition", "every normal return of the state's wait passes _set_context_state(); both entry points reset the same per-attempt state", min_instances=2)
    waits7 = [g for g in repo.funcs.values() if g.module.name == MOD and g.is_async and any(isinstance(n, ast.Await) for n in own_nodes(g.node)) and any(isinstance(n, ast.Call) and isinstance(n.func, ast.Attribute) and n.func.attr == "_set_context_state" for n in own_nodes(g.node))]
    if not waits7:
        raise AnalysisError("binding_fsm: the state's wait (wait_for + _set_context_state) was not found")
    for g in waits7:
        cfg7 = ctx.plain_cfg(g)
        trans = {x.id for x in cfg7.nodes if x.ast is not None and x.kind == "stmt" and any(isinstance(c, ast.Call) and isinstance(c.func, ast.Attribute) and c.func.attr in ("_set_context_state", "_handle_wait_timer_expired") and False or (isinstance(c, ast.Call) and isinstance(c.func, ast.Attribute) and c.func.attr == "_set_context_state") for c in ast.walk(x.ast))}
        dom7 = cfg7.dominators()
        for rn in [x for x in cfg7.nodes if x.kind == "stmt" and isinstance(x.ast, ast.Return)]:
            r7.instances += 1
            r7.nontrivial += 1
            if trans & dom7[rn.id]:
                r7.ok({"return": f"{g.short}: {norm(rn.ast)[:50]}", "after": "_set_context_state()"})
            else:
                r7.fail(f"{g.short}:return-without-transition", g.loc(rn.ast), f"`{norm(rn.ast)[:60]}` leaves {g.short} without the transition to the next context state: the awaited packet is handed back while the context still sits in the waiting state, so the next step of the handshake raises BindingFsmError and the device stays binding")
    # sibling agreement: whatever per-attempt state one entry point resets, the other resets too (a memo of packets seen, counters...)
    entry_r = repo.func(f"{MOD}.BindContextRespondent.wait_for_binding_request")
    entry_s = repo.func(f"{MOD}.BindContextSupplicant.initiate_binding_process")

    def resets(g) -> set[str]:
        res = set()
        for n in own_nodes(g.node):
            if isinstance(n, ast.Call) and isinstance(n.func, ast.Attribute) and n.func.attr in ("clear",) and isinstance(n.func.value, ast.Attribute) and norm(n.func.value.value) == "self":
                res.add(n.func.value.attr)
            if isinstance(n, (ast.Assign, ast.AnnAssign)):
                for t in (n.targets if isinstance(n, ast.Assign) else [n.target]):
                    if isinstance(t, ast.Attribute) and norm(t.value) == "self":
                        res.add(t.attr)
        return res

    r7.instances += 1
    r7.nontrivial += 1
    ra, rb = resets(entry_r), resets(entry_s)
    # state accumulated while receiving (appended to / added to in rcvd_msg/sent_cmd) has to be reset by both, or by neither
    accum = set()
    for g in repo.funcs.values():
        if g.module.name == MOD and g.name in ("rcvd_msg", "sent_cmd", "set_state"):
            for n in own_nodes(g.node):
                if isinstance(n, ast.Call) and isinstance(n.func, ast.Attribute) and n.func.attr in ("append", "add", "extend", "update", "setdefault") and isinstance(n.func.value, ast.Attribute) and norm(n.func.value.value) == "self":
                    accum.add(n.func.value.attr)
    one_sided = sorted((ra ^ rb) | {a for a in accum if a not in ra or a not in rb})
    if one_sided:
        r7.fail(f"{MOD}:per-attempt-state-reset-one-sided:{','.join(one_sided)}", entry_s.loc(), f"per-attempt state {one_sided} is accumulated while receiving but is not reset by both entry points (respondent resets {sorted(ra)}, supplicant resets {sorted(rb)}): what one attempt left behind changes how the next attempt on the other path treats the same packets (e.g. a byte-identical Accept is discarded as a repeat)")
    else:
        r7.ok({"per_attempt_state": sorted(accum), "reset_by_respondent": sorted(ra), "reset_by_supplicant": sorted(rb)})
    out.append(r7)
    return out


def _implied(t: ast.expr, edge: bool) -> "list[tuple[ast.expr, bool]]":
    if isinstance(t, ast.UnaryOp) and isinstance(t.op, ast.Not):
        return _implied(t.operand, not edge)
    if isinstance(t, ast.BoolOp):
        if (isinstance(t.op, ast.And) and edge) or (isinstance(t.op, ast.Or) and not edge):
            return [x for v in t.values for x in _implied(v, edge)]
        return []
    return [(t, edge)]
