"""C13 - No traffic can break the gateway: views always answer, engine keeps running."""

from __future__ import annotations

import ast
from typing import Any

from ..context import Ctx
from ..loader import AnalysisError, norm, own_nodes
from ..pairing import bracket_rule, method_call
from ..report import RuleResult
from .common import closure_rule, origin_key, policy_views, short_cls

META = {
    "explanation": (
        "C13.R1: pause/resume bracket - in Gateway.get_state and Gateway._restore_cached_packets every path from _pause() to any exit "
        "(normal, exceptional per the exception-effect analysis incl. payload arithmetic, cancellation at each await) passes _resume(). "
        "C13.R2: the public views (schema/params/status/traits/known_list... of Gateway, systems, zones, devices, fault log) cannot raise "
        "ArithmeticError or a KeyError from a computed key. C13.R3: fault-log map/log coherence (single writer; an installed timestamp is "
        "in the log). C13.R4: process_msg and the gateway's message handler are fenced (nothing escapes into the protocol). "
        "Not decided: 'every view after every history' beyond these exception classes; that foreign traffic never alters tracked state."
    ),
}
META["explanation"] += " C13.R5: payload shapes agree between the handlers that park a message and the views that read it back (list-iterated payloads are stored under a list test; constant keys read by views are produced on every return path of their producers)." + ' C13.R2 also excludes AssertionError from asserts on payload-derived data and IndexError from constant indexes into sequences of unproven length. C13.R4 also: the array-fragment merge requires source and code equality and a time window as conjuncts.'
META["explanation"] += ' C13.R6: no entity state in class-level containers.'

VIEW_NAMES = ("schema", "params", "status", "traits", "known_list", "_schema_min", "faultlog", "latest_event", "latest_fault", "active_faults")


def check(ctx: Ctx) -> list[RuleResult]:
    repo = ctx.repo
    pol = policy_views(ctx)
    ea = ctx.exc(pol)
    out: list[RuleResult] = []

    # ---- R1 ---------------------------------------------------------------------------
    r1 = RuleResult("R1", "pause/resume bracket on all exits", "every path from _pause() to any exit of get_state/_restore_cached_packets passes _resume()", min_instances=2)
    # instances are discovered: every function (outside the Engine itself) that calls _pause()
    callers = []
    for f in repo.funcs.values():
        if f.module.name.startswith(("ramses_rf", "ramses_tx")) and f.name not in ("_pause", "_resume"):
            if any(isinstance(n, ast.Call) and isinstance(n.func, ast.Attribute) and n.func.attr == "_pause" and not (isinstance(n.func.value, ast.Call)) for n in own_nodes(f.node)):
                callers.append(f)
    for f in callers:
        bracket_rule(ctx, r1, f, method_call("_pause"), method_call("_resume"), pol, "engine left paused")
    def _bracketing_cm(g) -> bool:
        """a @contextmanager generator: _pause() before the try, its only yield inside the try body, _resume() in the finally"""
        if not any("contextmanager" in d for d in g.decorators):
            return False
        trys = [t for t in own_nodes(g.node) if isinstance(t, ast.Try) and t.finalbody]
        yields = [y for y in own_nodes(g.node) if isinstance(y, (ast.Yield, ast.YieldFrom))]
        for t in trys:
            in_body = {id(x) for b in t.body for x in ast.walk(b)}
            if len(yields) == 1 and id(yields[0]) in in_body and any(method_call("_resume")(c) for fb in t.finalbody for c in ast.walk(fb) if isinstance(c, ast.Call)):
                before = [st for st in g.node.body if getattr(st, "lineno", 0) < t.lineno]
                if any(method_call("_pause")(c) for st in before for c in ast.walk(st) if isinstance(c, ast.Call)) and not any(isinstance(x, (ast.Await, ast.Yield)) for st in before for x in ast.walk(st)):
                    return True
        return False

    # "leaves the gateway running exactly as before": _resume() puts back what _pause() saved *on the objects it finds* - so the
    # engine's transport/protocol references it works through must be the live ones again by the time it runs. A store to one of
    # them inside the bracket that _resume() can still see resumes (say) a temporary transport and leaves the live source paused
    eng_pause, eng_resume = repo.func("ramses_tx.gateway.Engine._pause"), repo.func("ramses_tx.gateway.Engine._resume")
    via_attrs = {n.value.attr for g9 in (eng_pause, eng_resume) for n in own_nodes(g9.node) if isinstance(n, ast.Attribute) and isinstance(n.value, ast.Attribute) and isinstance(n.value.value, ast.Name) and n.value.value.id == "self"}
    if not via_attrs:
        raise AnalysisError("Engine._pause/_resume: the objects they act through were not found")
    for f in callers:
        cfg9 = ctx.plain_cfg(f)
        res9 = [x for x in cfg9.nodes if x.ast is not None and x.kind == "stmt" and any(isinstance(c, ast.Call) and method_call("_resume")(c) for c in ast.walk(x.ast))]
        pau9 = [x for x in cfg9.nodes if x.ast is not None and x.kind == "stmt" and any(isinstance(c, ast.Call) and method_call("_pause")(c) for c in ast.walk(x.ast))]
        r1.instances += 1
        r1.nontrivial += 1
        bad9 = []
        for x in cfg9.nodes:
            if x.ast is None or x.kind != "stmt" or not isinstance(x.ast, (ast.Assign, ast.AnnAssign, ast.AugAssign)):
                continue
            tg9 = x.ast.targets if isinstance(x.ast, ast.Assign) else [x.ast.target]
            if not any(isinstance(t, ast.Attribute) and isinstance(t.value, ast.Name) and t.value.id == "self" and t.attr in via_attrs for t0 in tg9 for t in ast.walk(t0) if isinstance(t, ast.Attribute) and isinstance(t.ctx, ast.Store)):
                continue
            after_pause = any(x.id in cfg9.reachable_from(p9.id) for p9 in pau9)
            before_resume = any(r9.id in cfg9.reachable_from(x.id) for r9 in res9)
            if after_pause and before_resume:
                # ...unless it is put back before _resume(): a later store of the same attribute that dominates the resume
                doms9 = cfg9.dominators()
                restored = any(y.id != x.id and y.id in cfg9.reachable_from(x.id) and isinstance(y.ast, ast.Assign) and norm(y.ast.targets[0]) == norm(tg9[0]) and all(y.id in doms9[r9.id] for r9 in res9 if r9.id in cfg9.reachable_from(x.id)) for y in cfg9.nodes if y.ast is not None and y.kind == "stmt")
                if not restored:
                    bad9.append(x)
        if bad9:
            r1.fail(f"{f.short}:engine-reference-swapped-inside-the-bracket", f.loc(bad9[0].ast), f"`{norm(bad9[0].ast)[:70]}` re-binds an object Engine._pause()/_resume() act through ({sorted(via_attrs)}) between the pause and the resume: _resume() then resumes the substitute and the live source stays paused - the gateway is not running as before")
        else:
            r1.ok({"function": f.short, "engine_references_stable_inside_the_bracket": sorted(via_attrs)})
    for need in ("ramses_rf.gateway.Gateway.get_state", "ramses_rf.gateway.Gateway._restore_cached_packets"):
        nf = repo.func(need)
        if nf in callers:
            continue
        # the bracket may have been packaged as a context manager: `with self.<cm>():` around the work
        via = None
        for cs in ctx.cg.calls_in(nf):
            par = getattr(cs.node, "parent", None)
            if isinstance(par, ast.withitem) and any(c in callers and _bracketing_cm(c) for c in cs.callees):
                via = next(c for c in cs.callees if c in callers and _bracketing_cm(c))
        r1.instances += 1
        r1.nontrivial += 1
        if via is not None:
            r1.ok({"function": nf.short, "bracket": f"with {via.short}(): _pause() / try: yield / finally: _resume()"})
        else:
            raise AnalysisError(f"{need} no longer calls _pause() (directly or through a bracketing context manager): the bracket anchor moved")
    out.append(r1)

    # ---- R2 ---------------------------------------------------------------------------
    r2 = RuleResult("R2", "views do not raise on payload arithmetic / computed keys", "may_raise(view) contains no ArithmeticError↓, no KeyError from a computed key, no IndexError from a constant index into a list/tuple of unproven length and no AssertionError from an assert on payload-derived data", min_instances=40)
    views = [f for f in repo.funcs.values() if f.module.name.startswith("ramses_rf") and f.name in VIEW_NAMES and f.is_property and f.parent is None]
    seen: dict[str, list[str]] = {}
    det = {}
    # memo premise (also used by R4): a *stored* message was filed under msg._pkt._ctx, whose computation (_pkt_idx) already
    # evaluated Frame._has_array inside the dispatcher's fences; the result is memoised before the asserts, so a later read from
    # a view cannot reach them. Re-established here: the memo test is the first statement of Frame._has_array and _handle_msg
    # keys the store on _ctx.
    _memo_f = repo.func("ramses_tx.frame.Frame._has_array")
    _first = _memo_f.node.body[1] if isinstance(_memo_f.node.body[0], ast.Expr) else _memo_f.node.body[0]
    _memo_ok = isinstance(_first, ast.If) and "_has_array_ is not None" in norm(_first.test) and isinstance(_first.body[0], ast.Return)
    _keyed_on_ctx = any(isinstance(n, ast.Attribute) and n.attr == "_ctx" for n in own_nodes(repo.func("ramses_rf.entity_base._MessageDB._handle_msg").node))
    memo_views = _memo_ok and _keyed_on_ctx
    for f in views:
        r2.instances += 1
        r2.nontrivial += 1
        esc = ea.may_raise(f)
        bad = [c for c in esc if ea.h.is_sub(c, "builtins.ArithmeticError") or c in ("builtins.KeyError", "builtins.IndexError", "builtins.AssertionError")]
        if not bad:
            r2.ok({"view": f.short, "may_raise": sorted(short_cls(c) for c in esc)})
            continue
        n_bad = 0
        for c in bad:
            for o, path in ea.roots(f, c):
                if memo_views and c == "builtins.AssertionError" and o.func is _memo_f:
                    continue  # memoised at store time (see above)
                n_bad += 1
                k = f"{short_cls(c)}@{origin_key(o)}"
                seen.setdefault(k, []).append(f.short)
                det.setdefault(k, (o, c, path))
        if not n_bad:
            r2.ok({"view": f.short, "may_raise": sorted(short_cls(c) for c in esc), "discharged": "Frame._has_array asserts (memoised at store time)"})
    for k, ents in seen.items():
        o, c, path = det[k]
        r2.fail(k, o.where(), f"{short_cls(c)} can leave a public view: {o.kind} {o.detail} in {o.func.short}", [f"views: {', '.join(sorted(set(ents))[:8])}{' ...' if len(set(ents)) > 8 else ''} ({len(set(ents))})", f"source: {norm(o.node)[:140]}", "call path: " + " > ".join(p.short for p in path)])
    out.append(r2)

    # ---- R5 ---------------------------------------------------------------------------
    # Shape agreement between the handlers that park a message and the views that read it back (TypeError/KeyError are not in the
    # exception model above, so these two shapes get their own structural rule):
    #  (a) a view that iterates `self.<A>.payload` as a list of dicts requires every store `self.<A> = msg` to sit under a list
    #      test of msg.payload (parsers return a list only for arrays, C05.R3) - else the view indexes strings;
    #  (b) a view that subscripts `<Message>.payload["k"]` with a constant key requires "k" to be present in every dict its
    #      producers return (a parser/helper that returns k on one path and a dict without it on another makes the read raise).
    r5 = RuleResult("R5", "payload shapes agree between handlers and views", "list-iterated payloads are stored under a list test; constant keys read by views are produced on every return path", min_instances=1)
    ent_props = [f for f in repo.funcs.values() if f.module.name.startswith("ramses_rf.") and f.is_property and f.cls is not None and f.parent is None]
    # (a)
    iterated: dict[str, tuple] = {}
    for f in ent_props:
        for n in own_nodes(f.node):
            its = []
            if isinstance(n, (ast.ListComp, ast.SetComp, ast.DictComp, ast.GeneratorExp)):
                its = [(g.iter, g.target, n) for g in n.generators]
            elif isinstance(n, ast.For):
                its = [(n.iter, n.target, n)]
            for it, tgt, scope in its:
                if isinstance(it, ast.Attribute) and it.attr == "payload" and isinstance(it.value, ast.Attribute) and isinstance(it.value.value, ast.Name) and it.value.value.id == "self" and isinstance(tgt, ast.Name):
                    # the element is used as a mapping: c["k"] / c.items()
                    if any((isinstance(x, ast.Subscript) and isinstance(x.value, ast.Name) and x.value.id == tgt.id) or (isinstance(x, ast.Attribute) and isinstance(x.value, ast.Name) and x.value.id == tgt.id and x.attr in ("items", "get", "keys")) for x in ast.walk(scope)):
                        iterated.setdefault(it.value.attr, (f, it))
    for attr, (vf, it) in sorted(iterated.items()):
        stores = []
        for g in repo.funcs.values():
            if g.cls is None or vf.cls is None or not (g.cls in vf.cls.mro or vf.cls in g.cls.mro):
                continue
            for n in own_nodes(g.node):
                if isinstance(n, ast.Assign) and any(isinstance(t, ast.Attribute) and t.attr == attr and isinstance(t.value, ast.Name) and t.value.id == "self" for t in n.targets) and isinstance(n.value, ast.Name) and n.value.id == "msg":
                    stores.append((g, n))
        for g, n in stores:
            r5.instances += 1
            r5.nontrivial += 1
            guarded = False
            p2 = getattr(n, "parent", None)
            child = n
            while p2 is not None and not isinstance(p2, (ast.FunctionDef, ast.AsyncFunctionDef)):
                if isinstance(p2, ast.If) and child in p2.body:
                    for atom, holds in _implied_true(p2.test):
                        if holds and ((isinstance(atom, ast.Call) and norm(atom.func) == "isinstance" and len(atom.args) == 2 and norm(atom.args[0]) == "msg.payload" and "list" in norm(atom.args[1])) or norm(atom) == "msg._has_array"):
                            guarded = True
                child, p2 = p2, getattr(p2, "parent", None)
            if guarded:
                r5.ok({"attribute": attr, "store": f"{g.short}: {norm(n)}", "under": "a list test of msg.payload", "iterated_by": vf.short})
            else:
                r5.fail(f"{g.short}:self.{attr}:stored-without-list-test", g.loc(n), f"{g.short} parks any message in self.{attr}, but {vf.short} iterates self.{attr}.payload as a list of dicts: a single-element (dict) payload of the same code makes the view raise TypeError")
    # (b)
    producers: dict[str, list[tuple]] = {}

    def ret_keys(g, v: ast.expr, depth: int = 0) -> "set[str] | None":
        """Keys certainly present in a returned dict expression (None = unknown)."""
        if isinstance(v, ast.Dict):
            ks: set[str] = set()
            for k, x in zip(v.keys, v.values):
                if k is None:
                    sub = ret_keys(g, x, depth + 1)
                    if sub is None:
                        return None
                    ks |= sub
                    continue
                try:
                    kv = ctx.consts.eval_in(g, k)
                except Exception:
                    return None
                if not isinstance(kv, str):
                    return None
                ks.add(kv)
            return ks
        if isinstance(v, ast.Call) and depth < 2:
            site = ctx.cg.site_of.get(id(v))
            if site is not None and len(site.callees) == 1 and not site.external:
                c = site.callees[0]
                rs = [r for r in own_nodes(c.node) if isinstance(r, ast.Return) and r.value is not None]
                sets = [ret_keys(c, r.value, depth + 1) for r in rs]
                if rs and all(x is not None for x in sets):
                    # parameterised key names (f"{key}_fault") fold to unknown -> None above; else the intersection
                    out = set(sets[0])  # type: ignore[arg-type]
                    for x in sets[1:]:
                        out &= x  # type: ignore[arg-type]
                    return out
            return None
        return None

    for g in repo.funcs.values():
        if g.module.name not in ("ramses_tx.parsers", "ramses_tx.helpers", "ramses_tx.opentherm"):
            continue
        rs = [r for r in own_nodes(g.node) if isinstance(r, ast.Return) and r.value is not None]
        sets = [(r, ret_keys(g, r.value)) for r in rs]
        known = [(r, k) for r, k in sets if k is not None]
        allk = set().union(*[k for _r, k in known]) if known else set()
        for k in allk:
            lacking = [r for r, ks in known if k not in ks]
            # a return whose dict is not understood *but is a call of a fault/alternative helper* is a definite alternative shape
            alt = [r for r, ks in sets if ks is None and isinstance(r.value, ast.Call) and "fault" in norm(r.value.func)]
            if lacking or alt:
                producers.setdefault(k, []).append((g, (lacking or alt)[0]))
    for f in sorted(ent_props, key=lambda x: x.qualname):
        for n in own_nodes(f.node):
            if isinstance(n, ast.Subscript) and isinstance(n.ctx, ast.Load) and isinstance(n.value, ast.Attribute) and n.value.attr == "payload":
                try:
                    k = ctx.consts.eval_in(f, n.slice)
                except Exception:
                    continue
                if not isinstance(k, str):
                    continue
                r5.instances += 1
                r5.nontrivial += 1
                if k in producers:
                    g, r = producers[k][0]
                    r5.fail(f"{f.qualname}:payload[{k}]:conditional-key", f.loc(n), f"{f.short} reads `{norm(n)[:50]}`, but {g.short} does not put '{k}' in every dict it returns (e.g. `{norm(r)[:60]}`): the view raises KeyError for such a message")
                else:
                    r5.ok({"view": f.short, "key": k, "produced_on_every_return_path": True})
    if r5.instances < 1:
        raise AnalysisError("C13.R5: no handler/view shape instance found")
    out.append(r5)

    # ---- R6 ---------------------------------------------------------------------------
    # Entities do not share state through class-level containers: a dict/list/set bound in a class body is one object for every
    # instance; mutating it through `self.<name>[...] = ` / `.append()` in a class that never re-binds `self.<name>` in a constructor
    # makes one system's (or device's) packets overwrite another's.
    r6 = RuleResult("R6", "no entity state in class-level containers", "a mutable class attribute is never mutated through self unless every mutating class re-binds it per instance", min_instances=1)
    MUT6 = {"append", "extend", "insert", "pop", "remove", "clear", "update", "setdefault", "popitem", "add", "discard"}
    n_cls_containers = 0
    for ci in sorted(repo.classes.values(), key=lambda c: c.fullname):
        if not ci.module.name.startswith(("ramses_rf", "ramses_tx")):
            continue
        for st in ci.node.body:
            tgt = val = None
            if isinstance(st, ast.Assign) and len(st.targets) == 1 and isinstance(st.targets[0], ast.Name):
                tgt, val = st.targets[0].id, st.value
            elif isinstance(st, ast.AnnAssign) and isinstance(st.target, ast.Name) and st.value is not None:
                tgt, val = st.target.id, st.value
            if tgt is None or not (isinstance(val, (ast.Dict, ast.List, ast.Set, ast.DictComp, ast.ListComp)) or (isinstance(val, ast.Call) and norm(val.func) in ("dict", "list", "set", "defaultdict", "deque"))):
                continue
            n_cls_containers += 1
            r6.instances += 1
            muts = []
            rebinding_classes = set()
            family = [ci] + ci.all_subclasses()
            for c in family:
                for fm in c.methods.values():
                    for n in ast.walk(fm.node):
                        if isinstance(n, ast.Subscript) and isinstance(n.ctx, (ast.Store, ast.Del)) and norm(n.value) == f"self.{tgt}":
                            muts.append((fm, n))
                        elif isinstance(n, ast.Call) and isinstance(n.func, ast.Attribute) and n.func.attr in MUT6 and norm(n.func.value) == f"self.{tgt}":
                            muts.append((fm, n))
                        elif isinstance(n, ast.AugAssign) and norm(n.target) == f"self.{tgt}" and isinstance(n.op, (ast.BitOr, ast.Add, ast.Sub, ast.BitAnd)):
                            muts.append((fm, n))  # `self.x |= {...}` / `+= [...]` call __ior__/__iadd__: the shared object is changed in place
                        elif isinstance(n, (ast.Assign, ast.AnnAssign)) and fm.name == "__init__":
                            for t in n.targets if isinstance(n, ast.Assign) else [n.target]:
                                if norm(t) == f"self.{tgt}":
                                    rebinding_classes.add(c)
            if not muts:
                r6.ok({"class_attribute": f"{ci.name}.{tgt}", "mutated_through_self": False})
                continue
            r6.nontrivial += 1
            # every class in which a mutation happens must have a constructor in its MRO (up to the defining class) that re-binds it
            bad = [(fm, n) for fm, n in muts if not any(c in rebinding_classes for c in (fm.cls.mro if fm.cls is not None else []))]
            if bad:
                fm, n = bad[0]
                r6.fail(f"{ci.fullname}.{tgt}:shared-class-container", fm.loc(n), f"{ci.name}.{tgt} is a {type(val).__name__.lower()} bound in the class body (one object shared by all instances) and {fm.short} mutates it through self without a per-instance re-binding in a constructor: what one entity learns overwrites the others' (e.g. a neighbour's controller changes this system's reported state)")
            else:
                r6.ok({"class_attribute": f"{ci.name}.{tgt}", "re-bound per instance in": sorted(c.name for c in rebinding_classes)})
    if n_cls_containers < 1:
        raise AnalysisError("no class-level container found at all: the scan is not seeing class bodies")
    out.append(r6)

    # ---- R3 ---------------------------------------------------------------------------
    r3 = RuleResult("R3", "fault-log view coherence", "FaultLog._map/_log have one writer; a timestamp installed into _map is already in _log", min_instances=3)
    fl = repo.cls("ramses_rf.system.faultlog.FaultLog")
    writers: dict[str, set[str]] = {"_map": set(), "_log": set()}
    for f in repo.funcs.values():
        for n in own_nodes(f.node):
            if isinstance(n, ast.Attribute) and n.attr in writers and isinstance(n.ctx, (ast.Store, ast.Del)):
                writers[n.attr].add(f.qualname)
            elif isinstance(n, ast.AugAssign) and isinstance(n.target, ast.Attribute) and n.target.attr in writers:
                writers[n.target.attr].add(f.qualname)
    allowed = {f"{fl.fullname}.__init__", f"{fl.fullname}._process_msg"}
    # a private method of FaultLog that only the allowed writers call (self._helper(...)) writes on their behalf
    grew = True
    while grew:
        grew = False
        for hq, h in repo.funcs.items():
            if hq in allowed or not hq.startswith(fl.fullname + "._") or hq.count(".") != fl.fullname.count(".") + 1:
                continue
            callers = {g.qualname for g in repo.funcs.values() if g is not h and any(isinstance(c, ast.Call) and isinstance(c.func, ast.Attribute) and c.func.attr == h.name for c in ast.walk(g.node))}
            if callers and callers <= allowed:
                allowed.add(hq)
                grew = True
    for attr, ws in writers.items():
        r3.instances += 1
        r3.nontrivial += 1
        extra = {w for w in ws if w not in allowed and w.startswith("ramses_rf.system.faultlog")}
        if extra:
            r3.fail(f"FaultLog.{attr}:writers", fl.module.rel, f"FaultLog.{attr} is written outside __init__/_process_msg: {sorted(extra)}")
        else:
            r3.ok({"attr": attr, "writers": sorted(w.rsplit('.', 1)[-1] for w in ws if w.startswith(fl.fullname))})
    pm = repo.func(f"{fl.fullname}._process_msg")
    cfg = ctx.cfg(pm, pol)
    installs = [n for n in cfg.nodes if n.kind == "stmt" and isinstance(n.ast, ast.Assign) and norm(n.ast.targets[0]) == "self._map" and "_insert_into_map" in norm(n.ast.value)]
    for n in installs:
        call = n.ast.value  # type: ignore[union-attr]
        arg = call.args[1] if isinstance(call, ast.Call) and len(call.args) > 1 else None
        if arg is None or (isinstance(arg, ast.Constant) and arg.value is None):
            continue
        r3.instances += 1
        r3.nontrivial += 1
        key = norm(arg)
        # accepted idiom: a dominating `if <dtm> not in self._log: self._log |= {<dtm>: ...}` (or an unconditional insertion)
        ok = False
        for d in cfg.dominated_by(n, lambda x: x.kind == "test" and isinstance(x.ast, ast.Compare)):
            t = d.ast
            if isinstance(t, ast.Compare) and len(t.ops) == 1 and isinstance(t.ops[0], ast.NotIn) and norm(t.left) == key and norm(t.comparators[0]) == "self._log":
                body = getattr(d, "stmt").body
                if any(isinstance(b, (ast.AugAssign, ast.Assign)) and "self._log" in norm(b) and key in norm(b) for b in body):
                    ok = True
        if ok:
            r3.ok({"install": norm(n.ast), "dominated_by": f"if {key} not in self._log: insert"})
        else:
            r3.fail(f"{pm.short}:{norm(n.ast)}", pm.loc(n.ast), "a timestamp is installed into FaultLog._map without first being added to FaultLog._log: the faultlog view would raise KeyError")
    out.append(r3)

    # ---- R4 ---------------------------------------------------------------------------
    r4 = RuleResult("R4", "message fences", "the gateways' _msg_handler let nothing escape (up to process_msg); process_msg fences its dispatch; entity handlers are deferred", min_instances=5)
    pm2 = repo.func("ramses_rf.dispatcher.process_msg")
    entries = [repo.func("ramses_rf.gateway.Gateway._msg_handler"), repo.func("ramses_tx.gateway.Engine._msg_handler")]
    # memo premise: Frame._has_array asserts run at most once (the result is memoised before them); every parser of an
    # array-capable code reads msg._has_array, so for a *delivered* message that first run happened inside Message()'s fence
    has_arr = repo.func("ramses_tx.message.MessageBase._has_array")
    arr_codes = ctx.const("ramses_tx.ramses", "CODES_WITH_ARRAYS")
    cut = [pm2]
    premise = True
    for code in sorted(arr_codes):
        r4.instances += 1
        r4.nontrivial += 1
        pf = repo.funcs.get(f"ramses_tx.parsers.parser_{code.lower()}")
        reads = pf is not None and any(isinstance(st, ast.If) and any(isinstance(n, ast.Attribute) and n.attr == "_has_array" for n in ast.walk(st.test)) for st in pf.node.body)
        if reads:
            r4.ok({"memo_premise": f"parser_{code.lower()} reads msg._has_array at its top level"})
        else:
            premise = False
            r4.notes.append(f"parser_{code.lower()} does not read msg._has_array at its top level: the memo premise fails, asserts behind MessageBase._has_array are then counted")
            r4.ok({"memo_premise": f"parser_{code.lower()}: not established"})
    memo = repo.func("ramses_tx.frame.Frame._has_array")
    first = memo.node.body[1] if isinstance(memo.node.body[0], ast.Expr) else memo.node.body[0]
    memo_ok = isinstance(first, ast.If) and "_has_array_ is not None" in norm(first.test) and isinstance(first.body[0], ast.Return)
    if premise and memo_ok:
        cut.append(has_arr)
    closure_rule(ctx, r4, ea, entries, [], "the gateway's message handler", cut=cut)
    # process_msg: the dispatch calls sit in a try whose handlers cover the families the dispatch layer raises by design
    tries = [n for n in pm2.node.body if isinstance(n, ast.Try)]
    if len(tries) != 1:
        raise AnalysisError("process_msg no longer has exactly one top-level try")
    tr = tries[0]
    caught: list[str] = []
    for h in tr.handlers:
        caught += ea._handler_classes(h, pm2)
    required = ["builtins.AssertionError", "ramses_tx.exceptions.RamsesException", "builtins.NotImplementedError", "builtins.LookupError", "builtins.ValueError", "builtins.TypeError", "builtins.AttributeError"]
    for req in required:
        r4.instances += 1
        r4.nontrivial += 1
        if any(ea.h.is_sub(req, c) for c in caught):
            r4.ok({"process_msg_fences": short_cls(req)})
        else:
            r4.fail(f"{pm2.short}:fence:{short_cls(req)}", pm2.loc(tr), f"process_msg's fence no longer catches {short_cls(req)}: a packet that trips it would raise out of the dispatcher")
    # every call into the dispatch layer is inside that try (not before it, not in its else/finally)
    dispatchers = ("_check_msg_addrs", "_create_devices_from_addrs", "_check_src_slug", "_check_dst_slug")
    inside = {id(n) for b in tr.body for n in ast.walk(b)}
    n_disp = 0
    for n in own_nodes(pm2.node):
        if isinstance(n, ast.Call) and isinstance(n.func, ast.Name) and n.func.id in dispatchers:
            n_disp += 1
            r4.instances += 1
            r4.nontrivial += 1
            if id(n) in inside:
                r4.ok({"fenced_call": n.func.id})
            else:
                r4.fail(f"{pm2.short}:unfenced:{n.func.id}", pm2.loc(n), f"{n.func.id}() is called outside process_msg's fence")
    if n_disp < 3:
        raise AnalysisError("process_msg's dispatch calls were not found")
    for s2 in ctx.cg.calls_in(pm2):
        if any(c.name == "_handle_msg" for c in s2.callees):
            r4.instances += 1
            r4.nontrivial += 1
            if s2.kind == "deferred":
                r4.ok({"site": s2.text[:70], "kind": "deferred"})
            else:
                r4.fail(f"{pm2.short}:{s2.text[:60]}", pm2.loc(s2.node), "an entity's _handle_msg is called synchronously from process_msg: its exceptions would no longer be isolated from the dispatcher")
    # the array-merge of the gateway handler may only splice packets of one device, one code, within the time window: the three
    # equalities must be implied by a true result of detect_array_fragment (conjuncts, not disjuncts)
    daf = repo.func("ramses_rf.dispatcher.detect_array_fragment")
    rets = [n for n in own_nodes(daf.node) if isinstance(n, ast.Return) and n.value is not None]
    if len(rets) != 1:
        raise AnalysisError("detect_array_fragment: expected a single return expression")
    rv = rets[0].value
    if isinstance(rv, ast.Call) and norm(rv.func) == "bool" and len(rv.args) == 1:
        rv = rv.args[0]
    atoms = [a for a, holds in _implied_true(rv) if holds]
    def eq_between(a: ast.expr, x: str, y: str) -> bool:
        if not (isinstance(a, ast.Compare) and all(isinstance(o, (ast.Eq, ast.Is)) for o in a.ops)):
            return False
        terms = [norm(a.left)] + [norm(c) for c in a.comparators]
        return any(t in (f"this.{x}", f"this.{x}.id") for t in terms) and any(t in (f"prev.{y}", f"prev.{y}.id") for t in terms)
    for what, x in (("the same source device", "src"), ("the same code", "code")):
        r4.instances += 1
        r4.nontrivial += 1
        if any(eq_between(a, x, x) for a in atoms):
            r4.ok({"array_merge_requires": what})
        else:
            r4.fail(f"{daf.short}:merge-without-{x}-equality", daf.loc(rets[0]), f"detect_array_fragment no longer requires {what} (whole-{x} equality of the two packets): an unrelated packet (e.g. another controller's array within the 3 s window) is spliced into this device's array")
    r4.instances += 1
    r4.nontrivial += 1
    if any(isinstance(a, ast.Compare) and "this.dtm" in norm(a) and "prev.dtm" in norm(a) and any(isinstance(o, (ast.Lt, ast.LtE, ast.Gt, ast.GtE)) for o in a.ops) for a in atoms):
        r4.ok({"array_merge_requires": "a time window between the two packets"})
    else:
        r4.fail(f"{daf.short}:merge-without-time-window", daf.loc(rets[0]), "detect_array_fragment no longer bounds the time between the two packets")
    # a device's class may be learnt from traffic - its own. The dispatcher creates the devices a packet names; handing the packet to
    # get_device() for a device that is only the *addressee* would class it by somebody else's message (a fan first seen as the
    # destination of a remote's 22F1 becomes a remote, and every packet of its own is rejected from then on)
    cda = [g for g in repo.funcs.values() if g.module.name == "ramses_rf.dispatcher" and any(isinstance(c, ast.Call) and isinstance(c.func, ast.Attribute) and c.func.attr == "get_device" for c in own_nodes(g.node))]
    for g in cda:
        for c in own_nodes(g.node):
            if isinstance(c, ast.Call) and isinstance(c.func, ast.Attribute) and c.func.attr == "get_device" and c.args:
                r4.instances += 1
                r4.nontrivial += 1
                who = norm(c.args[0])
                passes_msg = any(k.arg == "msg" and not (isinstance(k.value, ast.Constant) and k.value.value is None) for k in c.keywords)
                if passes_msg and ".dst" in who:
                    r4.fail(f"{g.short}:addressee-classed-by-foreign-msg", g.loc(c), f"`{norm(c)[:70]}` hands the packet to get_device() for its *destination*: a device of an indeterminate type is then given the class implied by another device's message, and its own packets are rejected as unexpected for that class")
                else:
                    r4.ok({"create": norm(c)[:60], "classed_by_foreign_msg": False})
    out.append(r4)

    # ---- R7 ---------------------------------------------------------------------------
    # objects change class at run time (`self.__class__ = <more specific class>`: a generic HVAC device once its role is
    # eavesdropped, a zone once its type is known) and the new class's __init__ never runs. Every instance attribute the new class's
    # methods read must therefore exist already: set by the __init__ chain of the class the object was created as, or defaulted at
    # class level - else the first view that touches it raises AttributeError, for exactly the devices nobody configured
    r7 = RuleResult("R7", "classes an object is promoted to add no instance state of their own", "for every (creation class -> promoted class) pair, each self attribute read by the promoted class's methods is set by the creation class's __init__ chain or has a class-level default", min_instances=8)
    pairs7: list[tuple[Any, Any]] = []
    dh = repo.classes.get("ramses_rf.device.base.DeviceHvac")
    zn = repo.classes.get("ramses_rf.system.zones.Zone")
    if dh is None or zn is None:
        raise AnalysisError("DeviceHvac / Zone not found")
    promo_sites = [f for f in repo.funcs.values() if f.module.name.startswith("ramses_rf") and any(isinstance(n, ast.Attribute) and n.attr == "__class__" and isinstance(n.ctx, ast.Store) for n in own_nodes(f.node))]
    if len(promo_sites) < 2:
        raise AnalysisError(f"expected the device and zone promotion sites (`self.__class__ = ...`), found {[f.short for f in promo_sites]}")
    # the classes a generic HVAC device can become are the ones the eavesdropping table names (folded on every run)
    vc = ctx.const("ramses_tx.ramses", "HVAC_KLASS_BY_VC_PAIR")
    slugs7 = {str(x) for x in vc.values()} if hasattr(vc, "values") else set()
    if not slugs7:
        raise AnalysisError("HVAC_KLASS_BY_VC_PAIR does not fold to a table of device classes")
    for t in dh.all_subclasses():
        sl = t.class_attr("_SLUG")
        slug = ctx.consts.eval_in(next(iter(t.methods.values())), sl) if sl is not None and t.methods else None
        if slug is None and sl is not None:
            slug = norm(sl).rsplit(".", 1)[-1]
        if str(slug) in slugs7:
            pairs7.append((dh, t))
    for t in zn.all_subclasses():
        pairs7.append((zn, t))

    def init_attrs(ci) -> set[str]:
        res = set()
        for k in ci.mro:
            m = k.methods.get("__init__")
            if m is not None:
                for n in own_nodes(m.node):
                    if isinstance(n, ast.Attribute) and isinstance(n.ctx, ast.Store) and isinstance(n.value, ast.Name) and n.value.id == "self":
                        res.add(n.attr)
        return res

    for src7, tgt7 in pairs7:
        r7.instances += 1
        r7.nontrivial += 1
        have = init_attrs(src7)
        extra = init_attrs(tgt7) - have
        extra = {a for a in extra if not any(k.class_attr(a) is not None for k in tgt7.mro)}
        hits = []
        for a in sorted(extra):
            for k in tgt7.mro:
                for m in k.methods.values():
                    if m.name == "__init__":
                        continue
                    for n in own_nodes(m.node):
                        if isinstance(n, ast.Attribute) and n.attr == a and isinstance(n.ctx, ast.Load) and isinstance(n.value, ast.Name) and n.value.id == "self":
                            hits.append((a, m, n))
        if hits:
            a, m, n = hits[0]
            r7.fail(f"{tgt7.name}:state-missing-after-promotion:{a}", m.loc(n), f"an object created as {src7.name} and promoted to {tgt7.name} (`self.__class__ = ...`, no __init__) has no attribute `{a}` (set only in {tgt7.name}'s own __init__ chain, no class-level default), but {m.short} reads self.{a}: AttributeError from {'a public view' if m.is_property else 'a method'} of exactly the devices/zones whose class was learnt from traffic", [f"{len(hits)} read(s) of {sorted({h[0] for h in hits})}"])
        else:
            r7.ok({"promotion": f"{src7.name} -> {tgt7.name}", "instance_state_added": sorted(extra)})
    out.append(r7)
    return out


def _implied_true(t: ast.expr, edge: bool = True) -> "list[tuple[ast.expr, bool]]":
    """Atoms whose truth follows from the expression being `edge` (conjuncts of and-chains / disjuncts of negated or-chains)."""
    if isinstance(t, ast.UnaryOp) and isinstance(t.op, ast.Not):
        return _implied_true(t.operand, not edge)
    if isinstance(t, ast.BoolOp):
        if (isinstance(t.op, ast.And) and edge) or (isinstance(t.op, ast.Or) and not edge):
            return [x for v in t.values for x in _implied_true(v, edge)]
        return []
    return [(t, edge)]
