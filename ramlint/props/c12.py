"""C12 - Active discovery reconstructs the controller's configuration, whatever it is."""

from __future__ import annotations

import ast
from typing import Any

from ..consteval import TOP
from ..context import Ctx
from ..loader import AnalysisError, FuncInfo, norm, own_nodes
from ..report import RuleResult
from .common import closure_rule, policy_views

META = {
    "explanation": (
        "Reconstruction for every configuration under every loss pattern is behavioural and is NOT decided. Claimed, narrowly: "
        "C12.R1 probe-set exhaustiveness - folding the payloads registered by the _setup_discovery_cmds of SystemBase/MultiZone/StoredHw/"
        "DhwZone/Zone and comparing with the role tables of const.py: every heat-zone class and the sensor role are probed with 0005, the "
        "appliance control, both DHW valves and the DHW sensor with 000C, and each zone probes its own actuator role and the sensor role. "
        "C12.R2 reply-handler coverage - for each probed code an entity _handle_msg has a branch on that code that reaches "
        "get_htg_zone/get_dhw_zone/get_device(parent=...). C12.R3 loss only delays - in _Discovery.discover the next-due time is re-armed "
        "on both outcomes of a send, send_disc_cmd fences ProtocolError and TimeoutError, and nothing can escape _poll_discovery_cmds (one "
        "failure cannot end the poller). C12.R4 nothing learned is lost - the topology containers have no del/pop/remove/clear/re-assignment "
        "outside constructors and the test-only clear_state."
    ),
}
META["explanation"] += ' C12.R5: every zone promotion is followed on all paths by a rebuild of the probe table. C12.R6: in Gateway.start the restored discovery flag dominates the test guarding initiate_discovery().'

H = "ramses_rf.system.heat"
Z = "ramses_rf.system.zones"
EB = "ramses_rf.entity_base"


def _probes(ctx: Ctx, f: FuncInfo, self_env: dict[str, Any] | None = None) -> list[tuple[str, str]]:
    """[(code, payload)] of the Command.from_attrs(RQ, _, CODE, payload) registrations in f (loops over folded tuples unrolled)."""
    out: list[tuple[str, str]] = []

    def ev(e: ast.expr, env: dict[str, Any]) -> Any:
        try:
            return ctx.consts.eval_in(f, e, env)
        except Exception:
            return TOP

    def visit(body: list[ast.stmt], env: dict[str, Any]) -> None:
        for st in body:
            if isinstance(st, ast.For):
                it = ev(st.iter, env)
                if it is TOP:
                    # elements may mention self.<attr>: evaluate element-wise
                    if isinstance(st.iter, (ast.Tuple, ast.List)):
                        it = [ev(x, env) for x in st.iter.elts]
                    else:
                        raise AnalysisError(f"{f.short}: discovery loop over `{norm(st.iter)[:50]}` does not fold")
                for v in it:
                    e2 = dict(env)
                    if isinstance(st.target, ast.Name):
                        e2[st.target.id] = v
                    visit(st.body, e2)
            else:
                for n in ast.walk(st):
                    if isinstance(n, ast.Call) and norm(n.func) == "Command.from_attrs" and len(n.args) >= 4:
                        code, pay = ev(n.args[2], env), ev(n.args[3], env)
                        if isinstance(code, str) and isinstance(pay, str):
                            out.append((code, pay))
                        elif isinstance(code, str):
                            out.append((code, f"?{norm(n.args[3])}"))
                # a local `cmd = Command.from_attrs(...)` is covered by the walk above

    visit(f.node.body, dict(self_env or {}))
    return out


def _under_clear_flag(f, n: ast.AST) -> bool:
    """The statement runs only when the enclosing restore function's `_clear_state` parameter (default False) is true: directly
    under such a test, or in a local helper every call of which is."""
    from .common import known_at

    def flag_fn(g) -> bool:
        a = g.node.args
        names = [x.arg for x in a.args + a.kwonlyargs]
        if "_clear_state" not in names:
            return False
        defaults = dict(zip([x.arg for x in a.args][len(a.args) - len(a.defaults):], a.defaults))
        defaults.update({k.arg: d for k, d in zip(a.kwonlyargs, a.kw_defaults) if d is not None})
        d = defaults.get("_clear_state")
        return isinstance(d, ast.Constant) and d.value is False

    st = n
    while not isinstance(st, ast.stmt):
        st = st.parent  # type: ignore[attr-defined]
    if flag_fn(f):
        return known_at(st, "_clear_state")
    par = f.parent
    if par is not None and flag_fn(par):
        calls = [c for c in own_nodes(par.node) if isinstance(c, ast.Call) and isinstance(c.func, ast.Name) and c.func.id == f.name]
        def stmt_of(c: ast.AST) -> ast.stmt:
            while not isinstance(c, ast.stmt):
                c = c.parent  # type: ignore[attr-defined]
            return c  # type: ignore[return-value]
        return bool(calls) and all(known_at(stmt_of(c), "_clear_state") for c in calls)
    return False


def check(ctx: Ctx) -> list[RuleResult]:
    repo = ctx.repo
    out: list[RuleResult] = []
    dev_role = ctx.const("ramses_tx.const", "DEV_ROLE_MAP")
    zon_role = ctx.const("ramses_tx.const", "ZON_ROLE_MAP")
    heat_zones = list(zon_role.getattr("HEAT_ZONES"))
    SEN = dev_role.getattr("SEN")

    # ---- R1 ---------------------------------------------------------------------------
    r1 = RuleResult("R1", "probe-set exhaustiveness", "every role the controller can have is asked for", min_instances=10)
    sysb = _probes(ctx, repo.func(f"{H}.SystemBase._setup_discovery_cmds"))
    mz = _probes(ctx, repo.func(f"{H}.MultiZone._setup_discovery_cmds"))
    shw = _probes(ctx, repo.func(f"{H}.StoredHw._setup_discovery_cmds"))
    dhwz = _probes(ctx, repo.func(f"{Z}.DhwZone._setup_discovery_cmds"))
    want = [
        # system-level probes: a DHW zone only exists once one of these was answered, so its own probes do not count here
        ("appliance control", "000C", "00" + dev_role.getattr("APP"), sysb + shw),
        ("hot-water valve", "000C", "00" + dev_role.getattr("HTG"), sysb + shw),
        ("heating valve", "000C", "01" + dev_role.getattr("HTG"), sysb + shw),
        ("DHW sensor", "000C", "00" + dev_role.getattr("DHW"), sysb + shw),
        ("zones with a sensor", "0005", "00" + SEN, mz),
    ] + [(f"zones of class {zon_role.getitem(z)}", "0005", "00" + z, mz) for z in heat_zones]
    for what, code, pay, have in want:
        r1.instances += 1
        r1.nontrivial += 1
        if (code, pay) in have:
            r1.ok({"probe": f"RQ|{code} {pay}", "for": what})
        else:
            r1.fail(f"discovery:missing:{code}:{pay}", repo.mod(H).rel, f"no discovery command asks the controller for {what} (RQ|{code} payload {pay}): that part of the configuration would never be learned")
    # each zone class probes its own actuator role + the sensor role
    zfun = repo.func(f"{Z}.Zone._setup_discovery_cmds")
    zone_classes = [c for c in repo.classes.values() if c.module.name == Z and any(b.name == "Zone" for b in c.mro) and c.class_attr("_ROLE_ACTUATORS") is not None]
    seen_roles = set()
    for c in zone_classes:
        role = ctx.consts.eval_in(c.module, c.class_attr("_ROLE_ACTUATORS"))
        if not isinstance(role, str):
            raise AnalysisError(f"{c.name}._ROLE_ACTUATORS does not fold")
        seen_roles.add(role)
    pr = _probes(ctx, zfun, {"self": TOP})
    r1.instances += 1
    r1.nontrivial += 1
    txt = norm(zfun.node)
    if "for dev_role in (self._ROLE_ACTUATORS, DEV_ROLE_MAP.SEN)" in txt and "f'{self.idx}{dev_role}'" in txt and "Code._000C" in txt:
        r1.ok({"zone_probes": "000C x (own actuator role, sensor role)", "actuator_roles_by_class": sorted(seen_roles)})
    else:
        r1.fail("Zone:discovery-roles", zfun.loc(), "a zone no longer probes 000C for both its own actuator role and the sensor role")
    r1.instances += 1
    r1.nontrivial += 1
    missing = [z for z in heat_zones if z not in seen_roles]
    if not missing:
        r1.ok({"every_heat_zone_class_has_a_Zone_subclass_probing_it": sorted(seen_roles & set(heat_zones))})
    else:
        r1.fail("Zone:roles-vs-HEAT_ZONES", repo.mod(Z).rel, f"no Zone subclass probes the actuator role(s) {missing} listed in ZON_ROLE_MAP.HEAT_ZONES")
    out.append(r1)

    # ---- R2 ---------------------------------------------------------------------------
    r2 = RuleResult("R2", "reply-handler coverage", "each probed code has a handler branch that attaches what the reply names", min_instances=4)
    handlers = [
        (f"{H}.MultiZone._handle_msg", "_0005", ("get_htg_zone",)),
        (f"{H}.MultiZone._handle_msg", "_000C", ("get_htg_zone",)),
        (f"{Z}.Zone._handle_msg", "_000C", ("get_device",)),
        (f"{H}.StoredHw._handle_msg", "_000C", ("get_dhw_zone",)),
        (f"{Z}.DhwZone._handle_msg", "_000C", ("get_device",)),
        (f"{H}.SystemBase._handle_msg", "_000C", ("get_device", "set_parent")),
    ]
    for qn, code, callees in handlers:
        f = repo.func(qn)
        r2.instances += 1
        r2.nontrivial += 1
        hit = False
        cfg = ctx.plain_cfg(f)
        closure_names = [g.name for g in f.nested.values() if any(c + "(" in norm(g.node) for c in callees)]
        # ... or a private method of the same class (part of the handler that was given a name)
        for cs in ctx.cg.calls_in(f):
            for g in cs.callees:
                if g is not f and g.cls is not None and f.cls is not None and g.cls in f.cls.mro and g.name != f.name and g.name.startswith("_") and any(c + "(" in norm(g.node) for c in callees) and g.name not in closure_names:
                    closure_names.append(g.name)
        targets = [x for x in cfg.nodes if x.ast is not None and x.kind in ("stmt", "test") and (any(c + "(" in norm(x.ast) for c in callees) or any(g + "(" in norm(x.ast) for g in closure_names))]
        tests = [t for t in cfg.nodes if t.kind == "test" and f"Code.{code}" in norm(t.ast)]
        for t in tests:
            for x in targets:
                if cfg.edge_dominates(t, "true", x) or cfg.edge_dominates(t, "false", x):
                    hit = True
        if hit:
            r2.ok({"handler": f.short, "code": code[1:], "attaches_via": list(callees)})
        else:
            r2.fail(f"{f.short}:{code}", f.loc(), f"{f.short} has no branch on Code.{code} that reaches {' / '.join(callees)}: the reply to the probe would be ignored")
    # the system's 000C branch passes every role that is probed on to the zones: its role filter, folded for each probed role (the
    # zone classes' actuator roles and the sensor role), lets all of them through - a filter rewritten as a range over the role
    # codes silently drops a role that is not contiguous with the others (electric zones: 0x11)
    from .common import Unfoldable as _Unf2
    from .common import fold_expr as _fold2

    mzh = repo.func(f"{H}.MultiZone._handle_msg")
    role_tests = [n for n in own_nodes(mzh.node) if isinstance(n, ast.If) and "SZ_ZONE_TYPE" in norm(n.test) and n.body and isinstance(n.body[-1], ast.Return)]
    if not role_tests:
        raise AnalysisError("MultiZone._handle_msg: the 000C role filter was not found")
    subj = next((norm(x) for x in ast.walk(role_tests[0].test) if isinstance(x, ast.Subscript) and "SZ_ZONE_TYPE" in norm(x.slice)), None)
    for role in sorted(seen_roles | {SEN}):
        r2.instances += 1
        r2.nontrivial += 1
        try:
            dropped2 = bool(_fold2(mzh.node, role_tests[0].test, {subj: role}, ctx.consts, mzh))
        except (_Unf2, TypeError):
            r2.notes.append(f"MultiZone._handle_msg: the role filter `{norm(role_tests[0].test)[:60]}` does not fold for role {role} (undecided)")
            r2.ok({"role": role, "filter": "undecided"})
            continue
        if dropped2:
            r2.fail(f"{mzh.short}:probed-role-filtered:{role}", mzh.loc(role_tests[0]), f"the system's 000C branch returns early for role {role} (`{norm(role_tests[0].test)[:70]}`), although zones of that class probe RQ|000C|zz{role}: the replies never reach the zone, so its actuators are never learnt")
        else:
            r2.ok({"role": role, "passes_the_000C_role_filter": True})
    out.append(r2)

    # ---- R3 ---------------------------------------------------------------------------
    r3 = RuleResult("R3", "loss only delays", "next-due is re-armed on both outcomes; send failures are fenced; the poller cannot die", min_instances=4)
    disc = repo.func(f"{EB}._Discovery.discover")
    sends = [n for n in own_nodes(disc.node) if isinstance(n, ast.If) and "send_disc_cmd" in norm(n.test)]
    r3.instances += 1
    r3.nontrivial += 1
    if sends and all(any("task[_SZ_NEXT_DUE] =" in norm(b) for b in s.body) and any("task[_SZ_NEXT_DUE] =" in norm(b) for b in s.orelse) for s in sends):
        r3.ok({"next_due": "re-armed on success and on failure"})
    else:
        r3.fail(f"{disc.short}:next_due", disc.loc(), "after a discovery send, the next-due time is not re-armed on both outcomes: a lost reply could stop that command from ever being retried")
    sdc = disc.nested.get("send_disc_cmd")
    if sdc is None:
        raise AnalysisError("discover.send_disc_cmd not found")
    ea = ctx.exc(policy_views(ctx))
    r3.instances += 1
    r3.nontrivial += 1
    caught: list[str] = []
    for t in own_nodes(sdc.node):
        if isinstance(t, ast.Try):
            for h in t.handlers:
                caught += ea._handler_classes(h, sdc)
    if any(ea.h.is_sub("ramses_tx.exceptions.ProtocolError", c) for c in caught) and any(ea.h.is_sub("builtins.TimeoutError", c) for c in caught):
        r3.ok({"send_disc_cmd_fences": [c.rsplit(".", 1)[-1] for c in caught]})
    else:
        r3.fail(f"{sdc.short}:fences", sdc.loc(), f"send_disc_cmd catches {caught}: both ProtocolError and TimeoutError must be fenced")
    poll = repo.func(f"{EB}._Discovery._poll_discovery_cmds")
    cut = [
        repo.func("ramses_rf.gateway.Gateway.async_send_cmd"),
        repo.func(f"{EB}._Discovery.discovery_cmds"),
        repo.func(f"{EB}._MessageDB._get_msg_by_hdr"),
        repo.func(f"{EB}._MessageDB._msgz"),
        repo.func(f"{EB}._MessageDB._msgs"),
    ]
    closure_rule(ctx, r3, ea, [poll, disc], [], "the discovery poller (it would end polling for this entity)", ignore=["asyncio.exceptions.CancelledError", "builtins.NotImplementedError", "builtins.OverflowError"], cut=cut)
    # the poller's own bookkeeping: a table entry that was just set to None in this block is not dereferenced further down the same
    # block (the failure branch clears `last_pkt`; formatting its `.dtm` there raises AttributeError and ends this entity's polling)
    r3.instances += 1
    r3.nontrivial += 1
    none_derefs = []
    for g in [disc] + list(disc.nested.values()):
        for blk_owner in own_nodes(g.node):
            for fld in ("body", "orelse", "finalbody"):
                blk = getattr(blk_owner, fld, None)
                if not isinstance(blk, list):
                    continue
                nulled: dict[str, ast.AST] = {}
                for st in blk:
                    if not isinstance(st, ast.stmt):
                        continue
                    for x in ast.walk(st):
                        if isinstance(x, ast.Attribute) and isinstance(x.ctx, ast.Load) and norm(x.value) in nulled and not isinstance(st, (ast.If, ast.While, ast.For, ast.Try)):
                            none_derefs.append((g, x, nulled[norm(x.value)]))
                    if isinstance(st, ast.Assign):
                        for t in st.targets:
                            if isinstance(st.value, ast.Constant) and st.value.value is None:
                                nulled[norm(t)] = st
                            else:
                                nulled.pop(norm(t), None)
                    elif isinstance(st, (ast.If, ast.While, ast.For, ast.Try, ast.With)):
                        nulled.clear()
    # ...and an entry of the polling table that is None at some time (cleared on failure, or not set yet) is only dereferenced under
    # a test of it
    from .common import edge_implies as _ei3
    from .common import facts_at as _fa3

    none_keys: set[str] = set()
    for g in repo.funcs.values():
        if g.cls is None or g.cls.name != "_Discovery":
            continue
        for n in own_nodes(g.node):
            if isinstance(n, ast.Assign) and isinstance(n.value, ast.Constant) and n.value.value is None:
                for t in n.targets:
                    if isinstance(t, ast.Subscript):
                        none_keys.add(norm(t.slice))
            elif isinstance(n, ast.Dict):
                for k, v in zip(n.keys, n.values):
                    if k is not None and isinstance(v, ast.Constant) and v.value is None:
                        none_keys.add(norm(k))
    for g in [disc] + list(disc.nested.values()):
        for x in own_nodes(g.node):
            if isinstance(x, ast.Attribute) and isinstance(x.ctx, ast.Load) and isinstance(x.value, ast.Subscript) and norm(x.value.slice) in none_keys:
                st3 = x
                while not isinstance(st3, ast.stmt):
                    st3 = st3.parent  # type: ignore[attr-defined]
                goal3 = ast.parse(norm(x.value), mode="eval").body
                if not any(_ei3(t, v, goal3) for t, v in _fa3(st3)):
                    none_derefs.append((g, x, ast.parse(f"{norm(x.value)} = None").body[0]))
    if none_derefs:
        g, x, st0 = none_derefs[0]
        r3.fail(f"{g.short}:none-dereferenced:{norm(x)[:40]}", g.loc(x), f"`{norm(x)[:50]}` is read although `{norm(st0)[:50]}` can be in force (the entry is cleared on a failed send and unset before the first success), with no test of it: AttributeError on None inside discover(), which ends this entity's discovery poller for good")
    else:
        r3.ok({"None_dereferences_in_discover": 0})
    r3.notes.append(
        "cut points: Gateway.async_send_cmd (error family decided by C07.R2, fenced by send_disc_cmd); discovery_cmds (the library's own "
        "commands: C03); _MessageDB._get_msg_by_hdr's explicit `raise LookupError` (header mismatch between a stored message and the lookup key) "
        "is NOT decided - its feasibility depends on which foreign packets are routed to the entity; the sqlite index properties. "
        "OverflowError from wall-clock arithmetic with configured intervals is outside the model"
    )
    out.append(r3)

    # ---- R4 ---------------------------------------------------------------------------
    r4 = RuleResult("R4", "nothing learned is lost", "topology containers only grow", min_instances=8)
    containers = {"zones", "zone_by_idx", "actuators", "actuator_by_id", "childs", "child_by_id", "devices", "device_by_id", "circuit_by_id"}
    SHRINK = {"pop", "remove", "clear", "popitem", "__delitem__"}
    n_sites = 0
    for f in repo.funcs.values():
        if not f.module.name.startswith("ramses_rf"):
            continue
        for n in own_nodes(f.node):
            attr = None
            kind = None
            if isinstance(n, ast.Call) and isinstance(n.func, ast.Attribute) and n.func.attr in SHRINK and isinstance(n.func.value, ast.Attribute) and n.func.value.attr in containers:
                attr, kind = n.func.value.attr, f".{n.func.attr}()"
            elif isinstance(n, ast.Delete):
                for t in n.targets:
                    if isinstance(t, ast.Subscript) and isinstance(t.value, ast.Attribute) and t.value.attr in containers:
                        attr, kind = t.value.attr, "del [...]"
            elif isinstance(n, (ast.Assign, ast.AnnAssign)) and n.value is not None:
                for t in n.targets if isinstance(n, ast.Assign) else [n.target]:
                    if isinstance(t, ast.Attribute) and t.attr in containers and isinstance(t.value, ast.Name) and t.value.id == "self":
                        attr, kind = t.attr, "re-assignment"
            if attr is None:
                continue
            n_sites += 1
            r4.instances += 1
            r4.nontrivial += 1
            if f.name == "__init__" and kind == "re-assignment":
                r4.ok({"site": f"{f.short}: self.{attr} = ...", "why": "constructor"})
            elif kind == "re-assignment" and _under_clear_flag(f, n):
                r4.ok({"site": f"{f.short}: self.{attr} = ...", "why": "explicit reset, reached only under the restore's _clear_state flag (default False)"})
            else:
                r4.fail(f"{f.short}:{attr}:{kind}", f.loc(n), f"{f.short} shrinks/replaces the topology container `{attr}` ({kind}): something that was learned could be lost")
    if n_sites < 8:
        raise AnalysisError("topology container initialisations not found")
    out.append(r4)
    # ---- R5 ---------------------------------------------------------------------------
    # A zone's probe set is built from its class (`_ROLE_ACTUATORS`, R1): when a zone is promoted (`self.__class__ = ...`) the
    # table must be rebuilt on every path, else the zone never asks for the actuators of the class it now has.
    r5 = RuleResult("R5", "promotion rebuilds the probe table", "every `self.__class__ = ...` in the zone classes is followed on all paths by self._setup_discovery_cmds()", min_instances=1)
    for f in sorted(repo.funcs.values(), key=lambda x: x.qualname):
        if f.module.name != "ramses_rf.system.zones":
            continue
        promos = [n for n in own_nodes(f.node) if isinstance(n, ast.Assign) and any(norm(t) == "self.__class__" for t in n.targets)]
        if not promos:
            continue
        cfgp = ctx.plain_cfg(f)
        for pnode in promos:
            r5.instances += 1
            r5.nontrivial += 1
            start = cfgp.nodes_of(pnode)
            if not start:
                raise AnalysisError(f"{f.short}: promotion statement not in the CFG")
            leaks = cfgp.exits_reachable_without(start[0].id, lambda x: x.ast is not None and x.kind == "stmt" and any(isinstance(c, ast.Call) and norm(c.func) == "self._setup_discovery_cmds" for c in ast.walk(x.ast)), skip_start_exc=False)
            normal = [lk for lk in leaks if lk[0].kind == "exit"]
            if normal:
                r5.fail(f"{f.short}:promotion-without-rebuild", f.loc(pnode), f"after `{norm(pnode)[:60]}` the function can return without self._setup_discovery_cmds(): the probe table built for the old class is kept, so the 000C request for the new class's actuator role is never sent")
            else:
                r5.ok({"promotion": f"{f.short}: {norm(pnode)[:50]}", "followed_by": "self._setup_discovery_cmds() on every normal path"})
    if r5.instances == 0:
        raise AnalysisError("no zone promotion site (`self.__class__ = ...`) found in ramses_rf.system.zones")
    out.append(r5)

    # ---- R6 ---------------------------------------------------------------------------
    # Gateway.start() switches discovery off while it loads the schema / restores the cache, then decides whether to start the
    # pollers: that decision must read the *restored* flag, i.e. the restoring assignment dominates the test.
    r6 = RuleResult("R6", "discovery is started from the restored flag", "in Gateway.start the assignment that restores config.disable_discovery dominates the test guarding initiate_discovery()", min_instances=1)
    gst = repo.func("ramses_rf.gateway.Gateway.start")
    cfgs = ctx.plain_cfg(gst)
    FLAG = "self.config.disable_discovery"
    # the call that starts the discovery pollers: whatever closure/function of this module reaches _start_discovery_poller()
    from .common import module_scope, pool

    starters = {g.name for g in module_scope(ctx, gst) if g is not gst and any(isinstance(n, ast.Call) and isinstance(n.func, ast.Attribute) and n.func.attr == "_start_discovery_poller" for _g, n in pool([g]))}

    def _is_disc_call(c: ast.AST) -> bool:
        return isinstance(c, ast.Call) and ((isinstance(c.func, ast.Name) and c.func.id in starters) or (isinstance(c.func, ast.Attribute) and c.func.attr in starters))

    calls = [x for x in cfgs.nodes if x.ast is not None and x.kind == "stmt" and not isinstance(x.ast, (ast.FunctionDef, ast.AsyncFunctionDef)) and any(_is_disc_call(c) for c in ast.walk(x.ast))]
    tests = [t for t in cfgs.nodes if t.kind == "test" and FLAG in norm(t.ast) and any(cfgs.edge_dominates(t, "true", c) for c in calls)]
    writes = []
    for x in cfgs.nodes:
        if x.ast is None or x.kind != "stmt" or not isinstance(x.ast, ast.Assign):
            continue
        for t in x.ast.targets:
            els = list(zip(t.elts, x.ast.value.elts)) if isinstance(t, ast.Tuple) and isinstance(x.ast.value, ast.Tuple) and len(t.elts) == len(x.ast.value.elts) else [(t, x.ast.value)]
            for tt, vv in els:
                if norm(tt) == FLAG:
                    writes.append((x, vv))
    temp = [(x, v) for x, v in writes if isinstance(v, ast.Constant) and v.value is True]
    restore = [(x, v) for x, v in writes if not isinstance(v, ast.Constant)]
    if not calls or not tests or not temp or not restore:
        raise AnalysisError("Gateway.start: initiate_discovery call / flag test / temporary switch-off / restore not found")
    domS = cfgs.dominators()
    for t in tests:
        r6.instances += 1
        r6.nontrivial += 1
        if any(x.id in domS[t.id] for x, _v in restore):
            r6.ok({"test": norm(t.ast)[:70], "dominated_by": norm(restore[0][0].ast)[:60]})
        else:
            r6.fail(f"{gst.short}:discovery-test-before-restore", gst.loc(t.ast), "the test that guards initiate_discovery() reads config.disable_discovery before it has been restored from its temporary True: the pollers of everything created during start-up (schema, cached packets, early traffic) are never started")
    # what discovery is started *for* must be read when it starts: an argument that is a local snapshot taken before a suspension
    # point misses every system/device created while start() was waiting (self.systems builds a new list on every read)
    for cnode in calls:
        for c in ast.walk(cnode.ast):
            if not _is_disc_call(c):
                continue
            for arg in list(c.args) + [k.value for k in c.keywords]:
                r6.instances += 1
                r6.nontrivial += 1
                if not isinstance(arg, ast.Name):
                    r6.ok({"argument": norm(arg), "read": "at the call"})
                    continue
                defs = [x for x in cfgs.nodes if x.ast is not None and x.kind == "stmt" and isinstance(x.ast, (ast.Assign, ast.AnnAssign)) and any(isinstance(nm, ast.Name) and nm.id == arg.id and isinstance(nm.ctx, ast.Store) for nm in ast.walk(x.ast))]
                stale = None

                def _fresh_object(d_) -> bool:
                    """the snapshot's source builds a new object on every read (a property / a call), so the local cannot follow
                    later additions; a plain attribute holding a list is an alias of the live container"""
                    pairs = []
                    a_ = d_.ast
                    tg = a_.targets[0] if isinstance(a_, ast.Assign) else a_.target
                    if isinstance(tg, ast.Tuple) and isinstance(a_.value, ast.Tuple) and len(tg.elts) == len(a_.value.elts):
                        pairs = list(zip(tg.elts, a_.value.elts))
                    else:
                        pairs = [(tg, a_.value)]
                    for t_, v_ in pairs:
                        if isinstance(t_, ast.Name) and t_.id == arg.id:
                            if isinstance(v_, ast.Attribute) and isinstance(v_.value, ast.Name) and v_.value.id == "self" and gst.cls is not None:
                                return any(repo.funcs.get(f"{k.fullname}.{v_.attr}") is not None and repo.funcs[f"{k.fullname}.{v_.attr}"].is_property for k in gst.cls.mro)
                            return not isinstance(v_, (ast.Name, ast.Attribute))
                    return True

                for d in defs:
                    if not _fresh_object(d):
                        continue
                    after_def = cfgs.reachable_from(d.id)
                    for y in cfgs.nodes:
                        if y.id in after_def and y.id != d.id and y.ast is not None and y.kind == "stmt" and any(isinstance(a, ast.Await) for a in ast.walk(y.ast)) and not isinstance(y.ast, (ast.FunctionDef, ast.AsyncFunctionDef)) and cnode.id in cfgs.reachable_from(y.id) and y.id != cnode.id:
                            stale = (d, y)
                if stale:
                    d, y = stale
                    r6.fail(f"{gst.short}:discovery-on-stale-snapshot:{arg.id}", gst.loc(d.ast), f"initiate_discovery() is given `{arg.id}`, bound at line {d.line} before the await at line {y.line}: systems/devices created while start() was suspended (the controller heard during transport start-up) are not in it and never get their discovery pollers")
                else:
                    r6.ok({"argument": arg.id, "read": "after the last suspension point before the call"})
    out.append(r6)

    # ---- R7 ---------------------------------------------------------------------------
    # "lost requests or replies only delay this: the missing part is filled in at a later polling round" - so a request that is due
    # is sent. The polling loop may pass over a task for the two reasons the code has today (it is not due yet; its code/context was
    # deprecated as unsupported) and the sender may not decline to transmit: a new reason to skip (the entity 'looks dead', the
    # request 'was answered' - judged by its echo) turns a lost packet into a permanent gap
    r7 = RuleResult("R7", "a due discovery request is sent", "in discover() every skip before the send is a not-due or a deprecated-code test; in send_disc_cmd the transmission precedes every return", min_instances=3)
    loops7 = [n for n in own_nodes(disc.node) if isinstance(n, (ast.For, ast.AsyncFor)) and "discovery_cmds" in norm(n.iter)]
    if len(loops7) != 1:
        raise AnalysisError(f"discover(): the loop over the discovery table was not found uniquely ({len(loops7)})")
    lp7 = loops7[0]
    send_stmt = next((st for st in lp7.body if any(isinstance(c, ast.Call) and norm(c.func) == "send_disc_cmd" for c in ast.walk(st))), None)
    if send_stmt is None:
        raise AnalysisError("discover(): the send inside the polling loop was not found")
    from .common import expand as _exp7

    def _accepted(t: ast.expr) -> str | None:
        txt = norm(_exp7(disc.node, t, pure_only=False))
        if "_is_not_deprecated_cmd" in txt:
            return "code/context deprecated"
        if "_SZ_NEXT_DUE" in txt and any(isinstance(c, ast.Compare) for c in ast.walk(t)) and ("dt_now" in txt or "dt.now()" in txt):
            return "not due yet"
        return None

    for st in lp7.body[: lp7.body.index(send_stmt)]:
        for x in ast.walk(st):
            if isinstance(x, (ast.Continue, ast.Break, ast.Return)):
                r7.instances += 1
                r7.nontrivial += 1
                guards = []
                q = getattr(x, "parent", None)
                c7 = x
                while q is not None and q is not lp7:
                    if isinstance(q, ast.If):
                        guards.append(q.test)
                    c7, q = q, getattr(q, "parent", None)
                why = next((w for w in (_accepted(t) for t in guards) if w), None)
                if why:
                    r7.ok({"skip": norm(guards[0])[:60], "reason": why})
                else:
                    r7.fail(f"{disc.short}:due-request-skipped:{norm(guards[0])[:40] if guards else 'unconditional'}", disc.loc(x), f"the polling loop passes over a task under `{norm(guards[0])[:70] if guards else 'no test'}` - neither 'not due yet' nor 'code deprecated': a request whose reply was lost (its echo still counts as 'last packet') is never sent again, so that part of the configuration is never learnt")
    # the sender transmits before it can return
    cfg7 = ctx.plain_cfg(sdc)
    tx7 = [x for x in cfg7.nodes if x.ast is not None and x.kind == "stmt" and any(isinstance(c, ast.Call) and isinstance(c.func, ast.Attribute) and c.func.attr == "async_send_cmd" for c in ast.walk(x.ast))]
    if not tx7:
        raise AnalysisError("send_disc_cmd: the transmission was not found")
    dom7 = cfg7.dominators()
    for rn in [x for x in cfg7.nodes if x.kind == "stmt" and isinstance(x.ast, ast.Return)]:
        r7.instances += 1
        r7.nontrivial += 1
        if any(t.id in dom7[rn.id] for t in tx7):
            r7.ok({"return": f"send_disc_cmd: {norm(rn.ast)[:40]}", "after_the_transmission": True})
        else:
            r7.fail(f"{sdc.short}:return-without-sending", sdc.loc(rn.ast), f"`{norm(rn.ast)[:50]}` leaves send_disc_cmd before anything was transmitted: a gate on a failure counter that only a successful send resets can never open again, so after a long enough outage the entity is never polled again")
    out.append(r7)
    return out
