"""C03.R3 - payload shape ⊆ decoder regex (abstract interpretation of the constructors' payload strings)."""

from __future__ import annotations

import ast
import re
from typing import Any

from ..consteval import TOP
from ..context import Ctx
from ..loader import AnalysisError, FuncInfo, norm
from ..report import RuleResult
from ..rx import ALL, HEXSET, Alt, Cat, Hex, HexRange, Lit, Rep, Shape, Unknown, Unsupported, has_tag, included, is_unknown, regex_dfa, retag, shape_dfa, substitute

CMD = "ramses_tx.command"
DIGITS = frozenset(range(10))


def _hex_bounds(s: Shape) -> tuple[int, int | None] | None:
    """(min, max) length if the shape only produces upper-case hex digits; None otherwise."""
    if s.kind == "lit":
        return (len(s.text), len(s.text)) if all(c in "0123456789ABCDEF" for c in s.text) else None
    if s.kind == "set":
        return (1, 1) if s.syms <= HEXSET else None
    if s.kind == "cat":
        lo, hi = 0, 0
        for i in s.items:
            b = _hex_bounds(i)
            if b is None:
                return None
            lo += b[0]
            hi = None if hi is None or b[1] is None else hi + b[1]
        return lo, hi
    if s.kind == "alt":
        bs = [_hex_bounds(i) for i in s.items]
        if any(b is None for b in bs):
            return None
        return min(b[0] for b in bs), (None if any(b[1] is None for b in bs) else max(b[1] for b in bs))  # type: ignore[index,type-var]
    if s.kind == "rep":
        b = _hex_bounds(s.items[0])
        if b is None:
            return None
        return b[0] * s.lo, (None if s.hi is None or b[1] is None else b[1] * s.hi)
    return None


def _finite_strings(s: Shape, cap: int = 4096) -> "list[str] | None":
    """All strings of a shape when it denotes a small finite language (literals, alternations, concatenations)."""
    if s.kind == "lit":
        return [s.text]
    if s.kind == "alt":
        out: list[str] = []
        for i in s.items:
            sub = _finite_strings(i, cap)
            if sub is None:
                return None
            out += sub
            if len(out) > cap:
                return None
        return sorted(set(out))
    if s.kind == "cat":
        acc = [""]
        for i in s.items:
            sub = _finite_strings(i, cap)
            if sub is None:
                return None
            acc = [a + b for a in acc for b in sub]
            if len(acc) > cap:
                return None
        return acc
    return None


def _fixed_width(s: Shape) -> "int | None":
    if s.kind == "lit":
        return len(s.text)
    if s.kind == "set":
        return 1
    if s.kind == "cat":
        ws = [_fixed_width(i) for i in s.items]
        return None if any(w is None for w in ws) else sum(ws)  # type: ignore[arg-type]
    if s.kind == "alt":
        ws = {_fixed_width(i) for i in s.items}
        return ws.pop() if len(ws) == 1 and None not in ws else None
    if s.kind == "rep":
        w = _fixed_width(s.items[0])
        return w * s.lo if w is not None and s.lo == s.hi else None
    return None


def _slice_shape(s: Shape, lo: int, hi: "int | None") -> "Shape | None":
    """s[lo:hi] for a concatenation of fixed-width segments, when the cut points fall on segment boundaries."""
    if s.kind == "alt":
        parts = [_slice_shape(i, lo, hi) for i in s.items]
        return None if any(x is None for x in parts) else Alt(*parts)  # type: ignore[arg-type]
    items = list(s.items) if s.kind == "cat" else [s]
    pos = 0
    out: list[Shape] = []
    for it in items:
        w = _fixed_width(it)
        if w is None:
            # an open-ended tail can be kept whole only if the slice is open-ended too and starts before it
            if hi is None and pos >= lo:
                out.append(it)
                pos = 10**9
                continue
            return None
        a, b = pos, pos + w
        pos = b
        if b <= lo or (hi is not None and a >= hi):
            continue
        if a >= lo and (hi is None or b <= hi):
            out.append(it)
            continue
        # the cut falls inside this segment: only literals and uniform repetitions can be cut
        if it.kind == "lit":
            out.append(Lit(it.text[max(lo - a, 0) : (None if hi is None else hi - a)]))
        elif it.kind == "rep" and it.lo == it.hi and _fixed_width(it.items[0]) == 1:
            n = (min(b, hi) if hi is not None else b) - max(a, lo)
            out.append(Rep(it.items[0], n, n))
        else:
            fin = _finite_strings(it)
            if fin is None:
                return None
            out.append(Alt(*[Lit(x[max(lo - a, 0) : (None if hi is None else hi - a)]) for x in fin]))
    return Cat(*out) if out else Lit("")


CALENDAR = {"sec": (0, 59), "min": (0, 59), "hour": (0, 23), "mday": (1, 31), "mon": (1, 12), "year": (1, 9999), "wday": (0, 6), "yday": (1, 366)}


class Interp:
    def __init__(self, ctx: Ctx, f: FuncInfo, depth: int = 0, bind: "dict[str, Any] | None" = None, preset: "dict[str, Shape] | None" = None) -> None:
        self.ctx = ctx
        self.f = f
        self.depth = depth
        self.bind = dict(bind or {})  # parameters fixed to constants by the call site (branches on them are folded)
        self.preset = dict(preset or {})  # shapes assumed for free parameters (stated by the calling rule)
        self.returns: list[Shape] = []
        self.ranges: dict[str, tuple[float, float]] = {}  # numeric ranges established by `if <out of range>: raise` guards
        self.calls: list[tuple[ast.Call, dict[str, Shape]]] = []  # from_attrs call sites with the env at that point
        self.decimal: list[tuple[FuncInfo, ast.FormattedValue]] = []  # `{x:02d}` segments whose value is not proven <= 9
        self.hexfmt = 0  # `{x:02X}`-style segments seen

    # -- statements -------------------------------------------------------------------------

    def run(self) -> None:
        env: dict[str, Shape] = {}
        self._block(self.f.node.body, env)

    def _block(self, body: list[ast.stmt], env: dict[str, Shape]) -> bool:
        """Returns False when the block always leaves (return/raise)."""
        for st in body:
            if isinstance(st, ast.Assign) and len(st.targets) == 1 and isinstance(st.targets[0], ast.Name):
                env[st.targets[0].id] = self.shape(st.value, env)
            elif isinstance(st, ast.AnnAssign) and isinstance(st.target, ast.Name) and st.value is not None:
                env[st.target.id] = self.shape(st.value, env)
            elif isinstance(st, ast.AugAssign) and isinstance(st.target, ast.Name) and isinstance(st.op, ast.Add):
                env[st.target.id] = Cat(env.get(st.target.id, Unknown(f"{st.target.id} undefined")), self.shape(st.value, env))
            elif isinstance(st, ast.Assign):
                for t in st.targets:
                    for n in ast.walk(t):
                        if isinstance(n, ast.Name):
                            env[n.id] = Unknown(f"{n.id}: tuple assignment")
            elif isinstance(st, ast.If) and self._fold_bool(st.test) is not None:
                if not self._block(st.body if self._fold_bool(st.test) else st.orelse, env):
                    return False
            elif isinstance(st, ast.If):
                e1, e2 = dict(env), dict(env)
                saved = dict(self.ranges)
                c1 = self._block(st.body, e1)
                self.ranges = dict(saved)
                c2 = self._block(st.orelse, e2)
                self.ranges = saved
                if not c1 and not st.orelse:  # `if <bad>: raise/return` - the fall-through satisfies the negation
                    for name, rng in self._negated_ranges(st.test).items():
                        lo, hi = self.ranges.get(name, (float("-inf"), float("inf")))
                        self.ranges[name] = (max(lo, rng[0]), min(hi, rng[1]))
                if not c1 and not c2:
                    return False
                if not c1:
                    env.clear()
                    env.update(e2)
                elif not c2:
                    env.clear()
                    env.update(e1)
                else:
                    for k in set(e1) | set(e2):
                        a, b = e1.get(k), e2.get(k)
                        env[k] = a if a == b and a is not None else (Alt(a, b) if a is not None and b is not None else Unknown(f"{k}: defined on one branch only"))
            elif isinstance(st, (ast.For, ast.While)):
                for n in ast.walk(st):
                    if isinstance(n, ast.Name) and isinstance(n.ctx, ast.Store):
                        env[n.id] = Unknown(f"{n.id}: assigned in a loop")
            elif isinstance(st, ast.Return):
                if st.value is not None:
                    self._note_calls(st.value, env)
                    self.returns.append(self.shape(st.value, env))
                return False
            elif isinstance(st, ast.Raise):
                return False
            elif isinstance(st, ast.Try):
                self._block(st.body, env)
            elif isinstance(st, ast.Expr):
                self._note_calls(st.value, env)
        return True

    def _fold_bool(self, t: ast.expr) -> "bool | None":
        """Truth of a test that only involves parameters the call site fixed to constants (None = unknown)."""
        if isinstance(t, ast.Name) and t.id in self.bind:
            return bool(self.bind[t.id])
        if isinstance(t, ast.UnaryOp) and isinstance(t.op, ast.Not):
            v = self._fold_bool(t.operand)
            return None if v is None else not v
        if isinstance(t, ast.Compare) and len(t.ops) == 1 and isinstance(t.left, ast.Name) and t.left.id in self.bind and isinstance(t.comparators[0], ast.Constant):
            a, b = self.bind[t.left.id], t.comparators[0].value
            op = t.ops[0]
            if isinstance(op, (ast.Is, ast.Eq)):
                return a is b if isinstance(op, ast.Is) else a == b
            if isinstance(op, (ast.IsNot, ast.NotEq)):
                return a is not b if isinstance(op, ast.IsNot) else a != b
        return None

    def _num(self, e: ast.expr) -> float | None:
        try:
            v = self.ctx.consts.eval_in(self.f, e)
        except Exception:
            return None
        return float(v) if isinstance(v, (int, float)) and not isinstance(v, bool) else None

    def _negated_ranges(self, t: ast.expr) -> dict[str, tuple[float, float]]:
        """{name: (lo, hi)} that hold when test `t` is False."""
        out: dict[str, tuple[float, float]] = {}
        if isinstance(t, ast.UnaryOp) and isinstance(t.op, ast.Not):
            c = t.operand
            if isinstance(c, ast.Compare) and len(c.ops) == 2 and all(isinstance(o, (ast.LtE, ast.Lt)) for o in c.ops) and isinstance(c.comparators[0], ast.Name):
                lo, hi = self._num(c.left), self._num(c.comparators[1])
                if lo is not None and hi is not None:
                    out[c.comparators[0].id] = (lo + (1 if isinstance(c.ops[0], ast.Lt) else 0), hi - (1 if isinstance(c.ops[1], ast.Lt) else 0))
        elif isinstance(t, ast.BoolOp) and isinstance(t.op, ast.Or):
            lo = hi = None
            name = None
            for v in t.values:
                if isinstance(v, ast.Compare) and len(v.ops) == 1 and isinstance(v.left, ast.Name):
                    k = self._num(v.comparators[0])
                    if k is None:
                        return {}
                    name = name or v.left.id
                    if v.left.id != name:
                        return {}
                    if isinstance(v.ops[0], ast.Lt):
                        lo = k
                    elif isinstance(v.ops[0], ast.LtE):
                        lo = k + 1
                    elif isinstance(v.ops[0], ast.Gt):
                        hi = k
                    elif isinstance(v.ops[0], ast.GtE):
                        hi = k - 1
                else:
                    return {}
            if name and lo is not None and hi is not None:
                out[name] = (lo, hi)
        return out

    def _range(self, e: ast.expr) -> tuple[float, float] | None:
        if isinstance(e, ast.Name):
            if e.id in self.ranges:
                return self.ranges[e.id]
            # a field of a time tuple: the function's parameters are bound from `*<x>.timetuple()` at its only call site
            if e.id in CALENDAR and self._bound_from_timetuple():
                return (float(CALENDAR[e.id][0]), float(CALENDAR[e.id][1]))
            return None
        if isinstance(e, ast.Call) and isinstance(e.func, ast.Name) and e.func.id in ("int", "round") and e.args:
            r = self._range(e.args[0])
            return (float(int(r[0])), float(int(r[1]))) if r else None
        if isinstance(e, ast.BinOp) and isinstance(e.op, (ast.Mult, ast.Add, ast.Sub)):
            for a, b in ((e.left, e.right), (e.right, e.left)):
                r, k = self._range(a), self._num(b)
                if r is not None and k is not None:
                    if isinstance(e.op, ast.Mult):
                        xs = (r[0] * k, r[1] * k)
                        return (min(xs), max(xs))
                    if isinstance(e.op, ast.Add):
                        return (r[0] + k, r[1] + k)
                    if a is e.left:
                        return (r[0] - k, r[1] - k)
        return None

    def _bound_from_timetuple(self) -> bool:
        if not hasattr(self, "_tt"):
            sites = self.ctx.cg.callers_of(self.f)
            self._tt = bool(sites) and all(isinstance(s2.node, ast.Call) and len(s2.node.args) == 1 and isinstance(s2.node.args[0], ast.Starred) and norm(s2.node.args[0].value).endswith(".timetuple()") for s2 in sites)
        return self._tt

    def _note_calls(self, e: ast.expr, env: dict[str, Shape]) -> None:
        for n in ast.walk(e):
            if isinstance(n, ast.Call) and isinstance(n.func, ast.Attribute) and n.func.attr in ("from_attrs", "_from_attrs") and isinstance(n.func.value, ast.Name) and n.func.value.id in ("cls", "Command"):
                self.calls.append((n, dict(env)))

    # -- expressions ------------------------------------------------------------------------

    def shape(self, e: ast.expr, env: dict[str, Shape]) -> Shape:
        if isinstance(e, ast.Constant):
            return Lit(e.value) if isinstance(e.value, str) else Unknown(f"non-str constant {e.value!r}")
        if isinstance(e, ast.Name) and e.id in env:
            return env[e.id]
        if isinstance(e, ast.Name) and e.id in self.preset:
            return self.preset[e.id]
        try:
            v = self.ctx.consts.eval_in(self.f, e)
        except Exception:
            v = TOP
        if v is not TOP and isinstance(v, str) and not isinstance(e, ast.Name):
            return Lit(v)
        if isinstance(e, ast.Name):
            if v is not TOP and isinstance(v, str) and e.id not in {a.arg for a in self.f.node.args.args + self.f.node.args.kwonlyargs}:
                return Lit(v)
            return Unknown(f"free variable {e.id}")
        if isinstance(e, ast.JoinedStr):
            parts = []
            for p in e.values:
                if isinstance(p, ast.Constant):
                    parts.append(Lit(str(p.value)))
                else:
                    parts.append(self._formatted(p, env))  # type: ignore[arg-type]
            return Cat(*parts)
        if isinstance(e, ast.BinOp) and isinstance(e.op, ast.Add):
            return Cat(self.shape(e.left, env), self.shape(e.right, env))
        if isinstance(e, ast.BinOp) and isinstance(e.op, ast.Mult):
            for s_e, n_e in ((e.left, e.right), (e.right, e.left)):
                try:
                    n = self.ctx.consts.eval_in(self.f, n_e)
                except Exception:
                    n = TOP
                if isinstance(n, int) and not isinstance(n, bool):
                    return Rep(self.shape(s_e, env), n, n)
            for s_e, n_e in ((e.left, e.right), (e.right, e.left)):
                if isinstance(n_e, ast.IfExp) and self._fold_bool(n_e.test) is not None:
                    try:
                        cnt = self.ctx.consts.eval_in(self.f, n_e.body if self._fold_bool(n_e.test) else n_e.orelse)
                    except Exception:
                        cnt = None
                    if isinstance(cnt, int):
                        return Rep(self.shape(s_e, env), cnt, cnt)
                if isinstance(n_e, ast.IfExp):
                    try:
                        a, b = self.ctx.consts.eval_in(self.f, n_e.body), self.ctx.consts.eval_in(self.f, n_e.orelse)
                    except Exception:
                        continue
                    if isinstance(a, int) and isinstance(b, int):
                        base = self.shape(s_e, env)
                        return Alt(Rep(base, a, a), Rep(base, b, b))
            return Unknown(f"string repetition by a computed count: {norm(e)[:40]}")
        if isinstance(e, ast.IfExp):
            fb = self._fold_bool(e.test)
            if fb is not None:
                return self.shape(e.body if fb else e.orelse, env)
            return Alt(self.shape(e.body, env), self.shape(e.orelse, env))
        if isinstance(e, ast.BoolOp) and isinstance(e.op, ast.Or):
            return Alt(*[self.shape(v2, env) for v2 in e.values])
        if isinstance(e, ast.Subscript) and not isinstance(e.slice, ast.Slice) and isinstance(e.value, ast.Dict):
            # {False: '00', True: 'C8'}[x]: one of the values
            vals = [self.shape(v2, env) for v2 in e.value.values]
            return Alt(*vals) if vals else Unknown("empty dict display")
        if isinstance(e, ast.Subscript) and isinstance(e.slice, ast.Slice):
            base = self.shape(e.value, env)
            lo_c = 0 if e.slice.lower is None else (e.slice.lower.value if isinstance(e.slice.lower, ast.Constant) and isinstance(e.slice.lower.value, int) else None)
            hi_c = None if e.slice.upper is None else (e.slice.upper.value if isinstance(e.slice.upper, ast.Constant) and isinstance(e.slice.upper.value, int) else -1)
            if not is_unknown(base) and lo_c is not None and lo_c >= 0 and (hi_c is None or hi_c >= 0) and e.slice.step is None:
                cut = _slice_shape(base, lo_c, hi_c)
                if cut is not None:
                    return cut
            b = _hex_bounds(base)
            lo_e, hi_e = e.slice.lower, e.slice.upper
            if b is not None and lo_e is None and isinstance(hi_e, ast.Constant) and isinstance(hi_e.value, int) and hi_e.value >= 0:
                n = hi_e.value
                return HexRange(min(b[0], n), n if b[1] is None else min(b[1], n))
            if base.kind == "lit" and (lo_e is None or isinstance(lo_e, ast.Constant)) and (hi_e is None or isinstance(hi_e, ast.Constant)):
                return Lit(base.text[(lo_e.value if lo_e else None) : (hi_e.value if hi_e else None)])  # type: ignore[union-attr]
            return Unknown(f"slice of {norm(e.value)[:30]}")
        if isinstance(e, ast.Call):
            return self._call(e, env)
        return Unknown(f"{type(e).__name__}: {norm(e)[:40]}")

    def _formatted(self, p: ast.FormattedValue, env: dict[str, Shape]) -> Shape:
        spec = ""
        if p.format_spec is not None:
            try:
                spec = self.ctx.consts.eval_in(self.f, p.format_spec)
            except Exception:
                spec = TOP
            if spec is TOP:
                return Unknown("computed format spec")
        if not spec:
            if p.conversion not in (-1, ord("s")):
                return Unknown("!r conversion")
            return self.shape(p.value, env)
        m = re.fullmatch(r"0?(\d+)X", spec)
        if m:
            w = int(m.group(1))
            self.hexfmt += 1
            # int(<finite shape>, 16) | FLAG  ->  the flagged values
            pv = p.value
            if isinstance(pv, ast.BinOp) and isinstance(pv.op, (ast.BitOr, ast.BitAnd, ast.Add)) and isinstance(pv.left, ast.Call) and norm(pv.left.func) == "int" and len(pv.left.args) == 2 and norm(pv.left.args[1]) == "16":
                k = self._num(pv.right)
                fin = _finite_strings(self.shape(pv.left.args[0], env))
                if k is not None and fin is not None and all(re.fullmatch(r"[0-9A-F]+", x) for x in fin):
                    op = pv.op
                    vals = sorted({(int(x, 16) | int(k)) if isinstance(op, ast.BitOr) else ((int(x, 16) & int(k)) if isinstance(op, ast.BitAnd) else int(x, 16) + int(k)) for x in fin})
                    if all(v < 16**w for v in vals):
                        return retag(Cat(Alt(*[Lit(f"{v:0{w}X}") for v in vals])), "hexfmt:" + norm(p.value)[:40])
            r = self._range(p.value)
            if r is not None and r[0] >= 0 and r[1] - r[0] <= 4096 and r[1] < 16**w:
                return retag(Cat(Alt(*[Lit(f"{v:0{w}X}") for v in range(int(r[0]), int(r[1]) + 1)])), "hexfmt:" + norm(p.value)[:40])
            return retag(Cat(Hex(w)), "hexfmt:" + norm(p.value)[:40])  # exact modulo the codec's representable range (C04.R5's job)
        m = re.fullmatch(r"0?(\d*)d", spec)
        if m:
            r = self._range(p.value)
            if not (r is not None and 0 <= r[0] and r[1] <= 9):
                self.decimal.append((self.f, p))
        m = re.fullmatch(r"0(\d+)d", spec)
        if m:
            return Rep(Shape("set", syms=DIGITS), int(m.group(1)), int(m.group(1)))
        m = re.fullmatch(r"(.)([<>])(\d+)", spec)
        if m:
            fill, _align, width = m.group(1), m.group(2), int(m.group(3))
            inner = self.shape(p.value, env)
            b = _hex_bounds(inner)
            if b is not None and fill in "0123456789ABCDEF" and b[1] is not None and b[1] <= width:
                return Hex(width)
            return Unknown(f"padding of {norm(p.value)[:30]}")
        return Unknown(f"format spec {spec!r}")

    def _call(self, e: ast.Call, env: dict[str, Shape]) -> Shape:
        fn = e.func
        # "".join(<generator>)
        if isinstance(fn, ast.Attribute) and fn.attr == "join" and isinstance(fn.value, ast.Constant) and fn.value.value == "" and e.args:
            g = e.args[0]
            if isinstance(g, (ast.GeneratorExp, ast.ListComp)):
                env2 = dict(env)
                for gen in g.generators:
                    for n in ast.walk(gen.target):
                        if isinstance(n, ast.Name):
                            env2[n.id] = Unknown(f"loop variable {n.id}")
                return Rep(self.shape(g.elt, env2), 0, None)
            if isinstance(g, (ast.Tuple, ast.List)):
                return Cat(*[self.shape(x, env) for x in g.elts])
            return Unknown("join of a computed sequence")
        if isinstance(fn, ast.Attribute) and fn.attr in ("upper",):
            return self.shape(fn.value, env)
        if isinstance(fn, ast.Name) and fn.id == "str" and e.args:
            return self.shape(e.args[0], env)
        # <ATTR_DICT>._hex(x): one of the main table's codes (summary of const.AttrDict._hex, guarded by consteval's digest)
        if isinstance(fn, ast.Attribute) and fn.attr == "_hex" and isinstance(fn.value, ast.Name):
            try:
                tab = self.ctx.consts.eval_in(self.f, fn.value)
            except Exception:
                tab = TOP
            mt = getattr(tab, "_main_table", None)
            if isinstance(mt, dict):
                codes = sorted({k for t2 in mt.values() if isinstance(t2, dict) for k in t2 if isinstance(k, str) and k[:1] != "_"})
                if codes:
                    return Alt(*[Lit(c) for c in codes])
        # a repo function returning str: the alternation of the shapes of its return expressions
        site = self.ctx.cg.site_of.get(id(e))
        if site is not None and site.callees and self.depth < 3:
            shapes = []
            for c in site.callees:
                if c.is_async or c.cls is not None and c.name in ("from_attrs", "_from_attrs"):
                    return Unknown(f"call of {c.short}")
                bind: dict[str, Any] = {}
                pnames = [a.arg for a in c.node.args.posonlyargs + c.node.args.args]
                if pnames and pnames[0] in ("self", "cls") and isinstance(fn, ast.Attribute):
                    pnames = pnames[1:]
                preset: dict[str, Shape] = {}
                for pn, a in zip(pnames, e.args):
                    if isinstance(a, ast.Constant):
                        bind[pn] = a.value
                    elif isinstance(a, ast.Name) and a.id in self.bind:
                        bind[pn] = self.bind[a.id]
                    else:
                        # the argument's shape (with its provenance tags) is what the callee's parameter holds: a private
                        # helper extracted from the constructor sees the same text the inline expression did
                        sh_a = self.shape(a, env)
                        if not is_unknown(sh_a):
                            preset[pn] = sh_a
                for kw in e.keywords:
                    if kw.arg and isinstance(kw.value, ast.Constant):
                        bind[kw.arg] = kw.value.value
                    elif kw.arg and isinstance(kw.value, ast.Name) and kw.value.id in self.bind:
                        bind[kw.arg] = self.bind[kw.value.id]
                # parameters left at their constant defaults
                dargs = c.node.args
                dflt = dict(zip([a.arg for a in (dargs.posonlyargs + dargs.args)][-len(dargs.defaults):] if dargs.defaults else [], dargs.defaults))
                dflt.update({a.arg: d for a, d in zip(dargs.kwonlyargs, dargs.kw_defaults) if d is not None})
                given = set(bind) | {pn for pn, _a in zip(pnames, e.args)} | {kw.arg for kw in e.keywords if kw.arg}
                for pn, d in dflt.items():
                    if pn not in given and isinstance(d, ast.Constant):
                        bind[pn] = d.value
                for kw in e.keywords:
                    if kw.arg and kw.arg not in bind:
                        sh_k = self.shape(kw.value, env)
                        if not is_unknown(sh_k):
                            preset[kw.arg] = sh_k
                sub = Interp(self.ctx, c, self.depth + 1, bind=bind, preset=preset)
                sub.run()
                self.decimal += sub.decimal
                self.hexfmt += sub.hexfmt
                if not sub.returns:
                    return Unknown(f"{c.short} has no return expression")
                shapes += sub.returns
            res = Alt(*shapes)
            if len(site.callees) == 1 and site.callees[0].name == "_check_idx" and not is_unknown(res):
                res = retag(res, "_check_idx")
            return res
        return Unknown(f"call {norm(fn)[:40]}")


def _tagged_columns(shape: Shape, prefix: str) -> "list[tuple[int, int, str]]":
    """(lo, hi, tag) of the tagged fixed-position segments of a concatenation (alternations: columns common to all branches)."""
    if shape.kind == "alt":
        sets = [set(_tagged_columns(i, prefix)) for i in shape.items]
        return sorted(set.intersection(*sets)) if sets else []
    out: list[tuple[int, int, str]] = []
    pos = 0
    items = list(shape.items) if shape.kind == "cat" and not shape.tag else [shape]
    for it in items:
        w = _fixed_width(it)
        if w is None:
            break
        if it.tag.startswith(prefix):
            out.append((pos, pos + w, it.tag))
        elif it.kind == "cat":
            out += [(pos + a, pos + b, t) for a, b, t in _tagged_columns(Shape("cat", items=it.items), prefix)]
        pos += w
    return out


def _accepted_idx(shape: Shape, regex_d: Any) -> list[int]:
    """Index values for which the shape (with the _check_idx segment fixed to that value) is in the regex language."""
    out = []
    for v in range(256):
        s2 = substitute(shape, "_check_idx", Lit(f"{v:02X}"))
        try:
            if included(shape_dfa(s2), regex_d) is None:
                out.append(v)
        except Unsupported:
            return []
    return out


def _ranges(vals: list[int]) -> str:
    out, i = [], 0
    while i < len(vals):
        j = i
        while j + 1 < len(vals) and vals[j + 1] == vals[j] + 1:
            j += 1
        out.append(f"{vals[i]:02X}" if i == j else f"{vals[i]:02X}-{vals[j]:02X}")
        i = j + 1
    return ",".join(out)


def shape_rule(ctx: Ctx) -> RuleResult:
    from .c03 import _emitted, _values

    repo = ctx.repo
    rr = RuleResult("R3", "payload shape ⊆ decoder regex", "every payload a constructor can build (as a regular shape) is in the language of CODES_SCHEMA[code][verb]", min_instances=30)
    schema = ctx.const("ramses_tx.ramses", "CODES_SCHEMA")
    cmd_cls = repo.cls(f"{CMD}.Command")
    dfa_cache: dict[str, Any] = {}
    undecided = []
    idx_rootcause: dict[str, list[str]] = {}
    idx_sig: list[str] = []
    n_regex = 0
    n_hexfmt = 0
    seen_pairs: set[tuple[int, int]] = set()
    for code, row in schema.items():
        for verb in (" I", "RQ", "RP", " W"):
            if verb in row:
                n_regex += 1
                try:
                    re._parser.parse(row[verb])  # type: ignore[attr-defined]
                except re.error as err:
                    rr.instances += 1
                    rr.fail(f"CODES_SCHEMA[{code}][{verb}]", repo.mod("ramses_tx.ramses").rel, f"the schema regex {row[verb]!r} does not parse: {err}")
    rr.info["schema_regexes_parsed"] = n_regex
    for name, m in sorted(cmd_cls.methods.items()):
        if not (name.startswith(("get_", "set_", "put_", "_put_", "_get_", "_set_")) and "classmethod" in m.decorators):
            continue
        it = Interp(ctx, m)
        it.run()
        calls = list(it.calls)
        for call, env in calls:  # the payload expressions themselves (when not bound to a local first)
            nm0 = call.func.attr  # type: ignore[union-attr]
            pe = (call.args[3] if len(call.args) > 3 else None) if nm0 == "from_attrs" else (call.args[2] if len(call.args) > 2 else None)
            if pe is not None:
                it.shape(pe, env)
        n_hexfmt += it.hexfmt
        seen_dec: set[int] = set()
        # only segments that flow into a payload: locals (transitively) used by a payload expression
        relevant: set[str] = set()
        pes = []
        for call, _env in calls:
            nm0 = call.func.attr  # type: ignore[union-attr]
            pe = (call.args[3] if len(call.args) > 3 else None) if nm0 == "from_attrs" else (call.args[2] if len(call.args) > 2 else None)
            if pe is not None:
                pes.append(pe)
                relevant |= {n.id for n in ast.walk(pe) if isinstance(n, ast.Name)}
        for _ in range(6):
            for st in ast.walk(m.node):
                if isinstance(st, (ast.Assign, ast.AnnAssign, ast.AugAssign)) and st.value is not None:
                    tg = st.targets if isinstance(st, ast.Assign) else [st.target]
                    if any(isinstance(t, ast.Name) and t.id in relevant for t in tg):
                        relevant |= {n.id for n in ast.walk(st.value) if isinstance(n, ast.Name)}
        for g, fv in it.decimal:
            if id(fv) in seen_dec:
                continue
            seen_dec.add(id(fv))
            if g is m:
                st = fv
                while st is not None and not isinstance(st, ast.stmt):
                    st = getattr(st, "parent", None)
                in_pe = any(fv is n for pe in pes for n in ast.walk(pe))
                tg = (st.targets if isinstance(st, ast.Assign) else [st.target]) if isinstance(st, (ast.Assign, ast.AnnAssign, ast.AugAssign)) else []
                if not in_pe and not any(isinstance(t, ast.Name) and t.id in relevant for t in tg):
                    continue
            rr.instances += 1
            rr.nontrivial += 1
            rr.fail(
                f"Command.{name}:decimal-field:{norm(fv)[:60]}",
                g.loc(fv),
                f"Command.{name} formats a payload field in decimal ({norm(fv)}): payload octets are hexadecimal and every decoder reads them with int(x, 16), "
                "so any value above 9 is transmitted as a different number",
            )
        for call, env in calls:
            v_expr = call.args[0] if call.args else None
            nm = call.func.attr  # type: ignore[union-attr]
            c_expr = (call.args[2] if len(call.args) > 2 else None) if nm == "from_attrs" else (call.args[1] if len(call.args) > 1 else None)
            p_expr = (call.args[3] if len(call.args) > 3 else None) if nm == "from_attrs" else (call.args[2] if len(call.args) > 2 else None)
            if v_expr is None or c_expr is None or p_expr is None:
                continue
            verbs = _values(ctx, m, v_expr, None)
            codes = _values(ctx, m, c_expr, None)
            if not verbs or not codes:
                undecided.append(f"{name}: verb/code not constant")
                continue
            shape = it.shape(p_expr, env)
            # codec pairing with the decoder: a numeric field this constructor writes in hex (`{x:02X}`) at fixed columns must not
            # be read back by parser_<code> with a base-10 int() of the same columns
            if not is_unknown(shape):
                cols = _tagged_columns(shape, "hexfmt:")
                for code in sorted(codes):
                    pf = repo.funcs.get(f"ramses_tx.parsers.parser_{code.lower()}")
                    if pf is None or not cols:
                        continue
                    for n in ast.walk(pf.node):
                        if isinstance(n, ast.Call) and isinstance(n.func, ast.Name) and n.func.id == "int" and len(n.args) == 1 and not n.keywords and isinstance(n.args[0], ast.Subscript) and norm(n.args[0].value) == "payload" and isinstance(n.args[0].slice, ast.Slice):
                            sl = n.args[0].slice
                            a = 0 if sl.lower is None else getattr(sl.lower, "value", None)
                            b = getattr(sl.upper, "value", None)
                            if not isinstance(a, int) or not isinstance(b, int):
                                continue
                            for lo, hi, what in cols:
                                if a < hi and lo < b and (id(n), lo) not in seen_pairs:
                                    seen_pairs.add((id(n), lo))
                                    rr.instances += 1
                                    rr.nontrivial += 1
                                    rr.fail(
                                        f"parser_{code.lower()}:base10-read:{norm(n)[:40]}",
                                        pf.loc(n),
                                        f"Command.{name} writes `{what.split(':', 1)[1]}` in hexadecimal at payload columns {lo}:{hi}, but parser_{code.lower()} reads columns {a}:{b} with `{norm(n)}` (base 10): values above 9 decode to another number or are rejected",
                                    )
            for verb in sorted(verbs):
                for code in sorted(codes):
                    rr.instances += 1
                    if is_unknown(shape):
                        undecided.append(f"{name} {verb}|{code}: {shape}")
                        continue
                    regex = schema.get(code, {}).get(verb)
                    if regex is None:
                        rr.nontrivial += 1
                        rr.fail(f"Command.{name}:{verb}|{code}:no-regex", m.loc(call), f"Command.{name} emits {verb}|{code}, for which the decoder's schema has no regex (Message() rejects the frame)")
                        continue
                    rr.nontrivial += 1
                    try:
                        if regex not in dfa_cache:
                            dfa_cache[regex] = regex_dfa(regex)
                        w = included(shape_dfa(shape), dfa_cache[regex])
                    except Unsupported as err:
                        undecided.append(f"{name} {verb}|{code}: regex not supported ({err})")
                        continue
                    if w is None:
                        rr.ok({"constructor": name, "pair": f"{verb}|{code}", "shape": str(shape)[:80], "regex": regex})
                    elif has_tag(shape, "_check_idx") and (acc := _accepted_idx(shape, dfa_cache[regex])):
                        idx_rootcause.setdefault(name, []).append(f"{verb}|{code}: decoder accepts idx {_ranges(acc)} only (e.g. {w!r} is rejected)")
                        idx_sig.append(f"{name}:{verb}|{code}:{_ranges(acc)}")
                        rr.ok({"constructor": name, "pair": f"{verb}|{code}", "shape": str(shape)[:80], "note": "included for every idx the decoder accepts; see the _check_idx finding"})
                    else:
                        rr.fail(
                            f"Command.{name}:{verb}|{code}:shape",
                            m.loc(call),
                            f"Command.{name} can build a {verb}|{code} payload the library's own decoder rejects, e.g. {w!r}",
                            [f"shape: {str(shape)[:160]}", f"regex: {regex}", f"payload expression: {norm(p_expr)[:120]}"],
                        )
    if idx_rootcause:
        ci = repo.func(f"{CMD}._check_idx")
        rr.instances += 1
        rr.nontrivial += 1
        rr.fail(
            "_check_idx:admits-indexes-the-decoder-rejects:" + __import__("hashlib").sha256("\n".join(sorted(idx_sig)).encode()).hexdigest()[:10],
            ci.loc(),
            f"_check_idx() returns any 2-hex index unrefused, but for {len(idx_rootcause)} constructors the decoder only accepts a subset: "
            "an out-of-domain index yields a frame the library's own decoder rejects instead of CommandInvalid",
            [f"{k}: {'; '.join(v)}" for k, v in sorted(idx_rootcause.items())][:40],
        )
    rr.info["hex_formatted_payload_fields"] = n_hexfmt
    if n_hexfmt < 40:
        raise AnalysisError(f"only {n_hexfmt} hex-formatted payload fields found in the constructors (expected >= 40): the format-spec scan is not seeing the payload expressions")
    rr.info["undecided"] = undecided[:40]
    rr.info["n_undecided"] = len(undecided)
    return rr
