"""C03.R3 - payload shape ⊆ decoder regex (abstract interpretation of the constructors' payload strings)."""

from __future__ import annotations

import ast
import re
from typing import Any

from ..consteval import TOP
from ..context import Ctx
from ..loader import AnalysisError, FuncInfo, norm
from ..report import RuleResult
from ..rx import ALL, HEXSET, Alt, Cat, Hex, HexRange, Lit, Rep, Shape, Unknown, Unsupported, has_tag, included, is_unknown, regex_dfa, retag, shape_dfa, substitute

CMD = "ramses_tx.command"
DIGITS = frozenset(range(10))


def _hex_bounds(s: Shape) -> tuple[int, int | None] | None:
    """(min, max) length if the shape only produces upper-case hex digits; None otherwise."""
    if s.kind == "lit":
        return (len(s.text), len(s.text)) if all(c in "0123456789ABCDEF" for c in s.text) else None
    if s.kind == "set":
        return (1, 1) if s.syms <= HEXSET else None
    if s.kind == "cat":
        lo, hi = 0, 0
        for i in s.items:
            b = _hex_bounds(i)
            if b is None:
                return None
            lo += b[0]
            hi = None if hi is None or b[1] is None else hi + b[1]
        return lo, hi
    if s.kind == "alt":
        bs = [_hex_bounds(i) for i in s.items]
        if any(b is None for b in bs):
            return None
        return min(b[0] for b in bs), (None if any(b[1] is None for b in bs) else max(b[1] for b in bs))  # type: ignore[index,type-var]
    if s.kind == "rep":
        b = _hex_bounds(s.items[0])
        if b is None:
            return None
        return b[0] * s.lo, (None if s.hi is None or b[1] is None else b[1] * s.hi)
    return None


class Interp:
    def __init__(self, ctx: Ctx, f: FuncInfo, depth: int = 0) -> None:
        self.ctx = ctx
        self.f = f
        self.depth = depth
        self.returns: list[Shape] = []
        self.ranges: dict[str, tuple[float, float]] = {}  # numeric ranges established by `if <out of range>: raise` guards
        self.calls: list[tuple[ast.Call, dict[str, Shape]]] = []  # from_attrs call sites with the env at that point
        self.decimal: list[tuple[FuncInfo, ast.FormattedValue]] = []  # `{x:02d}` segments whose value is not proven <= 9
        self.hexfmt = 0  # `{x:02X}`-style segments seen

    # -- statements -------------------------------------------------------------------------

    def run(self) -> None:
        env: dict[str, Shape] = {}
        self._block(self.f.node.body, env)

    def _block(self, body: list[ast.stmt], env: dict[str, Shape]) -> bool:
        """Returns False when the block always leaves (return/raise)."""
        for st in body:
            if isinstance(st, ast.Assign) and len(st.targets) == 1 and isinstance(st.targets[0], ast.Name):
                env[st.targets[0].id] = self.shape(st.value, env)
            elif isinstance(st, ast.AnnAssign) and isinstance(st.target, ast.Name) and st.value is not None:
                env[st.target.id] = self.shape(st.value, env)
            elif isinstance(st, ast.AugAssign) and isinstance(st.target, ast.Name) and isinstance(st.op, ast.Add):
                env[st.target.id] = Cat(env.get(st.target.id, Unknown(f"{st.target.id} undefined")), self.shape(st.value, env))
            elif isinstance(st, ast.Assign):
                for t in st.targets:
                    for n in ast.walk(t):
                        if isinstance(n, ast.Name):
                            env[n.id] = Unknown(f"{n.id}: tuple assignment")
            elif isinstance(st, ast.If):
                e1, e2 = dict(env), dict(env)
                saved = dict(self.ranges)
                c1 = self._block(st.body, e1)
                self.ranges = dict(saved)
                c2 = self._block(st.orelse, e2)
                self.ranges = saved
                if not c1 and not st.orelse:  # `if <bad>: raise/return` - the fall-through satisfies the negation
                    for name, rng in self._negated_ranges(st.test).items():
                        lo, hi = self.ranges.get(name, (float("-inf"), float("inf")))
                        self.ranges[name] = (max(lo, rng[0]), min(hi, rng[1]))
                if not c1 and not c2:
                    return False
                if not c1:
                    env.clear()
                    env.update(e2)
                elif not c2:
                    env.clear()
                    env.update(e1)
                else:
                    for k in set(e1) | set(e2):
                        a, b = e1.get(k), e2.get(k)
                        env[k] = a if a == b and a is not None else (Alt(a, b) if a is not None and b is not None else Unknown(f"{k}: defined on one branch only"))
            elif isinstance(st, (ast.For, ast.While)):
                for n in ast.walk(st):
                    if isinstance(n, ast.Name) and isinstance(n.ctx, ast.Store):
                        env[n.id] = Unknown(f"{n.id}: assigned in a loop")
            elif isinstance(st, ast.Return):
                if st.value is not None:
                    self._note_calls(st.value, env)
                    self.returns.append(self.shape(st.value, env))
                return False
            elif isinstance(st, ast.Raise):
                return False
            elif isinstance(st, ast.Try):
                self._block(st.body, env)
            elif isinstance(st, ast.Expr):
                self._note_calls(st.value, env)
        return True

    def _num(self, e: ast.expr) -> float | None:
        try:
            v = self.ctx.consts.eval_in(self.f, e)
        except Exception:
            return None
        return float(v) if isinstance(v, (int, float)) and not isinstance(v, bool) else None

    def _negated_ranges(self, t: ast.expr) -> dict[str, tuple[float, float]]:
        """{name: (lo, hi)} that hold when test `t` is False."""
        out: dict[str, tuple[float, float]] = {}
        if isinstance(t, ast.UnaryOp) and isinstance(t.op, ast.Not):
            c = t.operand
            if isinstance(c, ast.Compare) and len(c.ops) == 2 and all(isinstance(o, (ast.LtE, ast.Lt)) for o in c.ops) and isinstance(c.comparators[0], ast.Name):
                lo, hi = self._num(c.left), self._num(c.comparators[1])
                if lo is not None and hi is not None:
                    out[c.comparators[0].id] = (lo + (1 if isinstance(c.ops[0], ast.Lt) else 0), hi - (1 if isinstance(c.ops[1], ast.Lt) else 0))
        elif isinstance(t, ast.BoolOp) and isinstance(t.op, ast.Or):
            lo = hi = None
            name = None
            for v in t.values:
                if isinstance(v, ast.Compare) and len(v.ops) == 1 and isinstance(v.left, ast.Name):
                    k = self._num(v.comparators[0])
                    if k is None:
                        return {}
                    name = name or v.left.id
                    if v.left.id != name:
                        return {}
                    if isinstance(v.ops[0], ast.Lt):
                        lo = k
                    elif isinstance(v.ops[0], ast.LtE):
                        lo = k + 1
                    elif isinstance(v.ops[0], ast.Gt):
                        hi = k
                    elif isinstance(v.ops[0], ast.GtE):
                        hi = k - 1
                else:
                    return {}
            if name and lo is not None and hi is not None:
                out[name] = (lo, hi)
        return out

    def _range(self, e: ast.expr) -> tuple[float, float] | None:
        if isinstance(e, ast.Name):
            return self.ranges.get(e.id)
        if isinstance(e, ast.Call) and isinstance(e.func, ast.Name) and e.func.id in ("int", "round") and e.args:
            r = self._range(e.args[0])
            return (float(int(r[0])), float(int(r[1]))) if r else None
        if isinstance(e, ast.BinOp) and isinstance(e.op, (ast.Mult, ast.Add, ast.Sub)):
            for a, b in ((e.left, e.right), (e.right, e.left)):
                r, k = self._range(a), self._num(b)
                if r is not None and k is not None:
                    if isinstance(e.op, ast.Mult):
                        xs = (r[0] * k, r[1] * k)
                        return (min(xs), max(xs))
                    if isinstance(e.op, ast.Add):
                        return (r[0] + k, r[1] + k)
                    if a is e.left:
                        return (r[0] - k, r[1] - k)
        return None

    def _note_calls(self, e: ast.expr, env: dict[str, Shape]) -> None:
        for n in ast.walk(e):
            if isinstance(n, ast.Call) and isinstance(n.func, ast.Attribute) and n.func.attr in ("from_attrs", "_from_attrs") and isinstance(n.func.value, ast.Name) and n.func.value.id in ("cls", "Command"):
                self.calls.append((n, dict(env)))

    # -- expressions ------------------------------------------------------------------------

    def shape(self, e: ast.expr, env: dict[str, Shape]) -> Shape:
        if isinstance(e, ast.Constant):
            return Lit(e.value) if isinstance(e.value, str) else Unknown(f"non-str constant {e.value!r}")
        if isinstance(e, ast.Name) and e.id in env:
            return env[e.id]
        try:
            v = self.ctx.consts.eval_in(self.f, e)
        except Exception:
            v = TOP
        if v is not TOP and isinstance(v, str) and not isinstance(e, ast.Name):
            return Lit(v)
        if isinstance(e, ast.Name):
            if v is not TOP and isinstance(v, str) and e.id not in {a.arg for a in self.f.node.args.args + self.f.node.args.kwonlyargs}:
                return Lit(v)
            return Unknown(f"free variable {e.id}")
        if isinstance(e, ast.JoinedStr):
            parts = []
            for p in e.values:
                if isinstance(p, ast.Constant):
                    parts.append(Lit(str(p.value)))
                else:
                    parts.append(self._formatted(p, env))  # type: ignore[arg-type]
            return Cat(*parts)
        if isinstance(e, ast.BinOp) and isinstance(e.op, ast.Add):
            return Cat(self.shape(e.left, env), self.shape(e.right, env))
        if isinstance(e, ast.BinOp) and isinstance(e.op, ast.Mult):
            for s_e, n_e in ((e.left, e.right), (e.right, e.left)):
                try:
                    n = self.ctx.consts.eval_in(self.f, n_e)
                except Exception:
                    n = TOP
                if isinstance(n, int) and not isinstance(n, bool):
                    return Rep(self.shape(s_e, env), n, n)
            return Unknown(f"string repetition by a computed count: {norm(e)[:40]}")
        if isinstance(e, ast.IfExp):
            return Alt(self.shape(e.body, env), self.shape(e.orelse, env))
        if isinstance(e, ast.BoolOp) and isinstance(e.op, ast.Or):
            return Alt(*[self.shape(v2, env) for v2 in e.values])
        if isinstance(e, ast.Subscript) and isinstance(e.slice, ast.Slice):
            base = self.shape(e.value, env)
            b = _hex_bounds(base)
            lo_e, hi_e = e.slice.lower, e.slice.upper
            if b is not None and lo_e is None and isinstance(hi_e, ast.Constant) and isinstance(hi_e.value, int) and hi_e.value >= 0:
                n = hi_e.value
                return HexRange(min(b[0], n), n if b[1] is None else min(b[1], n))
            if base.kind == "lit" and (lo_e is None or isinstance(lo_e, ast.Constant)) and (hi_e is None or isinstance(hi_e, ast.Constant)):
                return Lit(base.text[(lo_e.value if lo_e else None) : (hi_e.value if hi_e else None)])  # type: ignore[union-attr]
            return Unknown(f"slice of {norm(e.value)[:30]}")
        if isinstance(e, ast.Call):
            return self._call(e, env)
        return Unknown(f"{type(e).__name__}: {norm(e)[:40]}")

    def _formatted(self, p: ast.FormattedValue, env: dict[str, Shape]) -> Shape:
        spec = ""
        if p.format_spec is not None:
            try:
                spec = self.ctx.consts.eval_in(self.f, p.format_spec)
            except Exception:
                spec = TOP
            if spec is TOP:
                return Unknown("computed format spec")
        if not spec:
            if p.conversion not in (-1, ord("s")):
                return Unknown("!r conversion")
            return self.shape(p.value, env)
        m = re.fullmatch(r"0?(\d+)X", spec)
        if m:
            w = int(m.group(1))
            self.hexfmt += 1
            r = self._range(p.value)
            if r is not None and r[0] >= 0 and r[1] - r[0] <= 4096 and r[1] < 16**w:
                return Alt(*[Lit(f"{v:0{w}X}") for v in range(int(r[0]), int(r[1]) + 1)])
            return Hex(w)  # exact modulo the codec's representable range (C04.R5's job)
        m = re.fullmatch(r"0?(\d*)d", spec)
        if m:
            r = self._range(p.value)
            if not (r is not None and 0 <= r[0] and r[1] <= 9):
                self.decimal.append((self.f, p))
        m = re.fullmatch(r"0(\d+)d", spec)
        if m:
            return Rep(Shape("set", syms=DIGITS), int(m.group(1)), int(m.group(1)))
        m = re.fullmatch(r"(.)([<>])(\d+)", spec)
        if m:
            fill, _align, width = m.group(1), m.group(2), int(m.group(3))
            inner = self.shape(p.value, env)
            b = _hex_bounds(inner)
            if b is not None and fill in "0123456789ABCDEF" and b[1] is not None and b[1] <= width:
                return Hex(width)
            return Unknown(f"padding of {norm(p.value)[:30]}")
        return Unknown(f"format spec {spec!r}")

    def _call(self, e: ast.Call, env: dict[str, Shape]) -> Shape:
        fn = e.func
        # "".join(<generator>)
        if isinstance(fn, ast.Attribute) and fn.attr == "join" and isinstance(fn.value, ast.Constant) and fn.value.value == "" and e.args:
            g = e.args[0]
            if isinstance(g, (ast.GeneratorExp, ast.ListComp)):
                env2 = dict(env)
                for gen in g.generators:
                    for n in ast.walk(gen.target):
                        if isinstance(n, ast.Name):
                            env2[n.id] = Unknown(f"loop variable {n.id}")
                return Rep(self.shape(g.elt, env2), 0, None)
            if isinstance(g, (ast.Tuple, ast.List)):
                return Cat(*[self.shape(x, env) for x in g.elts])
            return Unknown("join of a computed sequence")
        if isinstance(fn, ast.Attribute) and fn.attr in ("upper",):
            return self.shape(fn.value, env)
        if isinstance(fn, ast.Name) and fn.id == "str" and e.args:
            return self.shape(e.args[0], env)
        # a repo function returning str: the alternation of the shapes of its return expressions
        site = self.ctx.cg.site_of.get(id(e))
        if site is not None and site.callees and self.depth < 3:
            shapes = []
            for c in site.callees:
                if c.is_async or c.cls is not None and c.name in ("from_attrs", "_from_attrs"):
                    return Unknown(f"call of {c.short}")
                sub = Interp(self.ctx, c, self.depth + 1)
                sub.run()
                self.decimal += sub.decimal
                self.hexfmt += sub.hexfmt
                if not sub.returns:
                    return Unknown(f"{c.short} has no return expression")
                shapes += sub.returns
            res = Alt(*shapes)
            if len(site.callees) == 1 and site.callees[0].name == "_check_idx" and not is_unknown(res):
                res = retag(res, "_check_idx")
            return res
        return Unknown(f"call {norm(fn)[:40]}")


def _accepted_idx(shape: Shape, regex_d: Any) -> list[int]:
    """Index values for which the shape (with the _check_idx segment fixed to that value) is in the regex language."""
    out = []
    for v in range(256):
        s2 = substitute(shape, "_check_idx", Lit(f"{v:02X}"))
        try:
            if included(shape_dfa(s2), regex_d) is None:
                out.append(v)
        except Unsupported:
            return []
    return out


def _ranges(vals: list[int]) -> str:
    out, i = [], 0
    while i < len(vals):
        j = i
        while j + 1 < len(vals) and vals[j + 1] == vals[j] + 1:
            j += 1
        out.append(f"{vals[i]:02X}" if i == j else f"{vals[i]:02X}-{vals[j]:02X}")
        i = j + 1
    return ",".join(out)


def shape_rule(ctx: Ctx) -> RuleResult:
    from .c03 import _emitted, _values

    repo = ctx.repo
    rr = RuleResult("R3", "payload shape ⊆ decoder regex", "every payload a constructor can build (as a regular shape) is in the language of CODES_SCHEMA[code][verb]", min_instances=30)
    schema = ctx.const("ramses_tx.ramses", "CODES_SCHEMA")
    cmd_cls = repo.cls(f"{CMD}.Command")
    dfa_cache: dict[str, Any] = {}
    undecided = []
    idx_rootcause: dict[str, list[str]] = {}
    idx_sig: list[str] = []
    n_regex = 0
    n_hexfmt = 0
    for code, row in schema.items():
        for verb in (" I", "RQ", "RP", " W"):
            if verb in row:
                n_regex += 1
                try:
                    re._parser.parse(row[verb])  # type: ignore[attr-defined]
                except re.error as err:
                    rr.instances += 1
                    rr.fail(f"CODES_SCHEMA[{code}][{verb}]", repo.mod("ramses_tx.ramses").rel, f"the schema regex {row[verb]!r} does not parse: {err}")
    rr.info["schema_regexes_parsed"] = n_regex
    for name, m in sorted(cmd_cls.methods.items()):
        if not (name.startswith(("get_", "set_", "put_", "_put_", "_get_", "_set_")) and "classmethod" in m.decorators):
            continue
        it = Interp(ctx, m)
        it.run()
        calls = list(it.calls)
        for call, env in calls:  # the payload expressions themselves (when not bound to a local first)
            nm0 = call.func.attr  # type: ignore[union-attr]
            pe = (call.args[3] if len(call.args) > 3 else None) if nm0 == "from_attrs" else (call.args[2] if len(call.args) > 2 else None)
            if pe is not None:
                it.shape(pe, env)
        n_hexfmt += it.hexfmt
        seen_dec: set[int] = set()
        # only segments that flow into a payload: locals (transitively) used by a payload expression
        relevant: set[str] = set()
        pes = []
        for call, _env in calls:
            nm0 = call.func.attr  # type: ignore[union-attr]
            pe = (call.args[3] if len(call.args) > 3 else None) if nm0 == "from_attrs" else (call.args[2] if len(call.args) > 2 else None)
            if pe is not None:
                pes.append(pe)
                relevant |= {n.id for n in ast.walk(pe) if isinstance(n, ast.Name)}
        for _ in range(6):
            for st in ast.walk(m.node):
                if isinstance(st, (ast.Assign, ast.AnnAssign, ast.AugAssign)) and st.value is not None:
                    tg = st.targets if isinstance(st, ast.Assign) else [st.target]
                    if any(isinstance(t, ast.Name) and t.id in relevant for t in tg):
                        relevant |= {n.id for n in ast.walk(st.value) if isinstance(n, ast.Name)}
        for g, fv in it.decimal:
            if id(fv) in seen_dec:
                continue
            seen_dec.add(id(fv))
            if g is m:
                st = fv
                while st is not None and not isinstance(st, ast.stmt):
                    st = getattr(st, "parent", None)
                in_pe = any(fv is n for pe in pes for n in ast.walk(pe))
                tg = (st.targets if isinstance(st, ast.Assign) else [st.target]) if isinstance(st, (ast.Assign, ast.AnnAssign, ast.AugAssign)) else []
                if not in_pe and not any(isinstance(t, ast.Name) and t.id in relevant for t in tg):
                    continue
            rr.instances += 1
            rr.nontrivial += 1
            rr.fail(
                f"Command.{name}:decimal-field:{norm(fv)[:60]}",
                g.loc(fv),
                f"Command.{name} formats a payload field in decimal ({norm(fv)}): payload octets are hexadecimal and every decoder reads them with int(x, 16), "
                "so any value above 9 is transmitted as a different number",
            )
        for call, env in calls:
            v_expr = call.args[0] if call.args else None
            nm = call.func.attr  # type: ignore[union-attr]
            c_expr = (call.args[2] if len(call.args) > 2 else None) if nm == "from_attrs" else (call.args[1] if len(call.args) > 1 else None)
            p_expr = (call.args[3] if len(call.args) > 3 else None) if nm == "from_attrs" else (call.args[2] if len(call.args) > 2 else None)
            if v_expr is None or c_expr is None or p_expr is None:
                continue
            verbs = _values(ctx, m, v_expr, None)
            codes = _values(ctx, m, c_expr, None)
            if not verbs or not codes:
                undecided.append(f"{name}: verb/code not constant")
                continue
            shape = it.shape(p_expr, env)
            for verb in sorted(verbs):
                for code in sorted(codes):
                    rr.instances += 1
                    if is_unknown(shape):
                        undecided.append(f"{name} {verb}|{code}: {shape}")
                        continue
                    regex = schema.get(code, {}).get(verb)
                    if regex is None:
                        rr.nontrivial += 1
                        rr.fail(f"Command.{name}:{verb}|{code}:no-regex", m.loc(call), f"Command.{name} emits {verb}|{code}, for which the decoder's schema has no regex (Message() rejects the frame)")
                        continue
                    rr.nontrivial += 1
                    try:
                        if regex not in dfa_cache:
                            dfa_cache[regex] = regex_dfa(regex)
                        w = included(shape_dfa(shape), dfa_cache[regex])
                    except Unsupported as err:
                        undecided.append(f"{name} {verb}|{code}: regex not supported ({err})")
                        continue
                    if w is None:
                        rr.ok({"constructor": name, "pair": f"{verb}|{code}", "shape": str(shape)[:80], "regex": regex})
                    elif has_tag(shape, "_check_idx") and (acc := _accepted_idx(shape, dfa_cache[regex])):
                        idx_rootcause.setdefault(name, []).append(f"{verb}|{code}: decoder accepts idx {_ranges(acc)} only (e.g. {w!r} is rejected)")
                        idx_sig.append(f"{name}:{verb}|{code}:{_ranges(acc)}")
                        rr.ok({"constructor": name, "pair": f"{verb}|{code}", "shape": str(shape)[:80], "note": "included for every idx the decoder accepts; see the _check_idx finding"})
                    else:
                        rr.fail(
                            f"Command.{name}:{verb}|{code}:shape",
                            m.loc(call),
                            f"Command.{name} can build a {verb}|{code} payload the library's own decoder rejects, e.g. {w!r}",
                            [f"shape: {str(shape)[:160]}", f"regex: {regex}", f"payload expression: {norm(p_expr)[:120]}"],
                        )
    if idx_rootcause:
        ci = repo.func(f"{CMD}._check_idx")
        rr.instances += 1
        rr.nontrivial += 1
        rr.fail(
            "_check_idx:admits-indexes-the-decoder-rejects:" + __import__("hashlib").sha256("\n".join(sorted(idx_sig)).encode()).hexdigest()[:10],
            ci.loc(),
            f"_check_idx() returns any 2-hex index unrefused, but for {len(idx_rootcause)} constructors the decoder only accepts a subset: "
            "an out-of-domain index yields a frame the library's own decoder rejects instead of CommandInvalid",
            [f"{k}: {'; '.join(v)}" for k, v in sorted(idx_rootcause.items())][:40],
        )
    rr.info["hex_formatted_payload_fields"] = n_hexfmt
    if n_hexfmt < 40:
        raise AnalysisError(f"only {n_hexfmt} hex-formatted payload fields found in the constructors (expected >= 40): the format-spec scan is not seeing the payload expressions")
    rr.info["undecided"] = undecided[:40]
    rr.info["n_undecided"] = len(undecided)
    return rr
