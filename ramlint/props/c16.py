"""C16 - Saved state restores: snapshot -> fresh gateway -> snapshot is a fixpoint."""

from __future__ import annotations

import ast

from ..context import Ctx
from ..loader import AnalysisError, norm, own_nodes
from ..report import RuleResult
from .c02 import const_slices

META = {
    "explanation": (
        "The fixed point snapshot -> restore -> snapshot is behavioural and is NOT decided. Decided: C16.R1 admission filter - in "
        "Gateway.get_state.wanted_msg every path returning a truthy value is dominated by a verb test that excludes RQ (and W except for "
        "0404 schedule fragments) and by `include_expired or not msg._expired`. C16.R2 storage format agreement - the snapshot's key/value "
        "split of repr(pkt) ([:26] / [27:]) matches Packet.__repr__'s layout and what Packet.from_dict/_partition parse (shared with C02.R2). "
        "C16.R3 restore uses the gateway's own handler and filters - the temporary protocol is built with self._msg_handler, "
        "exclude_list=self._exclude, include_list=self._include and fed the packets through the same FileTransport path."
    ),
}

G = "ramses_rf.gateway"


def check(ctx: Ctx) -> list[RuleResult]:
    repo = ctx.repo
    out: list[RuleResult] = []
    wm = repo.func(f"{G}.Gateway.get_state.wanted_msg")
    cfg = ctx.plain_cfg(wm)

    # ---- R1 ---------------------------------------------------------------------------
    r1 = RuleResult("R1", "admission filter of the snapshot", "no RQ, no W (bar 0404), no expired packet unless asked", min_instances=3)
    rets = [n for n in cfg.nodes if n.kind == "stmt" and isinstance(n.ast, ast.Return)]
    if len(rets) < 3:
        raise AnalysisError("wanted_msg: return statements not found")
    for r in rets:
        v = r.ast.value  # type: ignore[union-attr]
        if isinstance(v, ast.Constant) and v.value is False:
            continue
        r1.instances += 1
        r1.nontrivial += 1
        txt = norm(v)
        # which verbs can this return admit?
        verbs_ok = False
        why = ""
        if "msg.verb in (I_, RP)" in txt:
            verbs_ok = True
            why = "verb in (I, RP)"
        elif "msg.verb in (I_, W_)" in txt:
            # W only for schedule fragments
            code_guard = [t for t in cfg.nodes if t.kind == "test" and norm(t.ast) == "msg.code == Code._0404" and cfg.edge_dominates(t, "true", r)]
            verbs_ok = bool(code_guard)
            why = "verb in (I, W) under code == 0404"
        else:
            vg = [t for t in cfg.nodes if t.kind == "test" and norm(t.ast) in ("msg.verb in (W_, RQ)", "msg.verb in (RQ, W_)") and cfg.edge_dominates(t, "false", r)]
            verbs_ok = bool(vg)
            why = "after `if msg.verb in (W, RQ): return False`"
        # expiry
        exp_ok = "include_expired or not msg._expired" in txt or any(t.kind == "test" and norm(t.ast) == "msg._expired and (not include_expired)" and cfg.edge_dominates(t, "false", r) for t in cfg.nodes)
        if verbs_ok and exp_ok:
            r1.ok({"return": txt[:60], "verbs": why, "expiry": "dominated by the expiry test"})
        elif not verbs_ok:
            r1.fail(f"{wm.short}:{txt[:50]}:verbs", wm.loc(r.ast), f"`return {txt[:60]}` can admit a request/write into the snapshot (no dominating verb test)")
        else:
            r1.fail(f"{wm.short}:{txt[:50]}:expired", wm.loc(r.ast), f"`return {txt[:60]}` is reached before the expiry test: an expired packet is kept although include_expired is False")
    out.append(r1)

    # ---- R2 ---------------------------------------------------------------------------
    r2 = RuleResult("R2", "storage format agreement", "get_state's split of repr(pkt) vs Packet.__repr__ / from_dict", min_instances=3)
    gs = repo.func(f"{G}.Gateway.get_state")
    found = const_slices(gs, lambda b: b == "repr(msg._pkt)")
    for want in ((0, 26), (27, None)):
        r2.instances += 1
        r2.nontrivial += 1
        hit = [n for n, lo, hi in found if (lo or 0) == want[0] and hi == want[1]]
        if hit:
            r2.ok({"slice": norm(hit[0])})
        else:
            r2.fail(f"{gs.short}:repr-split:{want}", gs.loc(), f"get_state splits repr(pkt) with {sorted({norm(n) for n, _, _ in found})}; Packet.__repr__ puts the timestamp at 0:26 and the packet text at 27:")
    fd = repo.func("ramses_tx.packet.Packet.from_dict")
    r2.instances += 1
    r2.nontrivial += 1
    t = norm(fd.node)
    if "cls._partition(pkt_line)" in t and "dt.fromisoformat(dtm)" in t:
        r2.ok({"from_dict": "dt.fromisoformat(key) + _partition(value)"})
    else:
        r2.fail(f"{fd.short}:parse", fd.loc(), "Packet.from_dict no longer parses the key with dt.fromisoformat and the value with _partition")
    out.append(r2)

    # ---- R3 ---------------------------------------------------------------------------
    r3 = RuleResult("R3", "restore uses the gateway's own handler and filters", "protocol_factory(self._msg_handler, exclude_list=self._exclude, include_list=self._include)", min_instances=2)
    rc = repo.func(f"{G}.Gateway._restore_cached_packets")
    calls = [n for n in own_nodes(rc.node) if isinstance(n, ast.Call) and norm(n.func) == "protocol_factory"]
    if not calls:
        raise AnalysisError("_restore_cached_packets: protocol_factory call not found")
    for c in calls:
        r3.instances += 1
        r3.nontrivial += 1
        kw = {k.arg: norm(k.value) for k in c.keywords}
        a0 = norm(c.args[0]) if c.args else None
        if a0 == "self._msg_handler" and kw.get("exclude_list") == "self._exclude" and kw.get("include_list") == "self._include" and kw.get("disable_sending") == "True":
            r3.ok({"protocol_factory": {"handler": a0, **kw}})
        else:
            r3.fail(f"{rc.short}:protocol_factory", rc.loc(c), f"the restore protocol is built with handler={a0}, {kw}: not the gateway's own handler/filter lists")
    tcalls = [n for n in own_nodes(rc.node) if isinstance(n, ast.Call) and norm(n.func) == "transport_factory"]
    r3.instances += 1
    r3.nontrivial += 1
    if tcalls and any(k.arg == "packet_dict" and norm(k.value) == "packets" for k in tcalls[0].keywords):
        r3.ok({"transport_factory": "packet_dict=packets"})
    else:
        r3.fail(f"{rc.short}:transport_factory", rc.loc(), "the restore no longer feeds the packets through transport_factory(packet_dict=packets)")
    out.append(r3)
    return out
