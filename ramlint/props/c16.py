"""C16 - Saved state restores: snapshot -> fresh gateway -> snapshot is a fixpoint."""

from __future__ import annotations

import ast

from ..context import Ctx
from ..loader import AnalysisError, norm, own_nodes
from ..predeval import PredEval, Unsupported
from ..report import RuleResult
from .c02 import const_slices

META = {
    "explanation": (
        "The fixed point snapshot -> restore -> snapshot is behavioural and is NOT decided. Decided: C16.R1 admission filter - in "
        "Gateway.get_state.wanted_msg every path returning a truthy value is dominated by a verb test that excludes RQ (and W except for "
        "0404 schedule fragments) and by `include_expired or not msg._expired`. C16.R2 storage format agreement - the snapshot's key/value "
        "split of repr(pkt) ([:26] / [27:]) matches Packet.__repr__'s layout and what Packet.from_dict/_partition parse (shared with C02.R2). "
        "C16.R3 restore uses the gateway's own handler and filters - the temporary protocol is built with self._msg_handler, "
        "exclude_list=self._exclude, include_list=self._include and fed the packets through the same FileTransport path."
    ),
}
META["explanation"] += ' C16.R1 is read off the complete decision table of wanted_msg (predeval.py).'

G = "ramses_rf.gateway"


def check(ctx: Ctx) -> list[RuleResult]:
    repo = ctx.repo
    out: list[RuleResult] = []
    # the snapshot's admission filter: the predicate get_state calls with include_expired (a closure or a module-level helper)
    from .common import module_scope

    gs0 = repo.func(f"{G}.Gateway.get_state")
    filt = [g for g in module_scope(ctx, gs0) if g is not gs0 and "include_expired" in [a.arg for a in g.node.args.args + g.node.args.kwonlyargs] and any(isinstance(c, ast.Call) and ((isinstance(c.func, ast.Name) and c.func.id == g.name) or (isinstance(c.func, ast.Attribute) and c.func.attr == g.name)) for c in own_nodes(gs0.node))]
    if len(filt) != 1:
        raise AnalysisError(f"get_state: the admission filter (a predicate taking include_expired) was not found uniquely: {[g.short for g in filt]}")
    wm = filt[0]

    # ---- R1 ---------------------------------------------------------------------------
    # The filter only compares msg.verb / msg.code with constants and tests two flags, so its complete decision table is
    # computed by abstract evaluation of its source (predeval.py) and the three admission rules are read off the table.
    r1 = RuleResult("R1", "admission filter of the snapshot", "decision table of wanted_msg: no RQ, no W (bar 0404), no expired packet unless asked", min_instances=3)
    rq = ctx.const("ramses_tx.const", "RQ")
    w_ = ctx.const("ramses_tx.const", "W_")
    try:
        tab = PredEval(ctx, wm, domains={"msg.verb": [ctx.const("ramses_tx.const", "I_"), rq, ctx.const("ramses_tx.const", "RP"), w_], "msg.code": ["0404"]}).table()
    except Unsupported as err:
        raise AnalysisError(f"wanted_msg is no longer a decision list the evaluator understands: {err}") from err
    VERB, CODE, EXP, INC = "msg.verb", "msg.code", "msg._expired", "include_expired"
    if VERB not in tab.subjects or EXP not in tab.atoms or INC not in tab.atoms:
        raise AnalysisError(f"wanted_msg: expected subjects/flags not found (subjects={list(tab.subjects)}, flags={tab.atoms})")
    admitted = tab.where(lambda a, r: bool(r) and not (isinstance(r, tuple) and r and r[0] == "raise"))
    if not admitted:
        raise AnalysisError("wanted_msg admits nothing: decision table is degenerate")
    r1.info = {"decision_table_rows": len(tab.rows), "admitted_rows": len(admitted), "subjects": {k: [str(x) for x in v] for k, v in tab.subjects.items()}, "flags": tab.atoms}
    # (a) requests
    r1.instances += 1
    r1.nontrivial += 1
    bad = [a for a, _r in admitted if a[VERB] == rq]
    if bad:
        r1.fail(f"{wm.short}:admits-RQ", wm.loc(), f"the snapshot filter admits a request (RQ): e.g. {tab.describe(bad[0])}")
    else:
        r1.ok({"no_RQ_admitted": True})
    # (b) writes, bar schedule fragments
    r1.instances += 1
    r1.nontrivial += 1
    bad = [a for a, _r in admitted if a[VERB] == w_ and a.get(CODE) != "0404"]
    if bad:
        r1.fail(f"{wm.short}:admits-W", wm.loc(), f"the snapshot filter admits a write (W) other than a 0404 schedule fragment: e.g. {tab.describe(bad[0])}")
    else:
        r1.ok({"W_admitted_only_for": "0404"})
    # (c) expired packets only when asked for; one finding per message code that escapes the expiry test
    by_code: dict[str, dict] = {}
    for a, _r in admitted:
        if a[EXP] and not a[INC]:
            by_code.setdefault(str(a.get(CODE)), a)
    codes = list(tab.subjects.get(CODE, [])) + ["<other>"]
    for c in codes:
        r1.instances += 1
        r1.nontrivial += 1
        if str(c) in by_code:
            r1.fail(f"get_state-admission-filter:expired-admitted:msg.code={c}", wm.loc(), f"an expired packet is admitted although include_expired is False: {tab.describe(by_code[str(c)])}")
        else:
            r1.ok({"code": str(c), "expired_admitted_unasked": False})
    out.append(r1)

    # ---- R2 ---------------------------------------------------------------------------
    r2 = RuleResult("R2", "storage format agreement", "get_state's split of repr(pkt) vs Packet.__repr__ / from_dict", min_instances=3)
    gs = repo.func(f"{G}.Gateway.get_state")
    found = const_slices(gs, lambda b: b == "repr(msg._pkt)")
    for want in ((0, 26), (27, None)):
        r2.instances += 1
        r2.nontrivial += 1
        hit = [n for n, lo, hi in found if (lo or 0) == want[0] and hi == want[1]]
        if hit:
            r2.ok({"slice": norm(hit[0])})
        else:
            r2.fail(f"{gs.short}:repr-split:{want}", gs.loc(), f"get_state splits repr(pkt) with {sorted({norm(n) for n, _, _ in found})}; Packet.__repr__ puts the timestamp at 0:26 and the packet text at 27:")
    fd = repo.func("ramses_tx.packet.Packet.from_dict")
    r2.instances += 1
    r2.nontrivial += 1
    t = norm(fd.node)
    fd_params = [a.arg for a in fd.node.args.args if a.arg not in ("cls", "self")]
    part = [c for c in own_nodes(fd.node) if isinstance(c, ast.Call) and isinstance(c.func, ast.Attribute) and c.func.attr == "_partition" and c.args and len(fd_params) > 1 and norm(c.args[0]) == fd_params[1]]
    iso = [c for c in own_nodes(fd.node) if isinstance(c, ast.Call) and isinstance(c.func, ast.Attribute) and c.func.attr == "fromisoformat" and c.args and fd_params and norm(c.args[0]) == fd_params[0]]
    if part and iso:
        r2.ok({"from_dict": "dt.fromisoformat(key) + _partition(value)"})
    else:
        r2.fail(f"{fd.short}:parse", fd.loc(), "Packet.from_dict no longer parses the key with dt.fromisoformat and the value with _partition")
    out.append(r2)

    # ---- R3 ---------------------------------------------------------------------------
    r3 = RuleResult("R3", "restore uses the gateway's own handler and filters", "protocol_factory(self._msg_handler, exclude_list=self._exclude, include_list=self._include)", min_instances=2)
    rc = repo.func(f"{G}.Gateway._restore_cached_packets")
    calls = [n for n in own_nodes(rc.node) if isinstance(n, ast.Call) and norm(n.func) == "protocol_factory"]
    if not calls:
        raise AnalysisError("_restore_cached_packets: protocol_factory call not found")
    for c in calls:
        r3.instances += 1
        r3.nontrivial += 1
        from .common import expand as _expand16

        kw = {k.arg: norm(_expand16(rc.node, k.value, pure_only=False)) for k in c.keywords if k.arg is not None}
        # keyword arguments hoisted into a dict and passed with ** are the same call
        for k in c.keywords:
            if k.arg is None:
                dv = _expand16(rc.node, k.value, pure_only=False)
                if isinstance(dv, ast.Dict) and all(isinstance(kk, ast.Constant) and isinstance(kk.value, str) for kk in dv.keys):
                    for kk, vv in zip(dv.keys, dv.values):
                        kw[kk.value] = norm(_expand16(rc.node, vv, pure_only=False))
                elif isinstance(dv, ast.Call) and norm(dv.func) == "dict" and not dv.args:
                    for k2 in dv.keywords:
                        if k2.arg is not None:
                            kw[k2.arg] = norm(_expand16(rc.node, k2.value, pure_only=False))
        a0 = norm(_expand16(rc.node, c.args[0], pure_only=False)) if c.args else None
        if a0 == "self._msg_handler" and kw.get("exclude_list") == "self._exclude" and kw.get("include_list") == "self._include" and kw.get("disable_sending") == "True":
            r3.ok({"protocol_factory": {"handler": a0, **kw}})
        else:
            r3.fail(f"{rc.short}:protocol_factory", rc.loc(c), f"the restore protocol is built with handler={a0}, {kw}: not the gateway's own handler/filter lists")
    tcalls = [n for n in own_nodes(rc.node) if isinstance(n, ast.Call) and norm(n.func) == "transport_factory"]
    r3.instances += 1
    r3.nontrivial += 1
    if tcalls and any(k.arg == "packet_dict" and norm(_expand16(rc.node, k.value, pure_only=False)) == "packets" for k in tcalls[0].keywords):
        r3.ok({"transport_factory": "packet_dict=packets"})
    else:
        r3.fail(f"{rc.short}:transport_factory", rc.loc(), "the restore no longer feeds the packets through transport_factory(packet_dict=packets)")
    # the packets restored are the packets given: the parameter reaches the transport unfiltered (an age cut-off, a de-duplication,
    # a sort-and-slice before the replay all make snapshot -> restore -> snapshot lose packets the first snapshot kept)
    r3.instances += 1
    r3.nontrivial += 1
    pparams = [a.arg for a in rc.node.args.args if a.arg != "self"]
    pk = pparams[0] if pparams else "packets"
    rebinds = [n for n in own_nodes(rc.node) if isinstance(n, ast.Name) and n.id == pk and isinstance(n.ctx, (ast.Store, ast.Del))]
    muts = [n for n in own_nodes(rc.node) if isinstance(n, ast.Call) and isinstance(n.func, ast.Attribute) and isinstance(n.func.value, ast.Name) and n.func.value.id == pk and n.func.attr in ("pop", "popitem", "clear", "update", "setdefault", "__delitem__")] + [n for n in own_nodes(rc.node) if isinstance(n, ast.Delete) and any(isinstance(t, ast.Subscript) and isinstance(t.value, ast.Name) and t.value.id == pk for t in n.targets)]
    if rebinds or muts:
        n0 = (rebinds or muts)[0]
        r3.fail(f"{rc.short}:packets-filtered-before-restore", rc.loc(n0), f"_restore_cached_packets re-binds/mutates its `{pk}` argument (`{norm(getattr(n0, 'parent', n0))[:70]}`) before replaying it: packets the snapshot kept (never-expiring schedule fragments, 313F, anything taken with include_expired) are not restored, so a second snapshot differs from the first")
    else:
        r3.ok({"packets_argument": "replayed as given (never re-bound or mutated)"})
    # the restore is over when the replay is: it awaits the temporary transport's reader task itself. A bounded wait in its place
    # (wait_for_connection_lost() has a 1 s default) raises for a large cache and resumes the engine while the temporary reader is
    # still feeding stale packets into the live gateway
    r3.instances += 1
    r3.nontrivial += 1
    aw = [n for n in own_nodes(rc.node) if isinstance(n, ast.Await) and isinstance(n.value, ast.Call) and isinstance(n.value.func, ast.Attribute) and n.value.func.attr == "get_extra_info" and n.value.args and "READER_TASK" in norm(n.value.args[0]).upper()]
    bounded = [n for n in own_nodes(rc.node) if isinstance(n, ast.Await) and isinstance(n.value, ast.Call) and isinstance(n.value.func, ast.Attribute) and n.value.func.attr in ("wait_for_connection_lost", "wait_for_connection_made", "wait_for", "wait")]
    if aw and not bounded:
        r3.ok({"restore_waits_for": norm(aw[0].value)[:60]})
    else:
        r3.fail(f"{rc.short}:restore-not-awaiting-the-reader", rc.loc((bounded or [rc.node])[0]), f"_restore_cached_packets {'waits with a timeout (`' + norm(bounded[0].value)[:50] + '`)' if bounded else 'no longer awaits the reader task'}: a replay that outlasts the wait makes the restore raise and resume the engine while cached (stale) packets are still being fed into the live gateway")
    # ...and they are replayed into a started engine: Gateway.start() brings the engine up first (restore relies on the engine's
    # clock/transport to age the packets consistently; restored before the transport exists they are aged against the wall clock)
    gst = repo.func(f"{G}.Gateway.start")
    cfgs = ctx.plain_cfg(gst)
    rest = [x for x in cfgs.nodes if x.ast is not None and x.kind == "stmt" and any(isinstance(c, ast.Call) and isinstance(c.func, ast.Attribute) and c.func.attr == rc.name for c in ast.walk(x.ast))]
    sup = [x for x in cfgs.nodes if x.ast is not None and x.kind == "stmt" and any(isinstance(c, ast.Call) and isinstance(c.func, ast.Attribute) and c.func.attr == "start" and isinstance(c.func.value, ast.Call) and norm(c.func.value.func) == "super" for c in ast.walk(x.ast))]
    if not rest or not sup:
        raise AnalysisError("Gateway.start: the restore call / super().start() was not found")
    r3.instances += 1
    r3.nontrivial += 1
    doms = cfgs.dominators()
    if all(any(s0.id in doms[r0.id] for s0 in sup) for r0 in rest):
        r3.ok({"Gateway.start": "super().start() dominates the restore"})
    else:
        r3.fail(f"{gst.short}:restore-before-engine-start", gst.loc(rest[0].ast), "Gateway.start() restores the cached packets before the engine (protocol + transport) has been started: the restored messages are then aged against the wall clock instead of the engine's clock, so a restart of a replayed/file-based gateway expires (and lazily deletes) packets the snapshot held")
    out.append(r3)
    return out
