"""C11 - Transmit regulation holds for every send pattern (duty cycle, write spacing)."""

from __future__ import annotations

import ast

from ..context import Ctx
from ..dep import Deps
from ..loader import AnalysisError, norm, own_nodes
from ..pairing import contains_call, method_call
from ..report import RuleResult
from .common import fold_flag, policy_views

META = {
    "explanation": (
        "The numeric claim (bits per window <= allowance + one bucket + one frame per pending write; average write spacing) is arithmetic "
        "over time and is NOT decided. Decided: C11.R1 the regulator cannot be bypassed - serial.write is called only from "
        "PortTransport._write <- _write_frame <- {_FullTransport.write_frame, the bounded start-up signature probe}; "
        "PortTransport.write_frame is decorated limit_duty_cycle(MAX_DUTY_CYCLE_RATE) outermost, then avoid_system_syncs, and acquires the "
        "leaker semaphore before super().write_frame; mqtt publish only via _publish <- _write_frame <- write_frame. C11.R2 the constants "
        "select the real limiter (0 < MAX_DUTY_CYCLE_RATE <= 1, debug flag off, MIN_INTER_WRITE_GAP > 0, BoundedSemaphore() of 1, "
        "_MAX_TOKENS == MAX_TRANSMIT_RATE_TOKENS). C11.R3 in the limiter the refill precedes the sufficiency test, the wait precedes the "
        "write, and the debit post-dominates the write on normal and exceptional exits; the frame size depends on the payload. "
        "C11.R4 the MQTT over-budget branch returns before the debit and the write, and no container accumulates frames. "
        "C11.R5 the bytes written depend only on the frame argument (+ the configured outbound regex) and there is no queue between "
        "write_frame and _write."
    ),
}

T = "ramses_tx.transport"


def check(ctx: Ctx) -> list[RuleResult]:
    repo = ctx.repo
    pol = policy_views(ctx)
    out: list[RuleResult] = []

    # ---- R1 ---------------------------------------------------------------------------
    r1 = RuleResult("R1", "the regulator cannot be bypassed", "who may call serial.write/_write/_write_frame/publish; decorator stack; semaphore before the write", min_instances=6)
    n_sw = 0
    for f in repo.funcs.values():
        if not f.module.name.startswith(("ramses_tx", "ramses_rf")):
            continue
        for n in own_nodes(f.node):
            if isinstance(n, ast.Call) and isinstance(n.func, ast.Attribute):
                tgt = norm(n.func)
                if tgt.endswith("serial.write"):
                    n_sw += 1
                    r1.instances += 1
                    r1.nontrivial += 1
                    if f.qualname == f"{T}.PortTransport._write":
                        r1.ok({"serial.write": f.short})
                    else:
                        r1.fail(f"{f.short}:serial.write", f.loc(n), f"{f.short} writes to the serial port directly, outside PortTransport._write (unregulated)")
                elif n.func.attr == "_write" and "self" in tgt and f.module.name == T:
                    r1.instances += 1
                    r1.nontrivial += 1
                    if f.qualname == f"{T}.PortTransport._write_frame":
                        r1.ok({"_write": f.short})
                    else:
                        r1.fail(f"{f.short}:_write", f.loc(n), f"{f.short} calls _write() outside PortTransport._write_frame")
                elif n.func.attr == "publish" and "client" in tgt:
                    r1.instances += 1
                    r1.nontrivial += 1
                    if f.qualname == f"{T}.MqttTransport._publish":
                        r1.ok({"publish": f.short})
                    else:
                        r1.fail(f"{f.short}:publish", f.loc(n), f"{f.short} publishes to MQTT outside MqttTransport._publish")
                elif n.func.attr == "_publish":
                    r1.instances += 1
                    r1.nontrivial += 1
                    if f.qualname == f"{T}.MqttTransport._write_frame":
                        r1.ok({"_publish": f.short})
                    else:
                        r1.fail(f"{f.short}:_publish", f.loc(n), f"{f.short} calls _publish() outside MqttTransport._write_frame")
                elif n.func.attr == "_write_frame":
                    r1.instances += 1
                    r1.nontrivial += 1
                    okc = f.qualname in (f"{T}._FullTransport.write_frame", f"{T}.PortTransport._create_connection.connect_with_signature")
                    if okc:
                        r1.ok({"_write_frame": f.short})
                    else:
                        r1.fail(f"{f.short}:_write_frame", f.loc(n), f"{f.short} calls _write_frame() directly (only write_frame and the start-up signature probe may)")
    if n_sw != 1:
        raise AnalysisError(f"{n_sw} serial.write call sites found (expected 1)")
    # the signature probe is bounded
    probe = repo.func(f"{T}.PortTransport._create_connection.connect_with_signature")
    r1.instances += 1
    r1.nontrivial += 1
    loops = [n for n in own_nodes(probe.node) if isinstance(n, ast.While)]
    max_trys = ctx.consts.get(T, "_SIGNATURE_MAX_TRYS")
    gap = ctx.consts.get(T, "_SIGNATURE_GAP_SECS")
    okp = len(loops) == 1 and norm(loops[0].test) == "num_sends < _SIGNATURE_MAX_TRYS" and any(norm(b) == "num_sends += 1" for b in loops[0].body) and isinstance(max_trys, int) and 0 < max_trys <= 60 and isinstance(gap, (int, float)) and gap > 0 and any("asyncio.sleep(_SIGNATURE_GAP_SECS)" in norm(b) for b in loops[0].body)
    if okp:
        r1.ok({"signature_probe": f"<= {max_trys} frames, {gap}s apart"})
    else:
        r1.fail(f"{probe.short}:unbounded", probe.loc(), f"the start-up signature probe (which bypasses write_frame) is no longer bounded/spaced: max={max_trys!r}, gap={gap!r}")
    # decorator stack + semaphore
    wf = repo.func(f"{T}.PortTransport.write_frame")
    decos = [norm(d) for d in wf.node.decorator_list]
    r1.instances += 1
    r1.nontrivial += 1
    if decos == ["limit_duty_cycle(MAX_DUTY_CYCLE_RATE)", "avoid_system_syncs"]:
        r1.ok({"decorators": decos})
    else:
        r1.fail(f"{wf.short}:decorators", wf.loc(), f"PortTransport.write_frame's decorators are {decos}, expected limit_duty_cycle(MAX_DUTY_CYCLE_RATE) outermost then avoid_system_syncs")
    r1.instances += 1
    r1.nontrivial += 1
    cfg = ctx.plain_cfg(wf)
    sup = [x for x in cfg.nodes if x.kind == "stmt" and "super().write_frame" in norm(x.ast)]
    acq = [x for x in cfg.nodes if x.kind == "stmt" and norm(x.ast) == "await self._leaker_sem.acquire()"]
    if sup and acq and all(acq[0].id in cfg.dominators().get(s.id, set()) for s in sup):
        r1.ok({"semaphore": "acquired before super().write_frame on every path"})
    else:
        r1.fail(f"{wf.short}:semaphore", wf.loc(), "the inter-write-gap semaphore is not acquired before super().write_frame on every path")
    out.append(r1)

    # ---- R2 ---------------------------------------------------------------------------
    r2 = RuleResult("R2", "constants select the real limiter", "rates, gaps, tokens and the debug flag", min_instances=5)
    rate = ctx.consts.need("ramses_tx.const", "MAX_DUTY_CYCLE_RATE")
    r2.instances += 1
    r2.nontrivial += 1
    if isinstance(rate, (int, float)) and 0 < rate <= 1:
        r2.ok({"MAX_DUTY_CYCLE_RATE": rate})
    else:
        r2.fail("const.MAX_DUTY_CYCLE_RATE", repo.mod("ramses_tx.const").rel, f"MAX_DUTY_CYCLE_RATE folds to {rate!r}: outside (0, 1] selects the null wrapper (no duty-cycle limit)")
    ldc = repo.func(f"{T}.limit_duty_cycle.decorator")
    r2.instances += 1
    r2.nontrivial += 1
    sel = [n for n in ldc.node.body if isinstance(n, ast.If) and norm(n.test) == "0 < max_duty_cycle <= 1" and isinstance(n.body[0], ast.Return) and norm(n.body[0].value) == "wrapper"]
    if sel:
        r2.ok({"selector": "0 < max_duty_cycle <= 1 -> wrapper"})
    else:
        r2.fail(f"{ldc.short}:selector", ldc.loc(), "limit_duty_cycle no longer returns the limiting wrapper for rates in (0, 1]")
    fold_flag(ctx, r2, T, "_DBG_DISABLE_DUTY_CYCLE_LIMIT", False, "the bit bucket would be refilled on every write (no limit)")
    gapv = ctx.consts.need("ramses_tx.const", "MIN_INTER_WRITE_GAP")
    r2.instances += 1
    r2.nontrivial += 1
    if isinstance(gapv, (int, float)) and gapv > 0:
        r2.ok({"MIN_INTER_WRITE_GAP": gapv})
    else:
        r2.fail("const.MIN_INTER_WRITE_GAP", repo.mod("ramses_tx.const").rel, f"MIN_INTER_WRITE_GAP folds to {gapv!r}")
    pinit = repo.func(f"{T}.PortTransport.__init__")
    r2.instances += 1
    r2.nontrivial += 1
    sem = [n for n in own_nodes(pinit.node) if isinstance(n, ast.Assign) and norm(n.targets[0]) == "self._leaker_sem"]
    if len(sem) == 1 and norm(sem[0].value) in ("asyncio.BoundedSemaphore()", "asyncio.BoundedSemaphore(1)", "asyncio.BoundedSemaphore(value=1)"):
        r2.ok({"_leaker_sem": norm(sem[0].value)})
    else:
        r2.fail(f"{pinit.short}:_leaker_sem", pinit.loc(), f"the write-gap semaphore is {[norm(s.value) for s in sem]}, expected a BoundedSemaphore of 1")
    leak = repo.func(f"{T}.PortTransport._leak_sem")
    r2.instances += 1
    r2.nontrivial += 1
    if any("asyncio.sleep(MIN_INTER_WRITE_GAP)" in norm(n) for n in own_nodes(leak.node)) and any("self._leaker_sem.release()" in norm(n) for n in own_nodes(leak.node)):
        r2.ok({"_leak_sem": "one token per MIN_INTER_WRITE_GAP"})
    else:
        r2.fail(f"{leak.short}:rate", leak.loc(), "_leak_sem no longer releases one token per MIN_INTER_WRITE_GAP")
    mq = repo.cls(f"{T}.MqttTransport")
    r2.instances += 1
    r2.nontrivial += 1
    mt = mq.class_attr("_MAX_TOKENS")
    if mt is not None and norm(mt) == "MAX_TRANSMIT_RATE_TOKENS" and isinstance(ctx.consts.need("ramses_tx.const", "MAX_TRANSMIT_RATE_TOKENS"), int):
        r2.ok({"_MAX_TOKENS": ctx.consts.need("ramses_tx.const", "MAX_TRANSMIT_RATE_TOKENS")})
    else:
        r2.fail("MqttTransport._MAX_TOKENS", mq.module.rel, "MqttTransport._MAX_TOKENS is no longer MAX_TRANSMIT_RATE_TOKENS")
    out.append(r2)

    # ---- R3 ---------------------------------------------------------------------------
    r3 = RuleResult("R3", "debit on all exits; order refill -> test -> wait -> write -> debit", "in limit_duty_cycle.wrapper", min_instances=4)
    w = repo.func(f"{T}.limit_duty_cycle.decorator.wrapper")
    cfgw = ctx.cfg(w, pol)
    def find(pred):
        return [x for x in cfgw.nodes if x.ast is not None and x.kind in ("stmt", "test") and pred(norm(x.ast))]
    refill = find(lambda t: t.startswith("bits_in_bucket = min(bits_in_bucket +"))
    test = find(lambda t: t == "bits_in_bucket < rf_frame_size")
    wait = find(lambda t: t.startswith("await asyncio.sleep((rf_frame_size - bits_in_bucket)"))
    write = find(lambda t: t.startswith("await fnc(self, frame"))
    debit = find(lambda t: t == "bits_in_bucket -= rf_frame_size")
    if not (refill and test and wait and write and debit):
        raise AnalysisError("limit_duty_cycle.wrapper: refill/test/wait/write/debit statements not found")
    dom = cfgw.dominators()
    r3.instances += 1
    r3.nontrivial += 1
    if refill[0].id in dom[test[0].id] and test[0].id in dom[write[0].id] and cfgw.edge_dominates(test[0], "true", wait[0]) and all(wait[0].id not in cfgw.reachable_from(wr.id) or True for wr in write):
        r3.ok({"order": "refill dominates the sufficiency test, which dominates the write; the wait is on its true edge"})
    else:
        r3.fail(f"{w.short}:order", w.loc(), "the limiter no longer refills before testing, or tests before writing")
    r3.instances += 1
    r3.nontrivial += 1
    # the wait precedes the write: the write is reachable from the wait, not vice versa
    if write[0].id in cfgw.reachable_from(wait[0].id) and wait[0].id not in cfgw.reachable_from(write[0].id):
        r3.ok({"wait_before_write": True})
    else:
        r3.fail(f"{w.short}:wait-after-write", w.loc(), "the wait for the bucket to refill no longer precedes the write")
    r3.instances += 1
    r3.nontrivial += 1
    def passing(x):
        return x.ast is not None and x.kind == "stmt" and norm(x.ast) == "bits_in_bucket -= rf_frame_size"
    leaks = cfgw.exits_reachable_without(write[0].id, passing, skip_start_exc=False)
    if leaks:
        ex, path, labs = leaks[0]
        r3.fail(f"{w.short}:debit-skipped:{'exceptional' if ex.kind == 'raise_exit' else 'normal'}-exit", w.loc(write[0].ast), "a write can complete or fail without the frame being debited from the bit bucket", [f"{p.kind}@{p.line} --{lab}-->" for p, lab in zip(path, labs[1:] + [""])][:8])
    else:
        r3.ok({"debit": "post-dominates the write on normal and exceptional exits (finally)"})
    r3.instances += 1
    r3.nontrivial += 1
    size = [n for n in own_nodes(w.node) if isinstance(n, ast.Assign) and norm(n.targets[0]) == "rf_frame_size"]
    if len(size) == 1 and "len(frame[46:])" in norm(size[0].value):
        r3.ok({"rf_frame_size": norm(size[0].value)})
    else:
        r3.fail(f"{w.short}:frame-size", w.loc(), f"rf_frame_size no longer depends on the payload length: {[norm(s.value) for s in size]}")
    out.append(r3)

    # ---- R4 ---------------------------------------------------------------------------
    r4 = RuleResult("R4", "MQTT drops rather than queues", "the over-budget branch returns before the debit and the write; nothing accumulates frames", min_instances=2)
    mw = repo.func(f"{T}.MqttTransport.write_frame")
    cfgm = ctx.plain_cfg(mw)
    r4.instances += 1
    r4.nontrivial += 1
    drop = [x for x in cfgm.nodes if x.kind == "test" and "self._num_tokens < 1.0 - self._TOKEN_RATE" in norm(x.ast)]
    deb = [x for x in cfgm.nodes if x.kind == "stmt" and norm(x.ast) == "self._num_tokens -= 1.0"]
    wr = [x for x in cfgm.nodes if x.kind == "stmt" and "super().write_frame" in norm(x.ast)]
    if drop and deb and wr and cfgm.edge_dominates(drop[0], "false", deb[0]) and cfgm.edge_dominates(drop[0], "false", wr[0]) and deb[0].id in cfgm.dominators()[wr[0].id]:
        r4.ok({"over_budget": "returns before the debit and the write", "debit_before_write": True})
    else:
        r4.fail(f"{mw.short}:drop-branch", mw.loc(), "MqttTransport.write_frame no longer drops an over-budget write before debiting/writing (or writes without debiting a token)")
    r4.instances += 1
    r4.nontrivial += 1
    accum = [norm(n) for f in repo.funcs.values() if f.cls is not None and f.cls.name in ("MqttTransport", "_FullTransport") and f.name in ("write_frame", "_write_frame") for n in own_nodes(f.node) if isinstance(n, ast.Call) and isinstance(n.func, ast.Attribute) and n.func.attr in ("append", "put", "put_nowait", "appendleft", "extend") and "frame" in norm(n)]
    if not accum:
        r4.ok({"containers_accumulating_frames": 0})
    else:
        r4.fail(f"{mw.short}:accumulates", mw.loc(), f"frames are accumulated in a container on the write path: {accum}")
    out.append(r4)

    # ---- R5 ---------------------------------------------------------------------------
    r5 = RuleResult("R5", "regulation never alters or reorders", "bytes written depend only on the frame argument (+ outbound regex); no queue between write_frame and _write", min_instances=3)
    pwf = repo.func(f"{T}.PortTransport._write_frame")
    d = Deps(pwf)
    wcalls = [n for n in own_nodes(pwf.node) if isinstance(n, ast.Call) and norm(n.func) == "self._write"]
    for c in wcalls:
        r5.instances += 1
        r5.nontrivial += 1
        deps = {x for x in d.of_expr(c.args[0]) if not x.startswith("_LOGGER") and x not in ("bytes",)}
        extra = {x for x in deps if x not in ("frame", "data")}
        if "frame" in deps and not extra:
            r5.ok({"written": norm(c.args[0]), "depends_on": sorted(deps)})
        else:
            r5.fail(f"{pwf.short}:written-bytes", pwf.loc(c), f"the bytes written depend on {sorted(deps)}: expected the frame argument only")
    for qn, inner in ((f"{T}._FullTransport.write_frame", "self._write_frame"), (f"{T}.PortTransport.write_frame", "super().write_frame"), (f"{T}._RegHackMixin.write_frame", "super().write_frame")):
        f = repo.func(qn)
        for n in own_nodes(f.node):
            if isinstance(n, ast.Call) and norm(n.func) == inner:
                r5.instances += 1
                r5.nontrivial += 1
                a = norm(n.args[0]) if n.args else ""
                if a == "frame" or (qn.endswith("_RegHackMixin.write_frame") and a == "self._regex_hack(frame, self._outbound_rule)"):
                    r5.ok({"forwarded": f"{f.short}: {inner}({a})"})
                else:
                    r5.fail(f"{f.short}:forwarded-frame", f.loc(n), f"write_frame forwards `{a}` instead of the frame it was given")
    if r5.instances < 3:
        raise AnalysisError("write path call sites not found")
    out.append(r5)
    return out
