"""C11 - Transmit regulation holds for every send pattern (duty cycle, write spacing)."""

from __future__ import annotations

import ast

from ..context import Ctx
from ..dep import Deps, reads
from ..loader import AnalysisError, norm, own_nodes
from ..pairing import contains_call, method_call
from ..report import RuleResult
from .common import fold_flag, policy_views

META = {
    "explanation": (
        "The numeric claim (bits per window <= allowance + one bucket + one frame per pending write; average write spacing) is arithmetic "
        "over time and is NOT decided. Decided: C11.R1 the regulator cannot be bypassed - serial.write is called only from "
        "PortTransport._write <- _write_frame <- {_FullTransport.write_frame, the bounded start-up signature probe}; "
        "PortTransport.write_frame is decorated limit_duty_cycle(MAX_DUTY_CYCLE_RATE) outermost, then avoid_system_syncs, and acquires the "
        "leaker semaphore before super().write_frame; mqtt publish only via _publish <- _write_frame <- write_frame. C11.R2 the constants "
        "select the real limiter (0 < MAX_DUTY_CYCLE_RATE <= 1, debug flag off, MIN_INTER_WRITE_GAP > 0, BoundedSemaphore() of 1, "
        "_MAX_TOKENS == MAX_TRANSMIT_RATE_TOKENS). C11.R3 in the limiter the refill precedes the sufficiency test, the wait precedes the "
        "write, and the debit post-dominates the write on normal and exceptional exits; the frame size depends on the payload. "
        "C11.R4 the MQTT over-budget branch returns before the debit and the write, and no container accumulates frames. "
        "C11.R5 the bytes written depend only on the frame argument (+ the configured outbound regex) and there is no queue between "
        "write_frame and _write."
    ),
}
META["explanation"] += " C11.R3 identifies the limiter's statements by dataflow roles. C11.R6: no stale read-modify-write of a bucket variable across an await; every refill is paired with an update of its time stamp on all paths (serial and MQTT)."

T = "ramses_tx.transport"


def check(ctx: Ctx) -> list[RuleResult]:
    repo = ctx.repo
    pol = policy_views(ctx)
    out: list[RuleResult] = []

    # ---- R1 ---------------------------------------------------------------------------
    r1 = RuleResult("R1", "the regulator cannot be bypassed", "who may call serial.write/_write/_write_frame/publish; decorator stack; semaphore before the write", min_instances=6)
    n_sw = 0
    for f in repo.funcs.values():
        if not f.module.name.startswith(("ramses_tx", "ramses_rf")):
            continue
        for n in own_nodes(f.node):
            if isinstance(n, ast.Call) and isinstance(n.func, ast.Attribute):
                tgt = norm(n.func)
                if tgt.endswith("serial.write"):
                    n_sw += 1
                    r1.instances += 1
                    r1.nontrivial += 1
                    if f.qualname == f"{T}.PortTransport._write":
                        r1.ok({"serial.write": f.short})
                    else:
                        r1.fail(f"{f.short}:serial.write", f.loc(n), f"{f.short} writes to the serial port directly, outside PortTransport._write (unregulated)")
                elif n.func.attr == "_write" and "self" in tgt and f.module.name == T:
                    r1.instances += 1
                    r1.nontrivial += 1
                    if f.qualname == f"{T}.PortTransport._write_frame":
                        r1.ok({"_write": f.short})
                    else:
                        r1.fail(f"{f.short}:_write", f.loc(n), f"{f.short} calls _write() outside PortTransport._write_frame")
                elif n.func.attr == "publish" and "client" in tgt:
                    r1.instances += 1
                    r1.nontrivial += 1
                    if f.qualname == f"{T}.MqttTransport._publish":
                        r1.ok({"publish": f.short})
                    else:
                        r1.fail(f"{f.short}:publish", f.loc(n), f"{f.short} publishes to MQTT outside MqttTransport._publish")
                elif n.func.attr == "_publish":
                    r1.instances += 1
                    r1.nontrivial += 1
                    if f.qualname == f"{T}.MqttTransport._write_frame":
                        r1.ok({"_publish": f.short})
                    else:
                        r1.fail(f"{f.short}:_publish", f.loc(n), f"{f.short} calls _publish() outside MqttTransport._write_frame")
                elif n.func.attr == "_write_frame":
                    r1.instances += 1
                    r1.nontrivial += 1
                    okc = f.qualname in (f"{T}._FullTransport.write_frame", f"{T}.PortTransport._create_connection.connect_with_signature")
                    if okc:
                        r1.ok({"_write_frame": f.short})
                    else:
                        r1.fail(f"{f.short}:_write_frame", f.loc(n), f"{f.short} calls _write_frame() directly (only write_frame and the start-up signature probe may)")
    if n_sw != 1:
        raise AnalysisError(f"{n_sw} serial.write call sites found (expected 1)")
    # the signature probe is bounded
    probe = repo.func(f"{T}.PortTransport._create_connection.connect_with_signature")
    r1.instances += 1
    r1.nontrivial += 1
    loops = [n for n in own_nodes(probe.node) if isinstance(n, ast.While)]
    max_trys = ctx.consts.get(T, "_SIGNATURE_MAX_TRYS")
    gap = ctx.consts.get(T, "_SIGNATURE_GAP_SECS")
    def _bounded_spaced(lp: ast.AST) -> bool:
        """`while c < N: ...; c += k; await sleep(G)` (or `for _ in range(N)`) with N, k, G folding to positive constants"""
        def fold(e: ast.expr):
            try:
                return ctx.consts.eval_in(probe, e)
            except Exception:
                return None
        body = list(getattr(lp, "body", []))
        slept = any(isinstance(a, ast.Await) and isinstance(a.value, ast.Call) and norm(a.value.func).endswith("sleep") and a.value.args and isinstance(fold(a.value.args[0]), (int, float)) and fold(a.value.args[0]) > 0 for b in body for a in ast.walk(b))
        if isinstance(lp, ast.For):
            it = lp.iter
            return slept and isinstance(it, ast.Call) and norm(it.func) == "range" and it.args and isinstance(fold(it.args[-1] if len(it.args) == 1 else it.args[1]), int) and 0 < fold(it.args[-1] if len(it.args) == 1 else it.args[1]) <= 60
        if not (isinstance(lp, ast.While) and isinstance(lp.test, ast.Compare) and len(lp.test.ops) == 1 and isinstance(lp.test.ops[0], (ast.Lt, ast.LtE)) and isinstance(lp.test.left, ast.Name)):
            return False
        cname, bound = lp.test.left.id, fold(lp.test.comparators[0])
        stepped = any((isinstance(b, ast.AugAssign) and isinstance(b.op, ast.Add) and norm(b.target) == cname and isinstance(fold(b.value), int) and fold(b.value) > 0) or (isinstance(b, ast.Assign) and norm(b.targets[0]) == cname and isinstance(b.value, ast.BinOp) and isinstance(b.value.op, ast.Add) and norm(b.value.left) == cname and isinstance(fold(b.value.right), int) and fold(b.value.right) > 0) for b in body)
        return slept and stepped and isinstance(bound, int) and 0 < bound <= 60

    loops = [n for n in own_nodes(probe.node) if isinstance(n, (ast.While, ast.For)) and any(isinstance(c, ast.Call) and isinstance(c.func, ast.Attribute) and c.func.attr == "_write_frame" for c in ast.walk(n))]
    okp = len(loops) == 1 and _bounded_spaced(loops[0]) and isinstance(max_trys, int) and 0 < max_trys <= 60 and isinstance(gap, (int, float)) and gap > 0
    if okp:
        r1.ok({"signature_probe": f"<= {max_trys} frames, {gap}s apart"})
    else:
        r1.fail(f"{probe.short}:unbounded", probe.loc(), f"the start-up signature probe (which bypasses write_frame) is no longer bounded/spaced: max={max_trys!r}, gap={gap!r}")
    # decorator stack + semaphore
    wf = repo.func(f"{T}.PortTransport.write_frame")
    decos = [norm(d) for d in wf.node.decorator_list]
    r1.instances += 1
    r1.nontrivial += 1
    if decos == ["limit_duty_cycle(MAX_DUTY_CYCLE_RATE)", "avoid_system_syncs"]:
        r1.ok({"decorators": decos})
    else:
        r1.fail(f"{wf.short}:decorators", wf.loc(), f"PortTransport.write_frame's decorators are {decos}, expected limit_duty_cycle(MAX_DUTY_CYCLE_RATE) outermost then avoid_system_syncs")
    r1.instances += 1
    r1.nontrivial += 1
    cfg = ctx.plain_cfg(wf)
    sup = [x for x in cfg.nodes if x.kind == "stmt" and "super().write_frame" in norm(x.ast)]
    from .common import expand as _expand

    def _acquires_leaker(a: ast.AST) -> bool:
        return any(isinstance(c, ast.Await) and isinstance(c.value, ast.Call) and isinstance(c.value.func, ast.Attribute) and c.value.func.attr == "acquire" and norm(_expand(wf.node, c.value.func.value, pure_only=False)) == "self._leaker_sem" for c in ast.walk(a))

    acq = [x for x in cfg.nodes if x.kind == "stmt" and x.ast is not None and _acquires_leaker(x.ast)]
    if sup and acq and all(acq[0].id in cfg.dominators().get(s.id, set()) for s in sup):
        r1.ok({"semaphore": "acquired before super().write_frame on every path"})
    else:
        r1.fail(f"{wf.short}:semaphore", wf.loc(), "the inter-write-gap semaphore is not acquired before super().write_frame on every path")
    out.append(r1)

    # ---- R2 ---------------------------------------------------------------------------
    r2 = RuleResult("R2", "constants select the real limiter", "rates, gaps, tokens and the debug flag", min_instances=5)
    rate = ctx.consts.need("ramses_tx.const", "MAX_DUTY_CYCLE_RATE")
    r2.instances += 1
    r2.nontrivial += 1
    if isinstance(rate, (int, float)) and 0 < rate <= 1:
        r2.ok({"MAX_DUTY_CYCLE_RATE": rate})
    else:
        r2.fail("const.MAX_DUTY_CYCLE_RATE", repo.mod("ramses_tx.const").rel, f"MAX_DUTY_CYCLE_RATE folds to {rate!r}: outside (0, 1] selects the null wrapper (no duty-cycle limit)")
    ldc = repo.func(f"{T}.limit_duty_cycle.decorator")
    r2.instances += 1
    r2.nontrivial += 1
    # which closure the decorator returns, evaluated (by constant folding of its top-level tests) for sample rates: the real
    # limiter for the configured rate and for the ends of (0, 1]; the pass-through for rates outside
    limiter = w_name = "wrapper"
    lim_f = repo.funcs.get(f"{T}.limit_duty_cycle.decorator.{w_name}")

    def _selected(rate_v: float) -> "str | None":
        def run(body: list) -> "str | None":
            for st in body:
                if isinstance(st, ast.Return):
                    return norm(st.value) if st.value is not None else "None"
                if isinstance(st, ast.If):
                    tv = ctx.consts.eval_in(ldc, st.test, {"max_duty_cycle": rate_v})
                    if not isinstance(tv, bool):
                        return None
                    r = run(st.body if tv else st.orelse)
                    if r is not None:
                        return r
            return None
        return run(ldc.node.body)

    def _is_limiter(name: "str | None") -> bool:
        g = ldc.nested.get(name or "")
        return g is not None and any(isinstance(x, ast.Nonlocal) for x in own_nodes(g.node))  # the closure that touches the bucket

    picks = {rv: _selected(rv) for rv in (rate if isinstance(rate, (int, float)) else 0.01, 1, 0.001, 0, 1.5, -1)}
    inside = [rv for rv in picks if 0 < rv <= 1]
    if all(_is_limiter(picks[rv]) for rv in inside) and not any(_is_limiter(picks[rv]) for rv in picks if rv not in inside) and None not in picks.values():
        r2.ok({"selector": {str(k): v for k, v in picks.items()}})
    else:
        r2.fail(f"{ldc.short}:selector", ldc.loc(), f"limit_duty_cycle no longer returns the limiting wrapper exactly for rates in (0, 1]: {picks}")
    fold_flag(ctx, r2, T, "_DBG_DISABLE_DUTY_CYCLE_LIMIT", False, "the bit bucket would be refilled on every write (no limit)")
    gapv = ctx.consts.need("ramses_tx.const", "MIN_INTER_WRITE_GAP")
    r2.instances += 1
    r2.nontrivial += 1
    if isinstance(gapv, (int, float)) and gapv > 0:
        r2.ok({"MIN_INTER_WRITE_GAP": gapv})
    else:
        r2.fail("const.MIN_INTER_WRITE_GAP", repo.mod("ramses_tx.const").rel, f"MIN_INTER_WRITE_GAP folds to {gapv!r}")
    pinit = repo.func(f"{T}.PortTransport.__init__")
    r2.instances += 1
    r2.nontrivial += 1
    sem = [n for n in own_nodes(pinit.node) if isinstance(n, ast.Assign) and norm(n.targets[0]) == "self._leaker_sem"]
    if len(sem) == 1 and norm(sem[0].value) in ("asyncio.BoundedSemaphore()", "asyncio.BoundedSemaphore(1)", "asyncio.BoundedSemaphore(value=1)"):
        r2.ok({"_leaker_sem": norm(sem[0].value)})
    else:
        r2.fail(f"{pinit.short}:_leaker_sem", pinit.loc(), f"the write-gap semaphore is {[norm(s.value) for s in sem]}, expected a BoundedSemaphore of 1")
    leak = repo.func(f"{T}.PortTransport._leak_sem")
    r2.instances += 1
    r2.nontrivial += 1
    if any("asyncio.sleep(MIN_INTER_WRITE_GAP)" in norm(n) for n in own_nodes(leak.node)) and any("self._leaker_sem.release()" in norm(n) for n in own_nodes(leak.node)):
        r2.ok({"_leak_sem": "one token per MIN_INTER_WRITE_GAP"})
    else:
        r2.fail(f"{leak.short}:rate", leak.loc(), "_leak_sem no longer releases one token per MIN_INTER_WRITE_GAP")
    mq = repo.cls(f"{T}.MqttTransport")
    r2.instances += 1
    r2.nontrivial += 1
    mt = mq.class_attr("_MAX_TOKENS")
    if mt is not None and norm(mt) == "MAX_TRANSMIT_RATE_TOKENS" and isinstance(ctx.consts.need("ramses_tx.const", "MAX_TRANSMIT_RATE_TOKENS"), int):
        r2.ok({"_MAX_TOKENS": ctx.consts.need("ramses_tx.const", "MAX_TRANSMIT_RATE_TOKENS")})
    else:
        r2.fail("MqttTransport._MAX_TOKENS", mq.module.rel, "MqttTransport._MAX_TOKENS is no longer MAX_TRANSMIT_RATE_TOKENS")
    out.append(r2)

    # ---- R3 ---------------------------------------------------------------------------
    # Roles are recovered by dataflow, not by statement text: the *stamp* is the shared (nonlocal) variable written from the clock,
    # the *level* the shared variable whose refill depends on the stamp; the *debit* is a write of the level that depends on the
    # frame size; the *write* is the await of the decorated function.
    r3 = RuleResult("R3", "debit on all exits; order refill -> test -> wait -> write -> debit", "in limit_duty_cycle.wrapper", min_instances=4)
    w = repo.func(f"{T}.limit_duty_cycle.decorator.wrapper")
    cfgw = ctx.cfg(w, pol)
    sibs = {g.name: g.node for g in (w.parent.nested.values() if w.parent is not None else []) if g is not w}
    bm = BucketModel(w.node, {n2 for st in own_nodes(w.node) if isinstance(st, ast.Nonlocal) for n2 in st.names}, siblings=sibs)
    if bm.level is None or bm.stamp is None:
        raise AnalysisError(f"limit_duty_cycle.wrapper: bucket level / refill stamp not identified among {sorted(bm.shared)}")
    dw = Deps(w)
    size_vars = {v for v in dw.trans if "frame" in dw.of_var(v) and v not in bm.shared and v != "frame"}

    def stmt_nodes(pred):
        return [x for x in cfgw.nodes if x.ast is not None and x.kind == "stmt" and pred(x.ast)]

    refill = stmt_nodes(lambda a: bm.is_refill(a))
    write = stmt_nodes(lambda a: isinstance(a, ast.Expr) and isinstance(a.value, ast.Await) and isinstance(a.value.value, ast.Call) and norm(a.value.value.func) == "fnc")
    debit = stmt_nodes(lambda a: bm.writes(a, bm.level) and not bm.is_refill(a) and bool(reads(a.value) & size_vars))
    test = [x for x in cfgw.nodes if x.kind == "test" and isinstance(x.ast, ast.Compare) and bool(reads(x.ast) & size_vars) and bool((reads(x.ast) & {bm.level}) or any(bm.level in dw.of_var(v) for v in reads(x.ast)))]
    wait = stmt_nodes(lambda a: isinstance(a, ast.Expr) and isinstance(a.value, ast.Await) and "sleep" in norm(a.value.value) and bool(reads(a.value) & size_vars))
    if not (refill and test and wait and write):
        raise AnalysisError("limit_duty_cycle.wrapper: refill/test/wait/write statements not identified")
    dom = cfgw.dominators()
    r3.instances += 1
    r3.nontrivial += 1
    if refill[0].id in dom[test[0].id] and test[0].id in dom[write[0].id] and cfgw.edge_dominates(test[0], "true", wait[0]):
        r3.ok({"order": "refill dominates the sufficiency test, which dominates the write; the wait is on its true edge", "level": bm.level, "stamp": bm.stamp})
    else:
        r3.fail(f"{w.short}:order", w.loc(), "the limiter no longer refills before testing, or tests before writing")
    r3.instances += 1
    r3.nontrivial += 1
    # the wait precedes the write: the write is reachable from the wait, not vice versa
    if write[0].id in cfgw.reachable_from(wait[0].id) and wait[0].id not in cfgw.reachable_from(write[0].id):
        r3.ok({"wait_before_write": True})
    else:
        r3.fail(f"{w.short}:wait-after-write", w.loc(), "the wait for the bucket to refill no longer precedes the write")
    r3.instances += 1
    r3.nontrivial += 1
    debit_ids = {d0.id for d0 in debit}
    def passing(x):
        return x.id in debit_ids
    # a `with <local @contextmanager helper>(size):` around the write whose generator debits the level in the `finally` of the try
    # that holds its only `yield` runs that debit on every exit of the with-body (normal, exception, cancellation): same guarantee
    cm_debit = None
    cur = getattr(write[0].ast, "parent", None)
    while cur is not None and cur is not w.node:
        if isinstance(cur, (ast.With, ast.AsyncWith)):
            for it_ in cur.items:
                c = it_.context_expr
                if isinstance(c, ast.Call) and isinstance(c.func, ast.Name) and c.func.id in bm.helpers:
                    h = bm.helpers[c.func.id]
                    if any("contextmanager" in norm(d) for d in getattr(h, "decorator_list", [])) and any(bool(reads(a) & size_vars) for a in c.args):
                        yields = [y for y in ast.walk(h) if isinstance(y, (ast.Yield, ast.YieldFrom))]
                        trys = [t for t in ast.walk(h) if isinstance(t, ast.Try) and t.finalbody and any(isinstance(y, ast.Yield) for b in t.body for y in ast.walk(b))]
                        hparams = {a.arg for a in h.args.args}
                        if len(yields) == 1 and trys and any(bm._writes_direct(x, bm.level) and bool(reads(getattr(x, "value", x)) & hparams) for fb in trys[0].finalbody for x in ast.walk(fb)):
                            cm_debit = f"with {c.func.id}(...): the helper's generator debits {bm.level} in the finally around its only yield"
        cur = getattr(cur, "parent", None)
    leaks = [] if cm_debit else cfgw.exits_reachable_without(write[0].id, passing, skip_start_exc=False)
    if cm_debit:
        r3.ok({"debit": cm_debit})
    elif not debit or leaks:
        ex, path, labs = leaks[0] if leaks else (None, [], [])
        r3.fail(f"{w.short}:debit-skipped:{'exceptional' if ex is not None and ex.kind == 'raise_exit' else 'normal'}-exit", w.loc(write[0].ast), "a write can complete or fail without the frame being debited from the bit bucket", [f"{p.kind}@{p.line} --{lab}-->" for p, lab in zip(path, labs[1:] + [""])][:8])
    else:
        r3.ok({"debit": f"`{norm(debit[0].ast)}` post-dominates the write on normal and exceptional exits (finally)"})
    # the debit is exact: level := level - size. A clamp (max(level - size, 0), `if level < 0: level = 0`) forgives the debt a writer
    # ran up by being let through after its wait - under a sustained stream every write then costs less than it used
    r3.instances += 1
    r3.nontrivial += 1
    inexact = []
    for d0 in debit:
        a = d0.ast
        exact = (isinstance(a, ast.AugAssign) and isinstance(a.op, ast.Sub) and bool(reads(a.value) & size_vars) and not any(isinstance(c, ast.Call) for c in ast.walk(a.value))) or (isinstance(a, ast.Assign) and isinstance(a.value, ast.BinOp) and isinstance(a.value.op, ast.Sub) and norm(a.value.left) == bm.level and bool(reads(a.value.right) & size_vars) and not any(isinstance(c, ast.Call) for c in ast.walk(a.value)))
        if not exact:
            inexact.append(a)
    floors = [x.ast for x in cfgw.nodes if x.ast is not None and x.kind == "stmt" and bm.writes(x.ast, bm.level) and not bm.is_refill(x.ast) and x.id not in debit_ids and write and x.id in cfgw.reachable_from(write[0].id)]
    if cm_debit:
        r3.ok({"debit_exact": "in the context manager (not examined further)"})
    elif inexact or floors:
        a = (inexact or floors)[0]
        r3.fail(f"{w.short}:debit-not-exact", w.loc(a), f"`{norm(a)[:70]}` does not take exactly the frame's size off the bucket (clamped/re-based level): the debt of a writer that was let through after its wait is forgotten, so a sustained stream is written at more than the configured duty cycle")
    elif not debit:
        r3.ok({"debit_exact": "no debit statement (reported above)"})
    else:
        r3.ok({"debit_exact": norm(debit[0].ast)})
    r3.instances += 1
    r3.nontrivial += 1
    # the amount tested/debited grows with the payload: after copy propagation it contains len(<a slice of frame>) with a positive factor
    from .common import expand as _expand3

    amounts = [_expand3(w.node, ast.Name(id=v, ctx=ast.Load()), pure_only=False) for v in sorted(size_vars)]
    def _len_of_frame(e: ast.AST) -> bool:
        return any(isinstance(c, ast.Call) and norm(c.func) == "len" and c.args and "frame" in reads(c.args[0]) for c in ast.walk(e))
    used = [a0 for a0 in amounts if _len_of_frame(a0)]
    tested = [v for v in size_vars if any(v in reads(t0.ast) for t0 in test)]
    if used and any(_len_of_frame(_expand3(w.node, ast.Name(id=v, ctx=ast.Load()), pure_only=False)) for v in tested):
        r3.ok({"rf_frame_size": norm(used[0])[:80]})
    else:
        r3.fail(f"{w.short}:frame-size", w.loc(), f"the frame size no longer depends on the payload length: {[norm(a0)[:60] for a0 in amounts]}")
    out.append(r3)

    # ---- R6 ---------------------------------------------------------------------------
    r6 = RuleResult("R6", "bucket updates are atomic and the refill stamp always advances", "no write of a shared bucket variable from a snapshot taken before an await; every refill is paired with a stamp update on all paths", min_instances=4)
    mwf, _chain6 = _mqtt_limiter(ctx)
    shared_m = set()
    for n in own_nodes(mwf.node):
        if isinstance(n, (ast.Assign, ast.AugAssign, ast.AnnAssign)):
            for t in (n.targets if isinstance(n, ast.Assign) else [n.target]):
                for el in (t.elts if isinstance(t, ast.Tuple) else [t]):
                    if isinstance(el, ast.Attribute) and isinstance(el.value, ast.Name) and el.value.id == "self":
                        shared_m.add(norm(el))
    bmm = BucketModel(mwf.node, shared_m)
    if bmm.level is None or bmm.stamp is None:
        raise AnalysisError(f"MqttTransport.write_frame: token level / refill stamp not identified among {sorted(shared_m)}")
    for fn, model, cfgx in ((w, bm, ctx.plain_cfg(w)), (mwf, bmm, ctx.plain_cfg(mwf))):
        # (a) atomicity across suspension points
        r6.instances += 1
        r6.nontrivial += 1
        stale = model.stale_writes()
        if stale:
            st0, var, e_read, e_now = stale[0]
            r6.fail(f"{fn.short}:stale-write:{var}", fn.loc(st0), f"`{norm(st0)[:80]}` writes {var} from a value read {e_now - e_read} await(s) earlier: a concurrent caller's update made during the wait/write is overwritten (lost debit)")
        else:
            r6.ok({"function": fn.short, "shared": sorted(model.shared), "stale_writes": 0, "awaits": model.n_awaits})
        # (b) every refill is paired with an update of the stamp it was computed from
        r6.instances += 1
        r6.nontrivial += 1
        refills = [x for x in cfgx.nodes if x.ast is not None and x.kind == "stmt" and model.is_refill(x.ast)]
        stamps = {x.id for x in cfgx.nodes if x.ast is not None and x.kind == "stmt" and model.is_stamp_update(x.ast)}
        if not refills:
            raise AnalysisError(f"{fn.short}: no refill statement identified")
        domx = cfgx.dominators()
        bad = None
        for rf in refills:
            if stamps & domx[rf.id]:
                continue
            lk = cfgx.exits_reachable_without(rf.id, lambda x: x.id in stamps, skip_start_exc=True)
            if lk:
                bad = (rf, lk[0])
                break
        # (b') the refill caps the *level* at the bucket's capacity: credit does not pile up across idle periods (capping the
        # elapsed time instead lets every sparse write add up to a window's worth on top of what is already there)
        r6.instances += 1
        r6.nontrivial += 1
        uncapped = []
        for rf in refills:
            a = rf.ast
            v = a.value if isinstance(a, (ast.Assign, ast.AugAssign, ast.AnnAssign)) else None
            if isinstance(a, ast.Assign) and isinstance(a.targets[0], ast.Tuple) and isinstance(v, ast.Tuple):
                v = next((vv for tt, vv in zip(a.targets[0].elts, v.elts) if norm(tt) == model.level), None)
            capped = isinstance(a, ast.Assign) and isinstance(v, ast.Call) and norm(v.func) == "min" and len(v.args) >= 2 and any(model.level in (reads(x) | model._deps(x)) for x in v.args) and any(model.level not in (reads(x) | model._deps(x)) and (model.stamp or "") not in (reads(x) | model._deps(x)) for x in v.args)
            if not capped:
                capped = isinstance(a, ast.Assign) and isinstance(v, ast.IfExp)  # a conditional spelling of min(): accepted as is
            if not capped and not isinstance(a, (ast.Assign, ast.AugAssign, ast.AnnAssign)):
                # the top-up lives in a local helper the statement calls: the helper's own assignment of the level is what counts
                for h in model.helpers.values():
                    for y in ast.walk(h):
                        if isinstance(y, ast.Assign) and any(norm(t) == model.level for t in y.targets) and isinstance(y.value, (ast.Call, ast.IfExp)) and (isinstance(y.value, ast.IfExp) or norm(y.value.func) == "min"):
                            capped = True
            if not capped:
                # a clamp right after: level = min(level, CAP)
                fwd = cfgx.reachable_from(rf.id)
                capped = any(y.id in fwd and y.ast is not None and y.kind == "stmt" and isinstance(y.ast, ast.Assign) and norm(y.ast.targets[0]) == model.level and isinstance(y.ast.value, ast.Call) and norm(y.ast.value.func) == "min" for y in cfgx.nodes)
            if not capped:
                uncapped.append(rf)
        if uncapped:
            r6.fail(f"{fn.short}:refill-not-capped", fn.loc(uncapped[0].ast), f"the refill `{norm(uncapped[0].ast)[:70]}` does not cap {model.level} at the bucket's capacity: idle time is credited on top of what the bucket already holds, so after sparse traffic a burst of several buckets' worth is let through at once (more than the allowance plus one full bucket in a window)")
        else:
            r6.ok({"function": fn.short, "refill_capped_at_capacity": True})
        if bad:
            rf, (ex, path, labs) = bad
            r6.fail(f"{fn.short}:refill-without-stamp", fn.loc(rf.ast), f"after the refill `{norm(rf.ast)[:70]}` an exit is reachable without {model.stamp} having been advanced: the same elapsed time is credited again on the next call", [f"exit at line {path[-1].line if path else '?'}"])
        else:
            r6.ok({"function": fn.short, "refill": norm(refills[0].ast)[:70], "stamp": model.stamp, "paired_on_all_paths": True})
    # (c) regulation only delays: a caller waits for the bucket at most once. A loop that re-tests the *shared* level after every
    # sleep lets later, smaller frames keep draining the bucket, so an accepted frame can be starved for as long as the stream
    # lasts (an unbounded wait). A loop is accepted only under a lock that serialises the waiters (`async with <lock>`).
    for fn, model in ((w, bm), (mwf, bmm)):
        r6.instances += 1
        r6.nontrivial += 1
        loops = []
        for n in own_nodes(fn.node):
            if isinstance(n, ast.While) and model.level in model._deps(n.test) | reads(n.test) and any(isinstance(x, ast.Await) for b in n.body for x in ast.walk(b)):
                p2 = getattr(n, "parent", None)
                locked = False
                while p2 is not None and not isinstance(p2, (ast.FunctionDef, ast.AsyncFunctionDef)):
                    if isinstance(p2, ast.AsyncWith):
                        locked = True
                    p2 = getattr(p2, "parent", None)
                if not locked:
                    loops.append(n)
        if loops:
            r6.fail(f"{fn.short}:re-waits-on-shared-bucket", fn.loc(loops[0]), f"`while {norm(loops[0].test)[:50]}: ... await ...` re-tests the shared bucket after each sleep without serialising the waiters: frames written by other callers in the meantime can keep an accepted (larger) frame waiting indefinitely")
        else:
            r6.ok({"function": fn.short, "waits_for_the_bucket": "at most once per call"})
    out.append(r6)

    # ---- R4 ---------------------------------------------------------------------------
    r4 = RuleResult("R4", "MQTT drops rather than queues", "the over-budget branch returns before the debit and the write; nothing accumulates frames", min_instances=2)
    mw, chain4 = _mqtt_limiter(ctx)
    cfgm = ctx.plain_cfg(mw)
    r4.instances += 1
    r4.nontrivial += 1
    drop = [x for x in cfgm.nodes if x.kind == "test" and "self._num_tokens < 1.0 - self._TOKEN_RATE" in norm(x.ast)]
    deb = [x for x in cfgm.nodes if x.kind == "stmt" and norm(x.ast) == "self._num_tokens -= 1.0"]
    wr = [x for x in cfgm.nodes if x.kind == "stmt" and "super().write_frame" in norm(x.ast)]
    if drop and deb and wr and cfgm.edge_dominates(drop[0], "false", deb[0]) and cfgm.edge_dominates(drop[0], "false", wr[0]) and deb[0].id in cfgm.dominators()[wr[0].id]:
        r4.ok({"over_budget": "returns before the debit and the write", "debit_before_write": True})
    else:
        r4.fail(f"{mw.short}:drop-branch", mw.loc(), "MqttTransport.write_frame no longer drops an over-budget write before debiting/writing (or writes without debiting a token)")
    # "dropped rather than queued without bound": the drop decision is taken before the caller can be suspended - a lock/semaphore
    # (or any await) between the entry of write_frame and the over-budget test is a queue of suspended writers, each of which is
    # let through (and debited) once it reaches the head
    r4.instances += 1
    r4.nontrivial += 1
    susp = []
    for caller, call in chain4:
        p4 = getattr(call, "parent", None)
        while p4 is not None and p4 is not caller.node:
            if isinstance(p4, ast.AsyncWith):
                susp.append((caller, p4, f"`async with {norm(p4.items[0].context_expr)[:40]}` around the limiter"))
            p4 = getattr(p4, "parent", None)
        cfgc = ctx.plain_cfg(caller)
        cn = [x for x in cfgc.nodes if x.ast is not None and any(y is call for y in ast.walk(x.ast))]
        for x in cfgc.nodes:
            if x.ast is not None and x.kind == "stmt" and cn and x.id != cn[0].id and any(isinstance(y, ast.Await) for y in ast.walk(x.ast)) and cn[0].id in cfgc.reachable_from(x.id):
                susp.append((caller, x.ast, f"`{norm(x.ast)[:50]}` before the limiter is entered"))
    if drop:
        for x in cfgm.nodes:
            if x.ast is not None and x.kind in ("stmt", "test") and x.id != drop[0].id and any(isinstance(y, ast.Await) for y in ast.walk(x.ast)) and drop[0].id in cfgm.reachable_from(x.id) and x.id not in cfgm.reachable_from(drop[0].id):
                susp.append((mw, x.ast, f"`{norm(x.ast)[:50]}` before the over-budget test"))
    # ...and the token is taken in the same synchronous step as the admission decision: an await between the over-budget test and
    # the debit lets every caller that arrives meanwhile be admitted against the same, not yet debited, token count
    if drop and deb:
        for x in cfgm.nodes:
            if x.ast is not None and x.kind in ("stmt", "test") and any(isinstance(y, ast.Await) for y in ast.walk(x.ast)) and x.id in cfgm.reachable_from(drop[0].id) and deb[0].id in cfgm.reachable_from(x.id) and x.id != deb[0].id:
                susp.append((mw, x.ast, f"`{norm(x.ast)[:50]}` between the over-budget test and the debit of the token"))
    if susp:
        f4, n4, why4 = susp[0]
        r4.fail(f"{f4.short}:suspension-before-drop-decision", f4.loc(n4), f"a writer can be suspended before the over-budget decision is taken ({why4}): over-budget writes then queue up (without bound) behind the suspension point instead of being dropped, and each is written when it reaches the head")
    else:
        r4.ok({"suspension_points_before_the_drop_decision": 0, "limiter": mw.short})
    r4.instances += 1
    r4.nontrivial += 1
    accum = [norm(n) for f in repo.funcs.values() if f.cls is not None and f.cls.name in ("MqttTransport", "_FullTransport") and f.name in ("write_frame", "_write_frame") for n in own_nodes(f.node) if isinstance(n, ast.Call) and isinstance(n.func, ast.Attribute) and n.func.attr in ("append", "put", "put_nowait", "appendleft", "extend") and "frame" in norm(n)]
    if not accum:
        r4.ok({"containers_accumulating_frames": 0})
    else:
        r4.fail(f"{mw.short}:accumulates", mw.loc(), f"frames are accumulated in a container on the write path: {accum}")
    out.append(r4)

    # ---- R5 ---------------------------------------------------------------------------
    r5 = RuleResult("R5", "regulation never alters or reorders", "bytes written depend only on the frame argument (+ outbound regex); no queue between write_frame and _write", min_instances=3)
    pwf = repo.func(f"{T}.PortTransport._write_frame")
    d = Deps(pwf)
    wcalls = [n for n in own_nodes(pwf.node) if isinstance(n, ast.Call) and norm(n.func) == "self._write"]
    for c in wcalls:
        r5.instances += 1
        r5.nontrivial += 1
        deps = {x for x in d.of_expr(c.args[0]) if not x.startswith("_LOGGER") and x not in ("bytes",)}
        extra = {x for x in deps if x not in ("frame", "data")}
        if "frame" in deps and not extra:
            r5.ok({"written": norm(c.args[0]), "depends_on": sorted(deps)})
        else:
            r5.fail(f"{pwf.short}:written-bytes", pwf.loc(c), f"the bytes written depend on {sorted(deps)}: expected the frame argument only")
    for qn, inner in ((f"{T}._FullTransport.write_frame", "self._write_frame"), (f"{T}.PortTransport.write_frame", "super().write_frame"), (f"{T}._RegHackMixin.write_frame", "super().write_frame")):
        f = repo.func(qn)
        for n in own_nodes(f.node):
            if isinstance(n, ast.Call) and norm(n.func) == inner:
                r5.instances += 1
                r5.nontrivial += 1
                a = norm(n.args[0]) if n.args else ""
                if a == "frame" or (qn.endswith("_RegHackMixin.write_frame") and a == "self._regex_hack(frame, self._outbound_rule)"):
                    r5.ok({"forwarded": f"{f.short}: {inner}({a})"})
                else:
                    r5.fail(f"{f.short}:forwarded-frame", f.loc(n), f"write_frame forwards `{a}` instead of the frame it was given")
    if r5.instances < 3:
        raise AnalysisError("write path call sites not found")
    out.append(r5)
    return out


def _mqtt_limiter(ctx: Ctx):
    """The function on MqttTransport's write path that holds the token bucket (refills a self attribute from the clock): write_frame
    itself, or a private coroutine of the same class it awaits. Returns (function, [(caller, call node), ...] from write_frame down)."""
    repo = ctx.repo
    cur = repo.func(f"{T}.MqttTransport.write_frame")
    chain = []
    for _ in range(3):
        has_clock = any(isinstance(n, ast.Call) and norm(n) in CLOCKS for n in own_nodes(cur.node))
        if has_clock:
            return cur, chain
        nxt = None
        for n in own_nodes(cur.node):
            if isinstance(n, ast.Call) and isinstance(n.func, ast.Attribute) and isinstance(n.func.value, ast.Name) and n.func.value.id == "self" and cur.cls is not None:
                g = next((k.methods[n.func.attr] for k in cur.cls.mro if n.func.attr in k.methods), None)
                if g is not None and g.cls is cur.cls and any(isinstance(m, ast.Call) and norm(m) in CLOCKS for m in own_nodes(g.node)):
                    nxt = (g, n)
        if nxt is None:
            break
        chain.append((cur, nxt[1]))
        cur = nxt[0]
    raise AnalysisError("MqttTransport.write_frame: the token-bucket limiter (a clock read on the write path) was not found")


CLOCKS = ("perf_counter()", "time.perf_counter()", "time.monotonic()", "monotonic()", "time.time()", "time()")


class BucketModel:
    """Roles and flow facts of a token/bit-bucket limiter function, recovered by dataflow.

    shared: the variables that persist between calls (nonlocal names / self.attrs written here).
    stamp:  the shared variable written from the clock.     level: the shared variable whose refill depends on the stamp.
    """

    def __init__(self, fn: ast.AST, shared: set[str], siblings: "dict[str, ast.AST] | None" = None) -> None:
        self.fn = fn
        self.shared = set(shared)
        self.n_awaits = 0
        self.clock_locals: set[str] = set()
        # local helper functions (closures over the same shared variables) are part of the limiter: nested ones, and sibling
        # closures of the enclosing function that this one calls (their nonlocal names are shared variables too)
        self.helpers = {n.name: n for n in ast.walk(fn) if isinstance(n, (ast.FunctionDef, ast.AsyncFunctionDef)) and n is not fn}
        called = {c.func.id for c in ast.walk(fn) if isinstance(c, ast.Call) and isinstance(c.func, ast.Name)}
        for nm, h in (siblings or {}).items():
            if nm in called and h is not fn:
                self.helpers[nm] = h
                for st in ast.walk(h):
                    if isinstance(st, ast.Nonlocal):
                        self.shared.update(st.names)
        self._scan = [fn] + [h for h in self.helpers.values() if not any(h is x for x in ast.walk(fn))]
        for n in self._walk_all():
            if isinstance(n, ast.Assign) and len(n.targets) == 1 and isinstance(n.targets[0], ast.Name) and norm(n.value) in CLOCKS:
                self.clock_locals.add(n.targets[0].id)
        # flow-insensitive local deps: local -> shared vars / clock it derives from
        self.ldeps: dict[str, set[str]] = {}
        for _ in range(4):
            for n in self._walk_all():
                for tgt, val in self._assignments(n):
                    if isinstance(tgt, ast.Name) and tgt.id not in self.shared:
                        self.ldeps.setdefault(tgt.id, set()).update(self._deps(val))
        self.stamp = next((v for v in sorted(self.shared) if any(self._writes_direct(n, v) and self._is_clock(self._value_for(n, v)) for n in self._walk_all())), None)
        if self.stamp is None:
            # never written here: the variable the clock is measured against (`<clock> - X`) is still the stamp
            for n in own_nodes(fn):
                if isinstance(n, ast.BinOp) and isinstance(n.op, ast.Sub) and self._is_clock(n.left) and isinstance(n.right, (ast.Name, ast.Attribute)):
                    self.stamp = norm(n.right)
                    self.shared.add(self.stamp)
                    for _ in range(3):
                        for m2 in own_nodes(fn):
                            for tgt, val in self._assignments(m2):
                                if isinstance(tgt, ast.Name) and tgt.id not in self.shared:
                                    self.ldeps.setdefault(tgt.id, set()).update(self._deps(val))
                    break
        self.level = None
        if self.stamp is not None:
            self.level = next((v for v in sorted(self.shared) if v != self.stamp and any(self._writes_direct(n, v) and self.stamp in self._deps(self._value_for(n, v)) for n in self._walk_all())), None)

    def _walk_all(self):
        for r in self._scan:
            yield from ast.walk(r)

    @staticmethod
    def _assignments(n: ast.AST):
        if isinstance(n, ast.Assign):
            for t in n.targets:
                if isinstance(t, ast.Tuple) and isinstance(n.value, ast.Tuple) and len(t.elts) == len(n.value.elts):
                    yield from zip(t.elts, n.value.elts)
                else:
                    yield t, n.value
        elif isinstance(n, ast.AnnAssign) and n.value is not None:
            yield n.target, n.value
        elif isinstance(n, ast.AugAssign):
            yield n.target, ast.BinOp(left=n.target, op=n.op, right=n.value)

    def _is_clock(self, v: ast.AST | None) -> bool:
        return v is not None and (norm(v) in CLOCKS or (isinstance(v, ast.Name) and v.id in self.clock_locals))

    def _deps(self, e: ast.AST | None) -> set[str]:
        out: set[str] = set()
        if e is None:
            return out
        for r in reads(e):
            if r in self.shared:
                out.add(r)
            out |= self.ldeps.get(r, set())
        return out

    def _writes_direct(self, n: ast.AST, var: str | None) -> bool:
        return var is not None and any(norm(t) == var for t, _v in self._assignments(n))

    def _helper_called(self, n: ast.AST) -> "ast.AST | None":
        """The local helper a statement calls (`top_up_bucket()`), if any."""
        if isinstance(n, ast.Expr) and isinstance(n.value, (ast.Call, ast.Await)):
            c = n.value.value if isinstance(n.value, ast.Await) else n.value
            if isinstance(c, ast.Call) and isinstance(c.func, ast.Name) and c.func.id in self.helpers:
                return self.helpers[c.func.id]
        return None

    def writes(self, n: ast.AST, var: str | None) -> bool:
        if self._writes_direct(n, var):
            return True
        h = self._helper_called(n)
        return h is not None and any(self._writes_direct(x, var) for x in ast.walk(h))

    def _value_for(self, n: ast.AST, var: str) -> ast.AST | None:
        for t, v in self._assignments(n):
            if norm(t) == var:
                return v
        return None

    def is_refill(self, n: ast.AST) -> bool:
        """A write of the level whose value depends on the stamp (elapsed time) - directly, through locals, or in a local helper."""
        if self._writes_direct(n, self.level) and self.stamp in self._deps(self._value_for(n, self.level)):  # type: ignore[arg-type]
            return True
        h = self._helper_called(n)
        return h is not None and any(self._writes_direct(x, self.level) and self.stamp in self._deps(self._value_for(x, self.level)) for x in ast.walk(h))  # type: ignore[arg-type]

    def is_stamp_update(self, n: ast.AST) -> bool:
        if self._writes_direct(n, self.stamp) and self._is_clock(self._value_for(n, self.stamp)):  # type: ignore[arg-type]
            return True
        h = self._helper_called(n)
        return h is not None and any(self._writes_direct(x, self.stamp) and self._is_clock(self._value_for(x, self.stamp)) for x in ast.walk(h))  # type: ignore[arg-type]

    # -- flow-sensitive: snapshots of shared variables vs suspension points -----------------------

    def stale_writes(self) -> "list[tuple[ast.AST, str, int, int]]":
        """[(statement, shared var, epoch of the snapshot, epoch of the write)]: a shared variable assigned from a value of
        *itself* that was read before an intervening await (an augmented assignment re-reads it, so it is atomic)."""
        found: list[tuple[ast.AST, str, int, int]] = []
        self.n_awaits = 0

        def has_await(n: ast.AST) -> int:
            return sum(1 for x in ast.walk(n) if isinstance(x, ast.Await))

        def snap(e: ast.AST, st: dict) -> set[tuple[str, int]]:
            out: set[tuple[str, int]] = set()
            for r in reads(e):
                if r in self.shared:
                    out.add((r, st["epoch"]))
                out |= st["locals"].get(r, set())
            return out

        def merge(a: dict, b: dict) -> dict:
            loc = {k: set(a["locals"].get(k, set())) | set(b["locals"].get(k, set())) for k in set(a["locals"]) | set(b["locals"])}
            return {"epoch": max(a["epoch"], b["epoch"]), "locals": loc}

        def copy(st: dict) -> dict:
            return {"epoch": st["epoch"], "locals": {k: set(v) for k, v in st["locals"].items()}}

        def simple(n: ast.stmt, st: dict) -> None:
            pairs = list(self._assignments(n))
            deps = [(t, snap(v, st)) for t, v in pairs]  # the right-hand sides are evaluated first
            k = has_await(n)
            if k:
                self.n_awaits += k
                st["epoch"] += k
            for t, d in deps:
                name = norm(t)
                if name in self.shared:
                    for var, e in d:
                        if var == name and e < st["epoch"] and not isinstance(n, ast.AugAssign):
                            found.append((n, name, e, st["epoch"]))
                        elif var == name and isinstance(n, ast.AugAssign) and e < st["epoch"] - k:
                            found.append((n, name, e, st["epoch"]))
                elif isinstance(t, ast.Name):
                    st["locals"][t.id] = d

        def walk(body: list[ast.stmt], st: dict) -> dict:
            for n in body:
                if isinstance(n, ast.If):
                    k = has_await(n.test)
                    st["epoch"] += k
                    a, b = walk(n.body, copy(st)), walk(n.orelse, copy(st))
                    st = merge(a, b)
                elif isinstance(n, (ast.For, ast.AsyncFor, ast.While)):
                    st = merge(st, walk(n.body, copy(st)))
                    st = merge(st, walk(n.body, copy(st)))
                    st = walk(n.orelse, st)
                elif isinstance(n, ast.Try):
                    b = walk(n.body, copy(st))
                    alts = [b] + [walk(h.body, merge(copy(st), copy(b))) for h in n.handlers]
                    cur = alts[0]
                    for a in alts[1:]:
                        cur = merge(cur, a)
                    cur = walk(n.orelse, cur)
                    st = walk(n.finalbody, merge(cur, merge(copy(st), copy(b))))
                elif isinstance(n, (ast.With, ast.AsyncWith)):
                    st["epoch"] += sum(has_await(i.context_expr) for i in n.items) + (1 if isinstance(n, ast.AsyncWith) else 0)
                    st = walk(n.body, st)
                elif isinstance(n, (ast.FunctionDef, ast.AsyncFunctionDef, ast.ClassDef)):
                    continue
                else:
                    simple(n, st)
            return st

        walk(list(self.fn.body), {"epoch": 0, "locals": {}})  # type: ignore[attr-defined]
        # de-duplicate (loops are walked twice)
        seen = set()
        out = []
        for f0 in found:
            if id(f0[0]) not in seen:
                seen.add(id(f0[0]))
                out.append(f0)
        return out
