"""C17 - Schedules survive the wire format: encode/fragment/decode is the identity."""

from __future__ import annotations

import ast
import re
import struct

from ..context import Ctx
from ..loader import AnalysisError, norm, own_nodes
from ..report import RuleResult
from ..rx import Cat, Hex, HexRange, Lit, included, regex_dfa, shape_dfa
from .c04 import float_scaling_sites

META = {
    "explanation": (
        "C17.R1 pack/unpack format agreement - the struct formats of _struct_pack/_struct_unpack have the same byte order and size (= the "
        "20-byte stride of fragz_to_full_sched) and the same offset/width for the four fields. C17.R2 scaling - the setpoint is scaled "
        "with a rounding idiom (instance of C04.R1) and decoded by /100; time-of-day hh*60+mm vs divmod(tod, 60); zone idx int(_,16) vs "
        ":02X. C17.R3 a fragment fits a frame - the 82-hex-digit chunk equals the {2,82} bound of the 0404 W/RP regexes, header (14) + "
        "chunk (82) <= 96 = the 48-byte payload limit of COMMAND_REGEX, and the fragment-write payload shape is in the W|0404 regex language "
        "for the accepted zone indexes. C17.R4 validator grid vs codec grid - REGEX_TIME_OF_DAY admits only hh:mm that survive hh*60+mm, "
        "and Range(5, 35) * 100 fits the unsigned 16-bit field. Not decided: identity for all schedules; reassembly under permutation "
        "and repetition of fragment packets (values/histories)."
    ),
}
META["explanation"] += ' C17.R5: in _update_payload_set a received fragment whose count matches is always stored (or restarts the set).'

S = "ramses_rf.system.schedule"


def _fields(fmt: str) -> tuple[str, int, list[tuple[int, int, str]]]:
    order = fmt[0] if fmt[0] in "<>=!@" else "@"
    body = fmt[1:] if fmt[0] in "<>=!@" else fmt
    out = []
    for i, ch in enumerate(body):
        if ch != "x":
            out.append((struct.calcsize(order + body[:i]), struct.calcsize(order + ch), ch))
    return order, struct.calcsize(fmt), out


def check(ctx: Ctx) -> list[RuleResult]:
    repo = ctx.repo
    out: list[RuleResult] = []
    pack = repo.func(f"{S}._struct_pack")
    unpack = repo.func(f"{S}._struct_unpack")
    dec = repo.func(f"{S}.fragz_to_full_sched")
    enc = repo.func(f"{S}.full_sched_to_fragz")

    # ---- R1 ---------------------------------------------------------------------------
    r1 = RuleResult("R1", "pack/unpack format agreement", "same byte order, size (= stride) and field offsets/widths", min_instances=5)

    def fmt_of(f, fn: str) -> str:
        for n in own_nodes(f.node):
            if isinstance(n, ast.Call) and norm(n.func) == f"struct.{fn}" and isinstance(n.args[0], ast.Constant):
                return n.args[0].value
        raise AnalysisError(f"struct.{fn} format not found in {f.short}")

    pf, uf = fmt_of(pack, "pack"), fmt_of(unpack, "unpack")
    po, ps, pflds = _fields(pf)
    uo, us, uflds = _fields(uf)
    r1.instances += 1
    r1.nontrivial += 1
    if po == uo and ps == us:
        r1.ok({"pack": pf, "unpack": uf, "size": ps})
    else:
        r1.fail("struct:order-size", pack.loc(), f"pack format {pf!r} (order {po}, {ps} bytes) vs unpack format {uf!r} (order {uo}, {us} bytes)")
    for i, nm in enumerate(("idx", "dow", "tod", "val")):
        r1.instances += 1
        r1.nontrivial += 1
        if i < len(pflds) and i < len(uflds) and pflds[i] == uflds[i]:
            r1.ok({"field": nm, "offset": pflds[i][0], "width": pflds[i][1]})
        else:
            r1.fail(f"struct:field:{nm}", pack.loc(), f"field '{nm}' is packed at {pflds[i] if i < len(pflds) else None} but unpacked from {uflds[i] if i < len(uflds) else None}")
    r1.instances += 1
    r1.nontrivial += 1
    strides = [n for n in own_nodes(dec.node) if isinstance(n, ast.Call) and norm(n.func) == "range" and len(n.args) == 3]
    slices = [n for n in own_nodes(dec.node) if isinstance(n, ast.Subscript) and isinstance(n.slice, ast.Slice) and "raw_schedule" in norm(n.value)]
    stride = ctx.consts.eval_in(dec, strides[0].args[2]) if strides else None
    sl_ok = any(norm(s.slice.upper) == f"i + {ps}" for s in slices if s.slice.upper is not None)
    if stride == ps and sl_ok:
        r1.ok({"stride": stride})
    else:
        r1.fail("struct:stride", dec.loc(), f"fragz_to_full_sched walks the blob in steps of {stride} but a record is {ps} bytes")
    out.append(r1)

    # ---- R2 ---------------------------------------------------------------------------
    r2 = RuleResult("R2", "scaling and field codecs agree", "setpoint round(x*100) vs /100; tod hh*60+mm vs divmod(tod,60); idx int(_,16) vs :02X", min_instances=4)
    r2.instances += 1
    r2.nontrivial += 1
    trunc = float_scaling_sites(ctx, [pack])
    scal = [n for n in own_nodes(pack.node) if isinstance(n, ast.Call) and norm(n.func) in ("round", "int") and n.args and isinstance(n.args[0], ast.BinOp) and isinstance(n.args[0].op, ast.Mult) and norm(n.args[0].right) == "100"]
    if trunc:
        r2.fail(f"{pack.short}:{trunc[0][2][:50]}", pack.loc(trunc[0][1]), f"`{trunc[0][2]}` truncates: setpoints such as 19.99 would be packed one LSB low")
    elif scal:
        r2.ok({"setpoint_scaling": norm(scal[0])})
    else:
        raise AnalysisError("_struct_pack: setpoint scaling not found")
    r2.instances += 1
    r2.nontrivial += 1
    sp = dec.nested.get("setpoint")
    if sp is not None and any(isinstance(n, ast.BinOp) and isinstance(n.op, ast.Div) and norm(n.right) == "100" for n in own_nodes(sp.node)):
        r2.ok({"setpoint_decoding": "value / 100"})
    else:
        r2.fail(f"{dec.short}:setpoint-decoding", dec.loc(), "the setpoint is no longer decoded as value / 100")
    r2.instances += 1
    r2.nontrivial += 1
    tod_enc = [n for n in own_nodes(pack.node) if isinstance(n, ast.Assign) and norm(n.targets[0]) == "tod"]
    tod_dec = [n for n in own_nodes(dec.node) if isinstance(n, ast.Call) and norm(n.func) == "divmod" and norm(n.args[0]) == "tod"]
    if tod_enc and norm(tod_enc[0].value) == "int(tod_[:2]) * 60 + int(tod_[3:])" and tod_dec and norm(tod_dec[0].args[1]) == "60" and "'{:02d}:{:02d}'.format(*divmod(tod, 60))" in norm(dec.node):
        r2.ok({"time_of_day": "hh*60+mm <-> '{:02d}:{:02d}'.format(*divmod(tod, 60))"})
    else:
        r2.fail("tod:codec", pack.loc(), "time-of-day is no longer packed as hh*60+mm and unpacked with divmod(tod, 60) into 'hh:mm'")
    r2.instances += 1
    r2.nontrivial += 1
    idx_enc = any(isinstance(n, ast.Assign) and norm(n.targets[0]) == "idx" and norm(n.value) == "int(idx_, 16)" for n in own_nodes(pack.node))
    idx_dec = "f'{idx:02X}'" in norm(dec.node)
    if idx_enc and idx_dec:
        r2.ok({"zone_idx": "int(_, 16) <-> :02X"})
    else:
        r2.fail("idx:codec", pack.loc(), "the zone index is no longer int(_, 16) on packing and :02X on unpacking")
    out.append(r2)

    # ---- R3 ---------------------------------------------------------------------------
    r3 = RuleResult("R3", "a fragment fits a frame", "chunk size vs regex bound vs frame limit; the write payload shape ⊆ the W|0404 regex", min_instances=4)
    chunks = [n for n in own_nodes(enc.node) if isinstance(n, ast.ListComp) and "blob[" in norm(n)]
    if not chunks:
        raise AnalysisError("full_sched_to_fragz: chunking comprehension not found")
    lc = chunks[0]
    step = ctx.consts.eval_in(enc, lc.generators[0].iter.args[2])  # type: ignore[union-attr]
    width_m = re.search(r"i \+ (\d+)", norm(lc.elt))
    width = int(width_m.group(1)) if width_m else None
    schema = ctx.const("ramses_tx.ramses", "CODES_SCHEMA")
    r3.instances += 1
    r3.nontrivial += 1
    bounds = {v: re.search(r"\{2,(\d+)\}\$", schema["0404"][v]) for v in (" W", "RP")}
    if step == width and all(b and int(b.group(1)) == width for b in bounds.values()):
        r3.ok({"chunk": width, "regex_bound": {v: int(b.group(1)) for v, b in bounds.items()}})  # type: ignore[union-attr]
    else:
        r3.fail("0404:chunk-vs-regex", enc.loc(lc), f"fragments are cut every {step}/{width} hex digits but the 0404 W/RP regexes allow {[b.group(1) if b else None for b in bounds.values()]}")
    r3.instances += 1
    r3.nontrivial += 1
    cre = ctx.const("ramses_tx.const", "COMMAND_REGEX").pattern
    mp = re.search(r"\(\[0-9A-F\]\{2\}\)\{1,(\d+)\}\$", cre)
    max_hex = int(mp.group(1)) * 2 if mp else None
    if width is not None and max_hex is not None and 14 + width <= max_hex:
        r3.ok({"header+chunk": 14 + width, "frame_payload_limit": max_hex})
    else:
        r3.fail("0404:fits-frame", enc.loc(lc), f"a 14-digit header plus a {width}-digit fragment exceeds the {max_hex}-digit payload limit of COMMAND_REGEX")
    # write payload shape (zone idx restricted to what the decoder accepts; the fragment is HEX{2,width}, even length by construction)
    setf = repo.func("ramses_tx.command.Command.set_schedule_fragment")
    r3.instances += 1
    r3.nontrivial += 1
    # the payload shape is computed by the C03 shape interpreter from the constructor's source, with two stated assumptions:
    # `fragment` is 1..width/2 hex octets (what _struct_pack's chunking produces, checked above), and the zone index is one the
    # decoder accepts (`0[0-9A-F]`; out-of-domain indexes are finding F4 of C03)
    from ..rx import Rep, is_unknown, substitute
    from .c03_shapes import Interp

    it = Interp(ctx, setf, preset={"fragment": Rep(Hex(2), 1, (width or 82) // 2)})
    it.run()
    okshape = False
    shapes = []
    for call, env in it.calls:
        pe = (call.args[3] if len(call.args) > 3 else None) if call.func.attr == "from_attrs" else (call.args[2] if len(call.args) > 2 else None)  # type: ignore[union-attr]
        if pe is not None:
            shapes.append(it.shape(pe, env))
    if not shapes or any(is_unknown(sh) for sh in shapes):
        raise AnalysisError(f"set_schedule_fragment: payload shape not derivable ({[str(sh)[:60] for sh in shapes]})")
    for sh in shapes:
        sh2 = substitute(sh, "_check_idx", Cat(Lit("0"), Hex(1)))
        w = included(shape_dfa(sh2), regex_dfa(schema["0404"][" W"]))
        if w is None:
            okshape = True
            r3.ok({"W|0404 shape": str(sh2)[:110], "regex": schema["0404"][" W"]})
        else:
            r3.fail("set_schedule_fragment:shape", setf.loc(), f"set_schedule_fragment can build a W|0404 payload the decoder rejects, e.g. {w!r}")
    if not okshape and not r3.findings:
        raise AnalysisError("set_schedule_fragment: payload shape not checked")
    r3.instances += 1
    r3.nontrivial += 1
    fl = [n for n in own_nodes(setf.node) if isinstance(n, ast.Assign) and norm(n.targets[0]) == "frag_length"]
    if fl and norm(fl[0].value) == "int(len(fragment) / 2)":
        r3.ok({"frag_length": "len(fragment) / 2, formatted :02X"})
    else:
        r3.fail("set_schedule_fragment:frag_length", setf.loc(), "frag_length is no longer the fragment's byte count")
    out.append(r3)

    # ---- R4 ---------------------------------------------------------------------------
    r4 = RuleResult("R4", "validator grid vs codec grid", "REGEX_TIME_OF_DAY admits only hh:mm the codec preserves; Range(5,35)*100 fits 16 bits", min_instances=2)
    tod_re = ctx.const(S, "REGEX_TIME_OF_DAY")
    r4.instances += 1
    r4.nontrivial += 1
    import itertools

    d = regex_dfa(tod_re.replace(":", "\\:"))
    # enumerate the (finite) language over digits and ':' - ':' is 'other' in the automaton alphabet
    words = []
    for hh, mm in itertools.product(range(0, 30), range(0, 100)):
        wd = f"{hh:02d}:{mm:02d}"
        if re.match(tod_re, wd):
            words.append(wd)
    ok_words = all(int(w[:2]) < 24 and int(w[3:]) < 60 and "{:02d}:{:02d}".format(*divmod(int(w[:2]) * 60 + int(w[3:]), 60)) == w for w in words)
    if words and ok_words and len(words) == 24 * 12:
        r4.ok({"times_admitted": len(words), "all_survive_hh*60+mm": True})
    else:
        r4.fail("REGEX_TIME_OF_DAY:grid", repo.mod(S).rel, f"REGEX_TIME_OF_DAY admits {len(words)} times; not all survive hh*60+mm / divmod (expected the 288 five-minute times)")
    r4.instances += 1
    r4.nontrivial += 1
    rng = None
    for st in repo.mod(S).tree.body:
        if isinstance(st, ast.Assign) and norm(st.targets[0]) == "SCH_SWITCHPOINT_ZON":
            for n in ast.walk(st.value):
                if isinstance(n, ast.Call) and norm(n.func) == "vol.Range":
                    kw = {k.arg: ctx.consts.eval_in(repo.mod(S), k.value) for k in n.keywords}
                    rng = (kw.get("min"), kw.get("max"))
    val_fmt = pflds[3][2] if len(pflds) > 3 else "?"
    if rng and all(isinstance(x, (int, float)) for x in rng) and 0 <= rng[0] * 100 and rng[1] * 100 < 2**16 and val_fmt == "H" and rng[0] * 100 > 1:
        r4.ok({"setpoint_range": rng, "field": val_fmt, "distinct_from_on_off": "min*100 > 1"})
    else:
        r4.fail("setpoint:range-vs-field", repo.mod(S).rel, f"validated setpoints {rng} * 100 do not fit the '{val_fmt}' field (or collide with the 0/1 on-off encoding)")
    out.append(r4)
    # ---- R5 ---------------------------------------------------------------------------
    # Reassembly: once the fragment count matches the set being built, the received fragment is always stored in its slot (the
    # newest copy of a fragment wins). A path that returns the old set without storing it would keep serving the old schedule
    # after the controller's schedule was edited (same fragment count).
    r5 = RuleResult("R5", "a received fragment is never discarded", "in _update_payload_set every path after the fragment-count test stores the fragment in its slot (or starts a new set with it)", min_instances=1)
    ups = repo.func("ramses_rf.system.schedule.Schedule._update_payload_set")
    cfgu = ctx.plain_cfg(ups)
    count_tests = [t for t in cfgu.nodes if t.kind == "test" and isinstance(t.ast, ast.Compare) and len(t.ast.ops) == 1 and isinstance(t.ast.ops[0], (ast.NotEq, ast.Eq)) and "SZ_TOTAL_FRAGS" in norm(t.ast) and "payload_set" in norm(t.ast)]
    if not count_tests:
        raise AnalysisError("_update_payload_set: the fragment-count test was not found")

    def stores_fragment(x) -> bool:
        a = x.ast
        if a is None or x.kind != "stmt":
            return False
        if isinstance(a, ast.Assign) and isinstance(a.targets[0], ast.Subscript) and norm(a.targets[0].value) == "payload_set" and norm(a.value) == "payload":
            return True
        # (re)starting a set with this fragment: a call of the local initialiser with the fragment
        return any(isinstance(c, ast.Call) and isinstance(c.func, ast.Name) and c.func.id in ups.nested and any(norm(arg) == "payload" for arg in c.args) for c in ast.walk(a))

    for t in count_tests:
        r5.instances += 1
        r5.nontrivial += 1
        same = "false" if isinstance(t.ast.ops[0], ast.NotEq) else "true"  # the edge on which the counts agree
        leaks = []
        for y, lab in cfgu.succ[t.id]:
            if lab != same:
                continue
            ny = cfgu.nodes[y]
            if stores_fragment(ny):
                continue
            leaks += cfgu.exits_reachable_without(y, stores_fragment, skip_start_exc=False)
        if leaks:
            ex, path, _labs = leaks[0]
            last = [p for p in path if p.ast is not None]
            r5.fail(f"{ups.short}:fragment-discarded", ups.loc(last[-1].ast if last else None), "a fragment whose count matches the set being built can be dropped without being stored (the old slot content is kept): after the controller's schedule is edited, the old schedule keeps being served", [f"exit via line {last[-1].line if last else '?'}: {norm(last[-1].ast)[:60] if last else ''}"])
        else:
            r5.ok({"after": norm(t.ast)[:60], "every_path": "stores the fragment in its slot or restarts the set with it"})
    out.append(r5)

    # ---- R6 ---------------------------------------------------------------------------
    # "the same schedule or no schedule - never a different one": a set with a missing fragment must not be handed to the decoder
    # (what a truncated stream inflates to is data-dependent); the only other set decoded is the constant "no schedule" one.
    r6 = RuleResult("R6", "only a complete fragment set is decoded", "every call of _proc_payload_set in _update_payload_set is dominated by the `None in <set>` test being false, or decodes the constant empty set; nothing else calls it", min_instances=3)
    from .common import edge_implies, facts_at, short_circuit_facts

    pps = repo.func("ramses_rf.system.schedule.Schedule._proc_payload_set")
    r6.instances += 1
    r6.nontrivial += 1
    outside = [cs for cs in ctx.cg.callers_of(pps) if cs.caller is not ups]
    if outside:
        r6.fail(f"{outside[0].caller.short}:decodes-unchecked-set", outside[0].caller.loc(outside[0].node), f"{outside[0].caller.short} calls _proc_payload_set directly: only _update_payload_set tests the set for gaps before decoding it")
    else:
        r6.ok({"callers_of__proc_payload_set": sorted({cs.caller.short for cs in ctx.cg.callers_of(pps)})})
    calls = [c for c in own_nodes(ups.node) if isinstance(c, ast.Call) and norm(c.func) == "self._proc_payload_set" and c.args]
    if not calls:
        raise AnalysisError("_update_payload_set no longer calls _proc_payload_set")
    for c in calls:
        arg = norm(c.args[0])
        r6.instances += 1
        r6.nontrivial += 1
        st = c
        while not isinstance(st, ast.stmt):
            st = st.parent  # type: ignore[attr-defined]
        # the constant empty set: the argument's only definition in the same block, before the call, is a copy of EMPTY_PAYLOAD_SET,
        # with no slot written in between
        blk = getattr(st, "parent", None)
        sibs = next((getattr(blk, fld) for fld in ("body", "orelse", "finalbody") if isinstance(getattr(blk, fld, None), list) and st in getattr(blk, fld)), [])
        before = sibs[: sibs.index(st)] if st in sibs else []
        defs = [d for d in before if isinstance(d, ast.Assign) and norm(d.targets[0]) == arg]
        if defs and "EMPTY_PAYLOAD_SET" in norm(defs[-1].value) and not any(isinstance(w, ast.Subscript) and isinstance(w.ctx, ast.Store) and norm(w.value) == arg for d in before[before.index(defs[-1]) + 1 :] for w in ast.walk(d)):
            r6.ok({"call": f"line {c.lineno}", "set": "the constant empty set (zone has no schedule)"})
            continue
        goal = ast.parse(f"not (None in {arg})", mode="eval").body
        facts = short_circuit_facts(c) + facts_at(st)
        hit = [f"`{norm(t)[:60]}` is {v}" for t, v in facts if edge_implies(t, v, goal)]
        # all(<set>) is the same test
        hit += [f"`{norm(t)[:60]}` is {v}" for t, v in facts if edge_implies(t, v, ast.parse(f"all({arg})", mode="eval").body)]
        if hit:
            r6.ok({"call": f"line {c.lineno}", "complete_because": hit})
        else:
            r6.fail(f"{ups.short}:decodes-incomplete-set", ups.loc(c), f"`{norm(c)}` can be reached while a slot of {arg} is still None: a set with a gap is handed to the decoder, and whether the held fragments inflate to a (different) schedule is data-dependent")
    out.append(r6)
    return out
