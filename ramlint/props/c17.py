"""C17 - Schedules survive the wire format: encode/fragment/decode is the identity."""

from __future__ import annotations

import ast
import re
import struct

from ..context import Ctx
from ..loader import AnalysisError, norm, own_nodes
from ..report import RuleResult
from ..rx import Cat, Hex, HexRange, Lit, included, regex_dfa, shape_dfa
from .c04 import float_scaling_sites
from .common import module_scope as _scope, pool as _pool

META = {
    "explanation": (
        "C17.R1 pack/unpack format agreement - the struct formats of _struct_pack/_struct_unpack have the same byte order and size (= the "
        "20-byte stride of fragz_to_full_sched) and the same offset/width for the four fields. C17.R2 scaling - the setpoint is scaled "
        "with a rounding idiom (instance of C04.R1) and decoded by /100; time-of-day hh*60+mm vs divmod(tod, 60); zone idx int(_,16) vs "
        ":02X. C17.R3 a fragment fits a frame - the 82-hex-digit chunk equals the {2,82} bound of the 0404 W/RP regexes, header (14) + "
        "chunk (82) <= 96 = the 48-byte payload limit of COMMAND_REGEX, and the fragment-write payload shape is in the W|0404 regex language "
        "for the accepted zone indexes. C17.R4 validator grid vs codec grid - REGEX_TIME_OF_DAY admits only hh:mm that survive hh*60+mm, "
        "and Range(5, 35) * 100 fits the unsigned 16-bit field. Not decided: identity for all schedules; reassembly under permutation "
        "and repetition of fragment packets (values/histories)."
    ),
}
META["explanation"] += ' C17.R6: _proc_payload_set is called only from _update_payload_set and only when `None in set` is false (or on the constant empty set). C17.R7: no function on the schedule codec path is memoised while returning a mutable container.'
META["explanation"] += ' C17.R5: in _update_payload_set a received fragment whose count matches is always stored (or restarts the set).'

S = "ramses_rf.system.schedule"


def _fields(fmt: str) -> tuple[str, int, list[tuple[int, int, str]]]:
    order = fmt[0] if fmt[0] in "<>=!@" else "@"
    body = fmt[1:] if fmt[0] in "<>=!@" else fmt
    out = []
    for i, ch in enumerate(body):
        if ch != "x":
            out.append((struct.calcsize(order + body[:i]), struct.calcsize(order + ch), ch))
    return order, struct.calcsize(fmt), out


def _fold_or_none(ctx: Ctx, g, e):
    if isinstance(e, ast.Constant):
        return e.value
    try:
        return ctx.consts.eval_in(g, e)
    except Exception:
        return None


def _strides_and_widths(ctx: Ctx, funcs: list, of: str | None = None) -> "tuple[list[int], list[int]]":
    """(steps of `range(a, b, step)`, widths K of slices `x[v : v + K]`) found in funcs (constants folded)."""
    steps, widths = [], []
    for g, n in _pool(funcs):
        if isinstance(n, ast.Call) and norm(n.func) == "range" and len(n.args) == 3:
            k = _fold_or_none(ctx, g, n.args[2])
            if isinstance(k, int):
                steps.append(k)
        if isinstance(n, ast.Subscript) and isinstance(n.slice, ast.Slice) and n.slice.lower is not None and n.slice.upper is not None and n.slice.step is None:
            up, lo = n.slice.upper, n.slice.lower
            if isinstance(up, ast.BinOp) and isinstance(up.op, ast.Add):
                for a, b in ((up.left, up.right), (up.right, up.left)):
                    k = _fold_or_none(ctx, g, b)
                    if norm(a) == norm(lo) and isinstance(k, int) and not isinstance(a, ast.Constant):
                        widths.append(k)
    return steps, widths


def _computed_chunking(ctx: Ctx, funcs: list):
    """A `range(0, len(X), S)` walk cutting `X[i : i + W]` with S, W arithmetic in len(X): fold S and W for every length.
    Returns (function, range node, 'bytes'|'hex digits', [(L, W(L), S(L)), ...]) or None."""
    from .common import expand as _exp

    for g, n in _pool(funcs):
        if not (isinstance(n, ast.Call) and norm(n.func) == "range" and len(n.args) == 3 and isinstance(n.args[1], ast.Call) and norm(n.args[1].func) == "len" and n.args[1].args and isinstance(n.args[1].args[0], ast.Name)):
            continue
        X = n.args[1].args[0].id
        holder = getattr(n, "parent", None)
        var = holder.target.id if isinstance(holder, (ast.comprehension, ast.For)) and isinstance(holder.target, ast.Name) else None
        if var is None:
            continue
        scope = getattr(holder, "parent", None) if isinstance(holder, ast.comprehension) else holder
        sl = [x for x in ast.walk(scope) if isinstance(x, ast.Subscript) and isinstance(x.value, ast.Name) and x.value.id == X and isinstance(x.slice, ast.Slice) and x.slice.lower is not None and norm(x.slice.lower) == var and isinstance(x.slice.upper, ast.BinOp) and isinstance(x.slice.upper.op, ast.Add)]
        if not sl:
            continue
        up = sl[0].slice.upper
        wexpr = up.right if norm(up.left) == var else up.left
        # the unit: bytes if the slice is hexlified afterwards, hex digits if X already is hex text
        par = getattr(sl[0], "parent", None)
        unit = "bytes" if isinstance(par, ast.Attribute) and par.attr == "hex" else "hex digits"

        def ev(e: ast.AST, L: int, depth: int = 0):
            import math

            if depth > 12:
                raise ValueError("depth")
            if isinstance(e, ast.Constant) and isinstance(e.value, (int, float)) and not isinstance(e.value, bool):
                return e.value
            if isinstance(e, ast.Call) and norm(e.func) == "len" and e.args and norm(e.args[0]) == X:
                return L
            if isinstance(e, ast.Call) and norm(e.func) in ("min", "max", "int", "math.ceil", "ceil", "math.floor", "floor", "round", "abs"):
                a = [ev(x, L, depth + 1) for x in e.args]
                return {"min": min, "max": max, "int": lambda *v: int(v[0]), "math.ceil": lambda *v: math.ceil(v[0]), "ceil": lambda *v: math.ceil(v[0]), "math.floor": lambda *v: math.floor(v[0]), "floor": lambda *v: math.floor(v[0]), "round": lambda *v: round(v[0]), "abs": lambda *v: abs(v[0])}[norm(e.func)](*a)
            if isinstance(e, ast.Call) and norm(e.func) == "divmod":
                a, b = (ev(x, L, depth + 1) for x in e.args)
                return divmod(a, b)
            if isinstance(e, ast.Subscript) and isinstance(e.slice, ast.Constant):
                return ev(e.value, L, depth + 1)[e.slice.value]
            if isinstance(e, ast.UnaryOp) and isinstance(e.op, ast.USub):
                return -ev(e.operand, L, depth + 1)
            if isinstance(e, ast.BinOp):
                a, b = ev(e.left, L, depth + 1), ev(e.right, L, depth + 1)
                ops = {ast.Add: lambda: a + b, ast.Sub: lambda: a - b, ast.Mult: lambda: a * b, ast.FloorDiv: lambda: a // b, ast.Div: lambda: a / b, ast.Mod: lambda: a % b, ast.RShift: lambda: a >> b, ast.LShift: lambda: a << b}
                return ops[type(e.op)]()
            if isinstance(e, ast.IfExp):
                return ev(e.body, L, depth + 1) if ev(e.test, L, depth + 1) else ev(e.orelse, L, depth + 1)
            if isinstance(e, ast.Compare) and len(e.ops) == 1:
                a, b = ev(e.left, L, depth + 1), ev(e.comparators[0], L, depth + 1)
                return {ast.Lt: a < b, ast.LtE: a <= b, ast.Gt: a > b, ast.GtE: a >= b, ast.Eq: a == b, ast.NotEq: a != b}[type(e.ops[0])]
            if isinstance(e, ast.Name):
                from .common import single_defs

                d = single_defs(g.node).get(e.id)
                if d is not None:
                    return ev(d, L, depth + 1)
                k = _fold_or_none(ctx, g, e)
                if isinstance(k, (int, float)):
                    return k
            k = _fold_or_none(ctx, g, e)  # a module constant
            if isinstance(k, (int, float)) and not isinstance(k, bool):
                return k
            raise ValueError(f"unsupported: {norm(e)[:40]}")

        rows = []
        try:
            top = 41 * 12 if unit == "bytes" else 82 * 12
            for L in range(1, top + 1) if unit == "bytes" else range(2, top + 1, 2):
                rows.append((L, ev(wexpr, L), ev(n.args[2], L)))
        except (ValueError, ZeroDivisionError, KeyError, TypeError):
            return None
        return g, n, unit, rows
    return None


def _half_len(e: ast.expr, name: str) -> bool:
    """int(len(name) / 2)  |  len(name) // 2  |  len(name) >> 1"""
    if isinstance(e, ast.Call) and norm(e.func) == "int" and len(e.args) == 1:
        a = e.args[0]
        return isinstance(a, ast.BinOp) and isinstance(a.op, ast.Div) and norm(a.left) == f"len({name})" and norm(a.right) == "2"
    if isinstance(e, ast.BinOp) and isinstance(e.op, ast.FloorDiv):
        return norm(e.left) == f"len({name})" and norm(e.right) == "2"
    if isinstance(e, ast.BinOp) and isinstance(e.op, ast.RShift):
        return norm(e.left) == f"len({name})" and norm(e.right) == "1"
    return False


def check(ctx: Ctx) -> list[RuleResult]:
    repo = ctx.repo
    out: list[RuleResult] = []
    pack = repo.func(f"{S}._struct_pack")
    unpack = repo.func(f"{S}._struct_unpack")
    dec = repo.func(f"{S}.fragz_to_full_sched")
    enc = repo.func(f"{S}.full_sched_to_fragz")

    # ---- R1 ---------------------------------------------------------------------------
    r1 = RuleResult("R1", "pack/unpack format agreement", "same byte order, size (= stride) and field offsets/widths", min_instances=5)

    enc_scope, dec_scope = _scope(ctx, enc), _scope(ctx, dec)
    if pack not in enc_scope or unpack not in dec_scope:
        raise AnalysisError("the schedule encoder/decoder no longer reach _struct_pack/_struct_unpack")

    def fmt_of(f, fn: str) -> str:
        for g, n in _pool(_scope(ctx, f)):
            if isinstance(n, ast.Call) and norm(n.func) in (f"struct.{fn}", fn) and n.args:
                v = _fold_or_none(ctx, g, n.args[0])
                if isinstance(v, str):
                    return v
        raise AnalysisError(f"struct.{fn} format not found in {f.short}")

    pf, uf = fmt_of(pack, "pack"), fmt_of(unpack, "unpack")
    po, ps, pflds = _fields(pf)
    uo, us, uflds = _fields(uf)
    r1.instances += 1
    r1.nontrivial += 1
    if po == uo and ps == us:
        r1.ok({"pack": pf, "unpack": uf, "size": ps})
    else:
        r1.fail("struct:order-size", pack.loc(), f"pack format {pf!r} (order {po}, {ps} bytes) vs unpack format {uf!r} (order {uo}, {us} bytes)")
    for i, nm in enumerate(("idx", "dow", "tod", "val")):
        r1.instances += 1
        r1.nontrivial += 1
        if i < len(pflds) and i < len(uflds) and pflds[i] == uflds[i]:
            r1.ok({"field": nm, "offset": pflds[i][0], "width": pflds[i][1]})
        else:
            r1.fail(f"struct:field:{nm}", pack.loc(), f"field '{nm}' is packed at {pflds[i] if i < len(pflds) else None} but unpacked from {uflds[i] if i < len(uflds) else None}")
    r1.instances += 1
    r1.nontrivial += 1
    steps, widths = _strides_and_widths(ctx, dec_scope)
    if not steps or not widths:
        raise AnalysisError("fragz_to_full_sched: the record loop (range step / record slice) was not found")
    if set(steps) == {ps} and set(widths) == {ps}:
        r1.ok({"stride": ps, "record_slice_width": ps})
    else:
        r1.fail("struct:stride", dec.loc(), f"fragz_to_full_sched walks the blob in steps of {sorted(set(steps))} and cuts records of {sorted(set(widths))} bytes, but a record is {ps} bytes")
    out.append(r1)

    # ---- R2 ---------------------------------------------------------------------------
    r2 = RuleResult("R2", "scaling and field codecs agree", "setpoint round(x*100) vs /100; tod hh*60+mm vs divmod(tod,60); idx int(_,16) vs :02X", min_instances=4)
    r2.instances += 1
    r2.nontrivial += 1
    pack_scope = _scope(ctx, pack)
    trunc = float_scaling_sites(ctx, pack_scope)
    scal = [n for _g, n in _pool(pack_scope) if isinstance(n, ast.Call) and norm(n.func) in ("round", "int") and n.args and isinstance(n.args[0], ast.BinOp) and isinstance(n.args[0].op, ast.Mult) and "100" in (norm(n.args[0].right), norm(n.args[0].left))]
    if trunc:
        r2.fail(f"{pack.short}:{trunc[0][2][:50]}", trunc[0][0].loc(trunc[0][1]), f"`{trunc[0][2]}` truncates: setpoints such as 19.99 would be packed one LSB low")
    elif scal:
        r2.ok({"setpoint_scaling": norm(scal[0])})
    else:
        raise AnalysisError("_struct_pack: setpoint scaling not found")
    r2.instances += 1
    r2.nontrivial += 1
    divs = [n for _g, n in _pool(dec_scope) if isinstance(n, ast.BinOp) and isinstance(n.op, ast.Div) and _fold_or_none(ctx, _g, n.right) == 100]
    muls = [n for _g, n in _pool(dec_scope) if isinstance(n, ast.BinOp) and isinstance(n.op, (ast.Mult, ast.FloorDiv)) and any(_fold_or_none(ctx, _g, x) in (0.01, 100) for x in (n.left, n.right))]
    if divs and not muls:
        r2.ok({"setpoint_decoding": norm(divs[0])})
    else:
        r2.fail(f"{dec.short}:setpoint-decoding", dec.loc(), f"the setpoint is no longer decoded by an exact division by 100 ({[norm(m) for m in muls][:2]})")
    r2.instances += 1
    r2.nontrivial += 1
    from .common import expand as _expand

    def _is_int_of_slice(e: ast.expr, lo: str | None, hi: str | None) -> bool:
        if not (isinstance(e, ast.Call) and norm(e.func) == "int" and len(e.args) == 1 and isinstance(e.args[0], ast.Subscript) and isinstance(e.args[0].slice, ast.Slice)):
            return False
        sl = e.args[0].slice
        return (norm(sl.lower) if sl.lower is not None else None) == lo and (norm(sl.upper) if sl.upper is not None else None) == hi

    tod_enc = []
    for g, n in _pool(pack_scope):
        if isinstance(n, ast.BinOp) and isinstance(n.op, ast.Add):
            e = _expand(g.node, n, pure_only=False)
            for a, b in ((e.left, e.right), (e.right, e.left)):
                if isinstance(a, ast.BinOp) and isinstance(a.op, ast.Mult):
                    for h, k in ((a.left, a.right), (a.right, a.left)):
                        if norm(k) == "60" and _is_int_of_slice(h, None, "2") and _is_int_of_slice(b, "3", None):
                            tod_enc.append(n)
    # decoder: divmod(_, 60) (or // 60 with % 60) rendered with two zero-padded 2-digit fields around ':'
    dm = [n for _g, n in _pool(dec_scope) if isinstance(n, ast.Call) and norm(n.func) == "divmod" and len(n.args) == 2 and norm(n.args[1]) == "60"]
    fd = [n for _g, n in _pool(dec_scope) if isinstance(n, ast.BinOp) and isinstance(n.op, ast.FloorDiv) and norm(n.right) == "60"]
    md = [n for _g, n in _pool(dec_scope) if isinstance(n, ast.BinOp) and isinstance(n.op, ast.Mod) and norm(n.right) == "60" and not isinstance(n.left, ast.Constant)]
    fmt_ok = False
    for _g, n in _pool(dec_scope):
        if isinstance(n, ast.Call) and isinstance(n.func, ast.Attribute) and n.func.attr == "format" and isinstance(n.func.value, ast.Constant) and isinstance(n.func.value.value, str) and re.fullmatch(r"\{(0|1)?:02d?\}:\{(0|1)?:02d?\}", n.func.value.value):
            fmt_ok = True
        if isinstance(n, ast.JoinedStr):
            parts = n.values
            if len(parts) == 3 and isinstance(parts[1], ast.Constant) and parts[1].value == ":" and all(isinstance(p_, ast.FormattedValue) and p_.format_spec is not None and norm(p_.format_spec) in ("f'02d'", "f'02'") for p_ in (parts[0], parts[2])):
                fmt_ok = True
        if isinstance(n, ast.BinOp) and isinstance(n.op, ast.Mod) and isinstance(n.left, ast.Constant) and n.left.value in ("%02d:%02d",):
            fmt_ok = True
    if tod_enc and (dm or (fd and md)) and fmt_ok:
        r2.ok({"time_of_day": "int(hh) * 60 + int(mm) <-> divmod(tod, 60) rendered as %02d:%02d", "encoder": norm(tod_enc[0])[:60]})
    else:
        r2.fail("tod:codec", pack.loc(), f"time-of-day is no longer packed as hh*60+mm (found: {bool(tod_enc)}) and unpacked with divmod(tod, 60) (found: {bool(dm or (fd and md))}) into a zero-padded 'hh:mm' (found: {fmt_ok})")
    r2.instances += 1
    r2.nontrivial += 1
    idx_enc = any(isinstance(n, ast.Call) and norm(n.func) == "int" and len(n.args) == 2 and norm(n.args[1]) == "16" for _g, n in _pool(pack_scope))
    idx_dec = any((isinstance(n, ast.FormattedValue) and n.format_spec is not None and norm(n.format_spec) == "f'02X'") or (isinstance(n, ast.Call) and isinstance(n.func, ast.Attribute) and n.func.attr == "format" and isinstance(n.func.value, ast.Constant) and n.func.value.value in ("{:02X}", "{0:02X}")) for _g, n in _pool(dec_scope))
    if idx_enc and idx_dec:
        r2.ok({"zone_idx": "int(_, 16) <-> :02X"})
    else:
        r2.fail("idx:codec", pack.loc(), "the zone index is no longer int(_, 16) on packing and :02X on unpacking")
    out.append(r2)

    # ---- R3 ---------------------------------------------------------------------------
    r3 = RuleResult("R3", "a fragment fits a frame", "chunk size vs regex bound vs frame limit; the write payload shape ⊆ the W|0404 regex", min_instances=4)
    # the chunking of the hex blob: a `range(0, len(blob), step)` walk cutting `blob[i : i + width]`, wherever it is written
    c_steps, c_widths = _strides_and_widths(ctx, [g for g in enc_scope if g not in pack_scope])
    if not c_steps or not c_widths:
        # a computed chunk size (e.g. "spread the blob evenly"): the width and the step are arithmetic in len(blob) only, so they are
        # folded for every blob length up to 12 full fragments and compared with what a frame can carry - finite constant folding
        # of the source expression, nothing is run
        comp = _computed_chunking(ctx, [g for g in enc_scope if g not in pack_scope])
        if comp is None:
            raise AnalysisError("full_sched_to_fragz: the chunking loop (range step / slice width) was not found")
        g_c, rng_c, unit, worst = comp
        schema_c = ctx.const("ramses_tx.ramses", "CODES_SCHEMA")
        bnd = [re.search(r"\{2,(\d+)\}\$", schema_c["0404"][v]) for v in (" W", "RP")]
        cap_hex = min(int(b.group(1)) for b in bnd if b) if all(bnd) else None
        if cap_hex is None:
            raise AnalysisError("0404 regex bound not found")
        cap = cap_hex // 2 if unit == "bytes" else cap_hex
        r3.instances += 1
        r3.nontrivial += 1
        L_bad = next(((L, w, st) for L, w, st in worst if w > cap or w != st or w < 1), None)
        if L_bad:
            L, w, st = L_bad
            r3.fail("0404:chunk-vs-regex", g_c.loc(rng_c), f"the fragment size is computed from the blob length: for a blob of {L} {unit} the slices are {w} wide (step {st}), but a 0404 fragment may carry at most {cap} {unit} ({cap_hex} hex digits in the W/RP regexes): that fragment does not fit a frame / the decoder rejects it")
        else:
            r3.ok({"computed_chunk": f"<= {cap} {unit} for every blob length up to {worst[-1][0]}", "step_equals_width": True})
        c_steps, c_widths = [cap_hex], [cap_hex]
        _skip_const_chunk = True
    else:
        _skip_const_chunk = False
    lc = next((n for _g, n in _pool(enc_scope) if isinstance(n, ast.Call) and norm(n.func) == "range" and len(n.args) == 3), None)
    step = c_steps[0] if len(set(c_steps)) == 1 else None
    width = c_widths[0] if len(set(c_widths)) == 1 else None
    schema = ctx.const("ramses_tx.ramses", "CODES_SCHEMA")
    r3.instances += 1
    r3.nontrivial += 1
    bounds = {v: re.search(r"\{2,(\d+)\}\$", schema["0404"][v]) for v in (" W", "RP")}
    if _skip_const_chunk:
        r3.ok({"chunk": "computed (see above)"})
    elif step == width and all(b and int(b.group(1)) == width for b in bounds.values()):
        r3.ok({"chunk": width, "regex_bound": {v: int(b.group(1)) for v, b in bounds.items()}})  # type: ignore[union-attr]
    else:
        r3.fail("0404:chunk-vs-regex", enc.loc(lc), f"fragments are cut every {step}/{width} hex digits but the 0404 W/RP regexes allow {[b.group(1) if b else None for b in bounds.values()]}")
    r3.instances += 1
    r3.nontrivial += 1
    cre = ctx.const("ramses_tx.const", "COMMAND_REGEX").pattern
    mp = re.search(r"\(\[0-9A-F\]\{2\}\)\{1,(\d+)\}\$", cre)
    max_hex = int(mp.group(1)) * 2 if mp else None
    if width is not None and max_hex is not None and 14 + width <= max_hex:
        r3.ok({"header+chunk": 14 + width, "frame_payload_limit": max_hex})
    else:
        r3.fail("0404:fits-frame", enc.loc(lc), f"a 14-digit header plus a {width}-digit fragment exceeds the {max_hex}-digit payload limit of COMMAND_REGEX")
    # write payload shape (zone idx restricted to what the decoder accepts; the fragment is HEX{2,width}, even length by construction)
    setf = repo.func("ramses_tx.command.Command.set_schedule_fragment")
    r3.instances += 1
    r3.nontrivial += 1
    # the payload shape is computed by the C03 shape interpreter from the constructor's source, with two stated assumptions:
    # `fragment` is 1..width/2 hex octets (what _struct_pack's chunking produces, checked above), and the zone index is one the
    # decoder accepts (`0[0-9A-F]`; out-of-domain indexes are finding F4 of C03)
    from ..rx import Rep, is_unknown, substitute
    from .c03_shapes import Interp

    it = Interp(ctx, setf, preset={"fragment": Rep(Hex(2), 1, (width or 82) // 2)})
    it.run()
    okshape = False
    shapes = []
    for call, env in it.calls:
        pe = (call.args[3] if len(call.args) > 3 else None) if call.func.attr == "from_attrs" else (call.args[2] if len(call.args) > 2 else None)  # type: ignore[union-attr]
        if pe is not None:
            shapes.append(it.shape(pe, env))
    if not shapes or any(is_unknown(sh) for sh in shapes):
        raise AnalysisError(f"set_schedule_fragment: payload shape not derivable ({[str(sh)[:60] for sh in shapes]})")
    for sh in shapes:
        sh2 = substitute(sh, "_check_idx", Cat(Lit("0"), Hex(1)))
        w = included(shape_dfa(sh2), regex_dfa(schema["0404"][" W"]))
        if w is None:
            okshape = True
            r3.ok({"W|0404 shape": str(sh2)[:110], "regex": schema["0404"][" W"]})
        else:
            r3.fail("set_schedule_fragment:shape", setf.loc(), f"set_schedule_fragment can build a W|0404 payload the decoder rejects, e.g. {w!r}")
    if not okshape and not r3.findings:
        raise AnalysisError("set_schedule_fragment: payload shape not checked")
    r3.instances += 1
    r3.nontrivial += 1
    # the length octet is the fragment's byte count: the FormattedValue after the header in the payload template
    from .common import expand as _expand2

    fl_ok = False
    for n in own_nodes(setf.node):
        if isinstance(n, ast.FormattedValue) and n.format_spec is not None and norm(n.format_spec) == "f'02X'":
            if _half_len(_expand2(setf.node, n.value, pure_only=False), "fragment"):  # type: ignore[arg-type]
                fl_ok = True
    if fl_ok:
        r3.ok({"frag_length": "len(fragment) / 2, formatted :02X"})
    else:
        r3.fail("set_schedule_fragment:frag_length", setf.loc(), "frag_length is no longer the fragment's byte count")
    out.append(r3)

    # ---- R4 ---------------------------------------------------------------------------
    r4 = RuleResult("R4", "validator grid vs codec grid", "REGEX_TIME_OF_DAY admits only hh:mm the codec preserves; Range(5,35)*100 fits 16 bits", min_instances=2)
    tod_re = ctx.const(S, "REGEX_TIME_OF_DAY")
    r4.instances += 1
    r4.nontrivial += 1
    import itertools

    d = regex_dfa(tod_re.replace(":", "\\:"))
    # enumerate the (finite) language over digits and ':' - ':' is 'other' in the automaton alphabet
    words = []
    for hh, mm in itertools.product(range(0, 30), range(0, 100)):
        wd = f"{hh:02d}:{mm:02d}"
        if re.match(tod_re, wd):
            words.append(wd)
    ok_words = all(int(w[:2]) < 24 and int(w[3:]) < 60 and "{:02d}:{:02d}".format(*divmod(int(w[:2]) * 60 + int(w[3:]), 60)) == w for w in words)
    if words and ok_words and len(words) == 24 * 12:
        r4.ok({"times_admitted": len(words), "all_survive_hh*60+mm": True})
    else:
        r4.fail("REGEX_TIME_OF_DAY:grid", repo.mod(S).rel, f"REGEX_TIME_OF_DAY admits {len(words)} times; not all survive hh*60+mm / divmod (expected the 288 five-minute times)")
    r4.instances += 1
    r4.nontrivial += 1
    rng = None
    for st in repo.mod(S).tree.body:
        if isinstance(st, ast.Assign) and norm(st.targets[0]) == "SCH_SWITCHPOINT_ZON":
            for n in ast.walk(st.value):
                if isinstance(n, ast.Call) and norm(n.func) == "vol.Range":
                    kw = {k.arg: ctx.consts.eval_in(repo.mod(S), k.value) for k in n.keywords}
                    rng = (kw.get("min"), kw.get("max"))
    val_fmt = pflds[3][2] if len(pflds) > 3 else "?"
    if rng and all(isinstance(x, (int, float)) for x in rng) and 0 <= rng[0] * 100 and rng[1] * 100 < 2**16 and val_fmt == "H" and rng[0] * 100 > 1:
        r4.ok({"setpoint_range": rng, "field": val_fmt, "distinct_from_on_off": "min*100 > 1"})
    else:
        r4.fail("setpoint:range-vs-field", repo.mod(S).rel, f"validated setpoints {rng} * 100 do not fit the '{val_fmt}' field (or collide with the 0/1 on-off encoding)")
    out.append(r4)
    # ---- R5 ---------------------------------------------------------------------------
    # Reassembly: once the fragment count matches the set being built, the received fragment is always stored in its slot (the
    # newest copy of a fragment wins). A path that returns the old set without storing it would keep serving the old schedule
    # after the controller's schedule was edited (same fragment count).
    r5 = RuleResult("R5", "a received fragment is never discarded", "in _update_payload_set every path after the fragment-count test stores the fragment in its slot (or starts a new set with it)", min_instances=1)
    ups = repo.func("ramses_rf.system.schedule.Schedule._update_payload_set")
    cfgu = ctx.plain_cfg(ups)
    from .common import expand as _expand5

    count_tests = [t for t in cfgu.nodes if t.kind == "test" and isinstance(t.ast, ast.Compare) and len(t.ast.ops) == 1 and isinstance(t.ast.ops[0], (ast.NotEq, ast.Eq)) and "SZ_TOTAL_FRAGS" in norm(_expand5(ups.node, t.ast, pure_only=False)) and "payload_set" in norm(_expand5(ups.node, t.ast, pure_only=False))]
    if not count_tests:
        # the count comparison sits inside a compound test: what else decides that the set is started afresh? "In any order and with
        # repeats" - the restart may depend on the fragment *count* only; a restart keyed on which fragment arrived (its number)
        # throws away the fragments of the same schedule that arrived before it
        comp = [t for t in cfgu.nodes if t.kind == "test" and isinstance(t.ast, ast.BoolOp) and "SZ_TOTAL_FRAGS" in norm(_expand5(ups.node, t.ast, pure_only=False))]
        if comp:
            others = [v for v in comp[0].ast.values if "SZ_TOTAL_FRAGS" not in norm(_expand5(ups.node, v, pure_only=False))]
            r5.instances += 1
            r5.nontrivial += 1
            r5.fail(f"{ups.short}:restart-not-on-count-alone", ups.loc(comp[0].ast), f"the fragment set is (re)started under `{norm(comp[0].ast)[:90]}`: besides the fragment count it depends on `{norm(others[0])[:50] if others else '?'}` - a restart decided by which fragment arrives makes the assembled schedule depend on arrival order (fragments 2,1,3.. of an edited schedule lose fragment 2, and the zone keeps the old schedule)")
            out.append(r5)
            count_tests = None  # type: ignore[assignment]
        else:
            raise AnalysisError("_update_payload_set: the fragment-count test was not found")

    if count_tests is not None:
        def stores_fragment(x) -> bool:
            a = x.ast
            if a is None or x.kind != "stmt":
                return False
            if isinstance(a, ast.Assign) and isinstance(a.targets[0], ast.Subscript) and norm(a.targets[0].value) == "payload_set" and norm(a.value) == "payload":
                return True
            # (re)starting a set with this fragment: a call of the local initialiser with the fragment
            return any(isinstance(c, ast.Call) and _restarts_with(c) for c in ast.walk(a))

        def _restarts_with(c: ast.Call) -> bool:
            """a call handing the fragment to a (nested or same-class) initialiser that stores that parameter in a slot of a new list"""
            pos = [i for i, arg in enumerate(c.args) if norm(arg) == "payload"]
            if not pos:
                return False
            cands = []
            if isinstance(c.func, ast.Name) and c.func.id in ups.nested:
                cands.append((ups.nested[c.func.id], 0))
            else:
                for cs in ctx.cg.calls_in(ups):
                    if cs.node is c:
                        for callee in cs.callees:
                            a0 = callee.node.args.args
                            cands.append((callee, 1 if a0 and a0[0].arg in ("self", "cls") else 0))
            for callee, off in cands:
                params = [x.arg for x in callee.node.args.args]
                for i in pos:
                    if i + off < len(params):
                        pn = params[i + off]
                        if any(isinstance(n, ast.Assign) and isinstance(n.targets[0], ast.Subscript) and norm(n.value) == pn for n in own_nodes(callee.node)):
                            return True
            return False

        for t in count_tests:
            r5.instances += 1
            r5.nontrivial += 1
            same = "false" if isinstance(t.ast.ops[0], ast.NotEq) else "true"  # the edge on which the counts agree
            leaks = []
            for y, lab in cfgu.succ[t.id]:
                if lab != same:
                    continue
                ny = cfgu.nodes[y]
                if stores_fragment(ny):
                    continue
                leaks += cfgu.exits_reachable_without(y, stores_fragment, skip_start_exc=False)
            if leaks:
                ex, path, _labs = leaks[0]
                last = [p for p in path if p.ast is not None]
                r5.fail(f"{ups.short}:fragment-discarded", ups.loc(last[-1].ast if last else None), "a fragment whose count matches the set being built can be dropped without being stored (the old slot content is kept): after the controller's schedule is edited, the old schedule keeps being served", [f"exit via line {last[-1].line if last else '?'}: {norm(last[-1].ast)[:60] if last else ''}"])
            else:
                r5.ok({"after": norm(t.ast)[:60], "every_path": "stores the fragment in its slot or restarts the set with it"})
        out.append(r5)

    # ---- R6 ---------------------------------------------------------------------------
    # "the same schedule or no schedule - never a different one": a set with a missing fragment must not be handed to the decoder
    # (what a truncated stream inflates to is data-dependent); the only other set decoded is the constant "no schedule" one.
    r6 = RuleResult("R6", "only a complete fragment set is decoded", "every call of _proc_payload_set in _update_payload_set is dominated by the `None in <set>` test being false, or decodes the constant empty set; nothing else calls it", min_instances=3)
    from .common import edge_implies, facts_at, short_circuit_facts

    pps = repo.func("ramses_rf.system.schedule.Schedule._proc_payload_set")
    r6.instances += 1
    r6.nontrivial += 1
    outside = [cs for cs in ctx.cg.callers_of(pps) if cs.caller is not ups]
    if outside:
        r6.fail(f"{outside[0].caller.short}:decodes-unchecked-set", outside[0].caller.loc(outside[0].node), f"{outside[0].caller.short} calls _proc_payload_set directly: only _update_payload_set tests the set for gaps before decoding it")
    else:
        r6.ok({"callers_of__proc_payload_set": sorted({cs.caller.short for cs in ctx.cg.callers_of(pps)})})
    calls = [c for c in own_nodes(ups.node) if isinstance(c, ast.Call) and norm(c.func) == "self._proc_payload_set" and c.args]
    if not calls:
        raise AnalysisError("_update_payload_set no longer calls _proc_payload_set")
    for c in calls:
        arg = norm(c.args[0])
        r6.instances += 1
        r6.nontrivial += 1
        st = c
        while not isinstance(st, ast.stmt):
            st = st.parent  # type: ignore[attr-defined]
        # the constant empty set: the argument's only definition in the same block, before the call, is a copy of EMPTY_PAYLOAD_SET,
        # with no slot written in between
        blk = getattr(st, "parent", None)
        sibs = next((getattr(blk, fld) for fld in ("body", "orelse", "finalbody") if isinstance(getattr(blk, fld, None), list) and st in getattr(blk, fld)), [])
        before = sibs[: sibs.index(st)] if st in sibs else []
        defs = [d for d in before if isinstance(d, ast.Assign) and norm(d.targets[0]) == arg]
        if defs and "EMPTY_PAYLOAD_SET" in norm(defs[-1].value) and not any(isinstance(w, ast.Subscript) and isinstance(w.ctx, ast.Store) and norm(w.value) == arg for d in before[before.index(defs[-1]) + 1 :] for w in ast.walk(d)):
            r6.ok({"call": f"line {c.lineno}", "set": "the constant empty set (zone has no schedule)"})
            continue
        goal = ast.parse(f"not (None in {arg})", mode="eval").body
        facts = short_circuit_facts(c) + facts_at(st)
        hit = [f"`{norm(t)[:60]}` is {v}" for t, v in facts if edge_implies(t, v, goal)]
        # all(<set>) is the same test
        hit += [f"`{norm(t)[:60]}` is {v}" for t, v in facts if edge_implies(t, v, ast.parse(f"all({arg})", mode="eval").body)]
        if hit:
            r6.ok({"call": f"line {c.lineno}", "complete_because": hit})
        else:
            r6.fail(f"{ups.short}:decodes-incomplete-set", ups.loc(c), f"`{norm(c)}` can be reached while a slot of {arg} is still None: a set with a gap is handed to the decoder, and whether the held fragments inflate to a (different) schedule is data-dependent")
    out.append(r6)

    # ---- R7 ---------------------------------------------------------------------------
    # The decoded schedule is edited in place by its consumers (_proc_payload_set sets schedule[zone_idx] = "HW" for hot water): a
    # memoised decoder would hand the same dict to every zone whose fragments are byte-identical, so one zone's edit shows up in
    # another's schedule - "a different schedule".
    r7 = RuleResult("R7", "decoded schedules are not shared objects", "no function of the schedule codec path is memoised while returning a mutable container", min_instances=4)
    MUT = ("I:builtins.dict", "I:builtins.list", "I:builtins.set", "I:builtins.bytearray")
    for g in sorted(set(dec_scope + enc_scope + [pps, ups]), key=lambda x: x.qualname):
        r7.instances += 1
        r7.nontrivial += 1
        cached = [d for d in g.decorators if "lru_cache" in d or d in ("cache", "functools.cache")]
        if not cached:
            r7.ok({"function": g.short, "memoised": False})
            continue
        bad = None
        for n in own_nodes(g.node):
            if isinstance(n, ast.Return) and n.value is not None:
                at = set(ctx.cg.atoms(g, n.value) or ("Any",))
                if isinstance(n.value, (ast.Dict, ast.List, ast.Set, ast.DictComp, ast.ListComp, ast.SetComp)) or any(a in MUT or a.startswith("I:collections") or a.startswith("TD:") for a in at):
                    bad = n
        ann = norm(g.node.returns) if g.node.returns is not None else ""
        if bad is None and any(k in ann for k in ("dict", "list", "Schedule", "Dict", "List")):
            bad = g.node
        if bad is not None:
            r7.fail(f"{g.short}:cached-mutable-result", g.loc(bad), f"{g.short} is memoised ({cached[0][:30]}) and returns a mutable container: zones (or successive reads) whose fragments are identical share one schedule object, and the in-place edits made by _proc_payload_set/callers leak between them")
        else:
            r7.ok({"function": g.short, "memoised": True, "returns": "immutable values only"})
    out.append(r7)

    # ---- R8 ---------------------------------------------------------------------------
    # the 0404 header is seven bytes at fixed offsets and the fragment is whatever follows: a header field (and its sentinel values)
    # is read at its own offset from the start - a test placed relative to the *end* of the payload lands in the fragment's data for
    # every frame that carries one, so a fragment that happens to end in the sentinel byte is misread or rejected
    r8 = RuleResult("R8", "0404 header fields are read at fixed offsets", "every slice/index of the payload in parser_0404 is anchored at a non-negative constant offset; only the fragment slice is open-ended", min_instances=4)
    p0404 = repo.func("ramses_tx.parsers.parser_0404")
    pay = p0404.node.args.args[0].arg
    hdr_len = 14
    n8 = 0
    for n in own_nodes(p0404.node):
        if isinstance(n, ast.Subscript) and isinstance(n.value, ast.Name) and n.value.id == pay:
            n8 += 1
            r8.instances += 1
            r8.nontrivial += 1
            sl = n.slice
            lo = hi = None
            ok8 = True
            if isinstance(sl, ast.Slice):
                lo = _fold_or_none(ctx, p0404, sl.lower) if sl.lower is not None else 0
                hi = _fold_or_none(ctx, p0404, sl.upper) if sl.upper is not None else None
                if not isinstance(lo, int) or lo < 0 or (sl.upper is not None and (not isinstance(hi, int) or hi < 0)):
                    ok8 = False
                elif sl.upper is None and lo < hdr_len and lo != 0:
                    ok8 = False  # an open-ended slice that starts inside the header mixes header and data
            else:
                k = _fold_or_none(ctx, p0404, sl)
                ok8 = isinstance(k, int) and k >= 0
            if ok8:
                r8.ok({"read": norm(n), "anchored_at": lo if lo is not None else norm(sl)})
            else:
                r8.fail(f"parser_0404:end-relative-read:{norm(n)}", p0404.loc(n), f"`{norm(n)}` in parser_0404 is placed relative to the end of the payload (or runs from inside the header to the end): for a frame that carries a fragment this reads the fragment's data, so a fragment whose last byte equals a header sentinel (e.g. FF) is misread or rejected although it is a legal fragment")
    if n8 < 4:
        raise AnalysisError(f"parser_0404: only {n8} reads of the payload found")
    out.append(r8)

    # ---- R9 ---------------------------------------------------------------------------
    # decoding is total over the records: (i) every 20-byte record of the inflated blob becomes a switchpoint - a record that is
    # skipped ("padding", "all zeros") is a legal switchpoint for some schedule (hot water, Monday, 00:00, off is 20 zero bytes);
    # (ii) an overheard fragment is merged whatever the object has cached: the only reasons to pass over a 0404 are the ones the code
    # has today (not a 0404, the 'no schedule' marker, this zone holds the transfer lock) - a skip decided on cached versions or on
    # the cached schedule keeps an edited schedule out, so the zone goes on reporting the old one
    r9 = RuleResult("R9", "no record and no overheard fragment is passed over", "the record loop of fragz_to_full_sched has no skip; Schedule._handle_msg's guards test only the code, the no-schedule marker and the lock owner", min_instances=2)
    rec_loops = [n for g in dec_scope for n in own_nodes(g.node) if isinstance(n, (ast.For, ast.While)) and any(isinstance(c, ast.Call) and norm(c.func).split(".")[-1] in ("_struct_unpack", "unpack", "unpack_from", "iter_unpack") or (isinstance(c, ast.Call) and isinstance(c.func, ast.Name) and c.func.id in {h.name for h in dec_scope}) for c in ast.walk(n))]
    if not rec_loops:
        raise AnalysisError("fragz_to_full_sched: the record loop was not found")
    for lp in rec_loops:
        r9.instances += 1
        r9.nontrivial += 1
        skips = [x for x in ast.walk(lp) if isinstance(x, (ast.Continue, ast.Break))]
        if skips:
            r9.fail(f"{dec.short}:record-skipped", dec.loc(skips[0]), f"the record loop of the schedule decoder can pass over a record (`{norm(skips[0])}` under `{norm(getattr(getattr(skips[0], 'parent', None), 'test', skips[0]))[:50]}`): a record that looks like padding is a legal switchpoint of some schedule, which then does not survive encode -> decode")
        else:
            r9.ok({"record_loop": norm(lp)[:60], "skips": 0})
    hm9 = repo.func(f"{S}.Schedule._handle_msg")
    from .common import module_scope as _ms9

    ACCEPT = ("msg.code", "SZ_TOTAL_FRAGS", "zone_lock_idx")
    n_tests = 0
    for g in [x for x in _ms9(ctx, hm9) if x is hm9 or x.cls is hm9.cls]:
        if g is not hm9 and not any(isinstance(c, ast.Call) and isinstance(c.func, ast.Attribute) and c.func.attr == g.name for c in own_nodes(hm9.node)):
            continue
        if g.name in ("_update_payload_set", "_proc_payload_set"):
            continue
        for n in own_nodes(g.node):
            tests = []
            if isinstance(n, (ast.If, ast.While)):
                tests = [n.test]
            elif isinstance(n, ast.IfExp):
                tests = [n.test]
            for t in tests:
                atoms9: list[ast.expr] = []

                def flat(e: ast.expr) -> None:
                    if isinstance(e, ast.BoolOp):
                        for v in e.values:
                            flat(v)
                    elif isinstance(e, ast.UnaryOp) and isinstance(e.op, ast.Not):
                        flat(e.operand)
                    else:
                        atoms9.append(e)

                flat(_expand(g.node, t, pure_only=False))
                for a9 in atoms9:
                    if isinstance(a9, ast.Call) and isinstance(a9.func, ast.Attribute) and norm(a9.func.value) == "self" and any(h.name == a9.func.attr for h in _ms9(ctx, hm9)):
                        continue  # a predicate method of the same object: its own tests are examined
                    n_tests += 1
                    r9.instances += 1
                    r9.nontrivial += 1
                    if any(k in norm(a9) for k in ACCEPT):
                        r9.ok({"guard": norm(a9)[:60]})
                    else:
                        r9.fail(f"{g.short}:fragment-passed-over-on:{norm(a9)[:40]}", g.loc(n), f"Schedule._handle_msg decides on `{norm(a9)[:70]}` whether an overheard 0404 is merged: that is neither the code, the 'no schedule' marker nor the lock owner - a fragment of an edited schedule is dropped on the strength of what is cached, and the zone keeps reporting the schedule it had")
    if n_tests < 2:
        raise AnalysisError("Schedule._handle_msg: its guards were not found")
    out.append(r9)
    return out
